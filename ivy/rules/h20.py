"""Helpers of C20 (iv_inotify): role discovery and the three analyses the rules are read off.

Nothing in here depends on how iv_inotify.c is cut into static helpers, on what locals are
called, on loop shapes or on the spelling of branch conditions:

  * roles      the dispatcher is the function installed as handler_in of the instance's iv_fd
               while iv_inotify_register runs; the comparator is the function stored into the
               compare slot of the instance's tree there.  Both are analysed with every helper
               of the same unit inlined.
  * Prov       disjunctive (path sensitive) forward analysis of the dispatcher over *tree
               elements*: every value obtained from the instance's tree (root, ->left, ->right,
               min/next) is a symbolic object named by its definition site; a node pointer and
               the watch that contains it are the same object.  Must-facts per object: found in
               the instance tree since the last user callback, non-NULL, which orderings of
               (wd of the current record, wd of the object) the branches taken exclude, deleted
               from the tree, IN_ONESHOT clear; per record: IN_IGNORED clear.
  * Walk       disjunctive forward analysis of pointer/offset values as linear forms over the
               current record (REC + bytes + k * REC->len), re-based at every definition of the
               record variable.
  * comparator evaluation with the finite interpreter (ivy.interp) over the three orderings of
               the key pair, operands classified by the parameter their container derives from.
"""
from ..core import (AnalysisBroken, Inliner, canon, strip, walk, last_member, lvalue_steps, norm_cond,
                    fold, forward, relpath, _keys_read, _pure_path)
from ..analyses import callback_kind, clone_cfg
from .. import interp

IN_IGNORED = 0x00008000
IN_ONESHOT = 0x80000000
INST, WATCH, NODE, TREE, REC = 'iv_inotify', 'iv_inotify_watch', 'iv_avl_node', 'iv_avl_tree', 'inotify_event'
CMPOPS = ('<', '>', '<=', '>=', '==', '!=')
SWAPOP = {'==': '==', '!=': '!=', '<': '>', '>': '<', '<=': '>=', '>=': '<='}
MAXSTATES = 600


# --------------------------------------------------------------------------
# roles
# --------------------------------------------------------------------------

def _cache(prog):
    return prog.__dict__.setdefault('_h20_cache', {})


def inlined_local(prog, f):
    """f with every helper defined in the same unit (or in a header) inlined; other units' functions
    stay calls."""
    c = _cache(prog)
    if ('inl', f.q) not in c:
        c[('inl', f.q)] = Inliner(prog, stop=lambda t, f=f: t.file.endswith('.c') and t.file != f.file).inline(f)
    return c[('inl', f.q)]


def _func_of(prog, e, x):
    """Function a `func` variable node x mentioned by event e refers to."""
    owner = prog.funcs.get(e.get('fn')) if e.get('fn') else None
    u = prog.unit_of(owner) if owner is not None else None
    g = prog.resolve(u, x['name']) if u else None
    if g is None:
        c = [y for y in prog.all_funcs() if y.name == x['name']]
        g = c[0] if len(c) == 1 else None
    return g


def _installed(prog, reg, fields):
    g = inlined_local(prog, reg)
    out = []
    for e in g.events():
        if e['ev'] == 'store' and 'rhs' in e and last_member(e['lhs']) in fields:
            r = strip(e['rhs'])
            if isinstance(r, dict) and r.get('k') == 'addr':
                r = strip(r['e'])
            if isinstance(r, dict) and r.get('k') == 'var' and r.get('vk') == 'func':
                t = _func_of(prog, e, r)
                if t is not None and t not in out:
                    out.append(t)
    return out


def dispatcher(prog):
    """The function installed as handler_in of the instance's iv_fd during iv_inotify_register."""
    reg = prog.fn('iv_inotify_register')
    c = _installed(prog, reg, (('iv_fd', 'handler_in'), ('iv_fd_', 'handler_in')))
    if len(c) != 1:
        raise AnalysisBroken('inotify dispatcher: %d functions are installed as handler_in by iv_inotify_register (%s)'
                             % (len(c), ', '.join(x.q for x in c)))
    return c[0]


def comparator(prog):
    """The function stored into the compare slot of the instance's watch tree during iv_inotify_register."""
    reg = prog.fn('iv_inotify_register')
    c = _installed(prog, reg, ((TREE, 'compare'),))
    if len(c) != 1:
        raise AnalysisBroken('watch comparator: %d functions are stored into an iv_avl_tree compare slot by '
                             'iv_inotify_register (%s)' % (len(c), ', '.join(x.q for x in c)))
    return c[0]


# --------------------------------------------------------------------------
# small expression helpers
# --------------------------------------------------------------------------

def lvar(e):
    e = strip(e)
    if isinstance(e, dict) and e.get('k') == 'var' and e.get('vk') in ('local', 'param'):
        return e
    return None


def is_ptr_to(x, rec):
    return bool(x) and ((x.get('record') == rec and x.get('ptr')) or
                        x.get('type', '').replace('const ', '').strip() in ('struct %s *' % rec, 'struct %s *const' % rec))


def const_of(e):
    e = strip(fold(e)) if isinstance(e, dict) else e
    if isinstance(e, dict) and e.get('k') == 'int':
        return e['v']
    if isinstance(e, dict) and e.get('k') == 'null':
        return 0
    return None


def cond_arms(rhs, atoms=()):
    """[(atoms that hold, value expression)] of a (nested) conditional expression."""
    r = strip(rhs)
    if isinstance(r, dict) and r.get('k') == 'cond':
        out = []
        for pol, arm in ((True, r['a']), (False, r['b'])):
            out += cond_arms(arm, tuple(atoms) + (tuple(norm_cond(r['c'], pol)),))
        return out
    return [(tuple(atoms), rhs)]


def addr_keys(x):
    """for `&v->a.b` / `&v->a[i]`-free address computations: the variables read (no memory is read); else None"""
    s = strip(x)
    if not (isinstance(s, dict) and s.get('k') == 'addr'):
        return None
    m = strip(s['e'])
    arrows = 0
    while isinstance(m, dict) and m.get('k') == 'member':
        arrows += 1 if m['arrow'] else 0
        m = strip(m['base']) if m['arrow'] else m['base']
        if arrows and not (isinstance(m, dict) and m.get('k') == 'var'):
            return None
    if isinstance(m, dict) and m.get('k') == 'var' and arrows <= 1:
        return {('var', m['name'])}
    return None


def short(loc):
    return relpath(loc) if loc else '?'


def fn_target(e):
    """the function-pointer expression an indirect call goes through, `(*p)(...)` read as `p(...)`"""
    x = strip(e.get('fnexpr'))
    while isinstance(x, dict) and x.get('k') == 'deref':
        x = strip(x['e'])
    return x


# --------------------------------------------------------------------------
# Prov: provenance of the watch whose handler is called
# --------------------------------------------------------------------------

class Prov:
    """See module docstring.  State = (frozenset of (variable, value), frozenset of facts).

    values  ('obj', id)  tree element (node pointer or pointer to the watch containing it)
            ('null',) ('int', n)
            ('key', R)   the wd of the record variable R
            ('rec', R)   copy of the record variable R
            ('cookie', id) ('handler', id)  those fields of the watch id, read into a local
            ('expr', k)  a side-effect free expression (table self.exprs), e.g. a cached mask / tree address
    facts   ('found', id)  read out of the instance's tree since the last user callback (or NULL)
            ('cur', id)  ... and the tree was not modified since: its child pointers may be followed
            ('nn', id)   not NULL
            ('no', id, R, o)  ordering o in '<=>' of (R->wd, id.wd) is excluded by the branches taken
            ('del', id)  iv_avl_tree_delete(instance tree, id) was executed
            ('noone', id)  IN_ONESHOT is clear in id.mask;  ('noign', R)  IN_IGNORED is clear in R->mask
            ('phase', p)  none | defined (the record variable was assigned) | open (a field of the record was
                          read, nothing decided yet) | called | exhausted (a tree cursor was found NULL)
    """

    def __init__(self, prog, g):
        self.prog = prog
        self.g = g
        self.exprs = {}
        self.expr_keys = {}
        self.handler_locals = self._handler_locals()
        self.an_offset = next((f.get('offset') for f in prog.records.get(WATCH, {}).get('fields', []) if f['name'] == 'an'), None)
        self.sites = {}      # loc -> [dict per state]
        self.steps = {}      # (loc, dir) -> [(ok, detail)]
        self.miss = {}       # loc -> [ok]
        self.tree_reads = []  # locs at which the root / min / max of the instance tree is read
        self.run()

    # ---- site discovery (state independent) --------------------------------
    def _handler_locals(self):
        defs = {}
        for e in self.g.events():
            if e['ev'] == 'store':
                v = lvar(e['lhs'])
                if v is not None:
                    defs.setdefault(v['name'], []).append(e)
        out = set()
        for n, ds in defs.items():
            if all(d.get('op') == '=' and 'rhs' in d and last_member(d['rhs']) == (WATCH, 'handler') for d in ds):
                out.add(n)
        return out

    def is_watch_handler_call(self, e):
        if e['ev'] != 'call' or 'fnexpr' not in e:
            return False
        if callback_kind(e) == ('callback', 'inotify_watch') or last_member(fn_target(e)) == (WATCH, 'handler'):
            return True
        v = lvar(fn_target(e))
        return v is not None and v['name'] in self.handler_locals

    # ---- state helpers -------------------------------------------------------
    @staticmethod
    def freeze(vm, facts):
        return (frozenset(vm.items()), frozenset(facts))

    @staticmethod
    def thaw(st):
        return dict(st[0]), set(st[1])

    @staticmethod
    def phase(facts):
        for f in facts:
            if f[0] == 'phase':
                return f[1]
        return 'none'

    @staticmethod
    def set_phase(facts, p):
        for f in [f for f in facts if f[0] == 'phase']:
            facts.discard(f)
        facts.add(('phase', p))

    def rec_root(self, name, vm):
        v = vm.get(name)
        return v[1] if v and v[0] == 'rec' else name

    def kill_var(self, x, vm, facts):
        vm.pop(x, None)
        for y, v in list(vm.items()):
            if (v[0] in ('rec', 'key') and v[1] == x) or (v[0] == 'expr' and ('var', x) in self.expr_keys[v[1]]):
                del vm[y]
        for f in [f for f in facts if (f[0] == 'no' and f[2] == x) or (f[0] == 'noign' and f[1] == x)]:
            facts.discard(f)

    def forget_obj(self, oid, vm, facts, keep=None):
        """the site `oid` defines a new object: nothing known about the old one survives"""
        for y, v in list(vm.items()):
            if y != keep and v in (('obj', oid), ('cookie', oid), ('handler', oid)):
                del vm[y]
        for f in [f for f in facts if f[0] in ('cur', 'found', 'nn', 'no', 'del', 'noone') and f[1] == oid]:
            facts.discard(f)

    def excluded(self, oid, R, facts):
        return {f[3] for f in facts if f[0] == 'no' and f[1] == oid and f[2] == R}

    # ---- expression classification -------------------------------------------
    def resolve(self, e, vm):
        """expression a local stands for (cached pure expression), else the expression itself"""
        for _ in range(6):
            v = lvar(e)
            if v is None:
                return e
            val = vm.get(v['name'])
            if not val or val[0] != 'expr':
                return e
            e = self.exprs[val[1]]
        return e

    def var_value(self, v, vm):
        """value of a variable node; pointers to watches / tree nodes that were never assigned from the
        tree get an object of their own (so that copies of them stay recognisable)"""
        val = vm.get(v['name'])
        if val is None and (is_ptr_to(v, WATCH) or is_ptr_to(v, NODE)):
            val = ('obj', 'init:' + v['name'])
            vm[v['name']] = val
        return val

    def elem_id(self, p, vm):
        """tree element a pointer expression (node pointer or watch pointer) denotes"""
        s = strip(self.resolve(p, vm))
        if not isinstance(s, dict):
            return None
        k = s.get('k')
        if k == 'var':
            if s.get('vk') not in ('local', 'param'):
                return None
            val = self.var_value(s, vm)
            return val[1] if val and val[0] == 'obj' else None
        if k == 'addr':
            m = strip(s['e'])
            if isinstance(m, dict) and m.get('k') == 'member' and (m.get('record'), m['field']) == (WATCH, 'an'):
                return self.elem_id(m['base'], vm) if m['arrow'] else None
            return None
        if k == 'container_of' and s.get('record') == WATCH and s.get('member') == 'an':
            return self.elem_id(s['e'], vm)
        if k == 'bin' and s['op'] == '-' and const_of(s['r']) is not None and const_of(s['r']) == self.an_offset:
            return self.elem_id(s['l'], vm)
        return None

    def is_inst_tree(self, p, vm):
        """pointer expression to the watch tree of an inotify instance"""
        s = strip(self.resolve(p, vm))
        return isinstance(s, dict) and s.get('k') == 'addr' and last_member(s['e']) == (INST, 'watches')

    def field_of_watch(self, x, field, vm):
        """object id if x is `<watch>->field`"""
        s = strip(x)
        if isinstance(s, dict) and s.get('k') == 'member' and (s.get('record'), s['field']) == (WATCH, field) and s['arrow']:
            return self.elem_id(s['base'], vm)
        return None

    def classify(self, x, vm):
        """('key', R) / ('node', id) / None for an operand of a comparison"""
        s = strip(self.resolve(x, vm))
        if not isinstance(s, dict):
            return None
        if s.get('k') == 'var':
            val = vm.get(s['name'])
            if val and val[0] == 'key':
                return ('key', val[1])
            return None
        if s.get('k') == 'member' and s['arrow']:
            lm = (s.get('record'), s['field'])
            if lm == (REC, 'wd'):
                b = lvar(s['base'])
                return ('key', self.rec_root(b['name'], vm)) if b is not None else None
            if lm == (WATCH, 'wd'):
                oid = self.elem_id(s['base'], vm)
                return ('node', oid) if oid else None
        return None

    # ---- branch facts ----------------------------------------------------------
    def zero_fact(self, x, zero, vm, facts, depth=0):
        """x == 0 (zero) / x != 0 holds; False when that contradicts the state"""
        if depth > 8:
            return True
        s = strip(x)
        if not isinstance(s, dict):
            return True
        k = s.get('k')
        if k == 'var' and s.get('vk') in ('local', 'param'):
            val = self.var_value(s, vm)
            if not val:
                return True
            if val[0] == 'null':
                return zero
            if val[0] == 'int':
                return (val[1] == 0) == zero
            if val[0] == 'obj':
                oid = val[1]
                if zero:
                    if ('nn', oid) in facts:
                        return False
                    if ('cur', oid) in facts and self.phase(facts) != 'called':
                        self.set_phase(facts, 'exhausted')
                    for y, v in list(vm.items()):
                        if v == val:
                            vm[y] = ('null',)
                else:
                    facts.add(('nn', oid))
                return True
            if val[0] == 'expr':
                return self.zero_fact(self.exprs[val[1]], zero, vm, facts, depth + 1)
            return True
        if k == 'un' and s['op'] == '!':
            return self.zero_fact(s['e'], not zero, vm, facts, depth + 1)
        if k == 'bin':
            op = s['op']
            if op == '&':
                for a, b in ((s['l'], s['r']), (s['r'], s['l'])):
                    c = const_of(b)
                    if c is not None:
                        if zero:
                            self.mask_zero(a, c & 0xffffffff, vm, facts)
                        return True
                return True
            if op == '|' and zero:
                return self.zero_fact(s['l'], True, vm, facts, depth + 1) and self.zero_fact(s['r'], True, vm, facts, depth + 1)
            if op == '||' and zero:
                return self.zero_fact(s['l'], True, vm, facts, depth + 1) and self.zero_fact(s['r'], True, vm, facts, depth + 1)
            if op == '&&' and not zero:
                return self.zero_fact(s['l'], False, vm, facts, depth + 1) and self.zero_fact(s['r'], False, vm, facts, depth + 1)
            if op in ('!=', '==') and const_of(s['r']) == 0:
                return self.zero_fact(s['l'], zero == (op == '!='), vm, facts, depth + 1)
            if op in CMPOPS:
                # the 0/1 value of a comparison: zero means the comparison is false
                return self.apply_atoms(norm_cond(s, not zero), vm, facts, depth + 1)
        return True

    def mask_zero(self, a, bits, vm, facts):
        """(a & bits) == 0 holds"""
        s = strip(self.resolve(a, vm))
        if not (isinstance(s, dict) and s.get('k') == 'member' and s['arrow']):
            return
        lm = (s.get('record'), s['field'])
        if lm == (REC, 'mask') and bits & IN_IGNORED:
            b = lvar(s['base'])
            if b is not None:
                facts.add(('noign', self.rec_root(b['name'], vm)))
        elif lm == (WATCH, 'mask') and bits & IN_ONESHOT:
            oid = self.elem_id(s['base'], vm)
            if oid:
                facts.add(('noone', oid))

    def refine(self, st, atoms):
        vm, facts = self.thaw(st)
        if not self.apply_atoms(atoms, vm, facts):
            return None
        return self.freeze(vm, facts)

    def int_value(self, x, vm):
        """(set of possible integer values) of x if it is a variable holding a constant or a 0/1-valued
        comparison result, else None"""
        v = lvar(x)
        val = vm.get(v['name']) if v is not None else None
        if not val:
            return None
        if val[0] == 'null':
            return {0}
        if val[0] == 'int':
            return {val[1]}
        if val[0] == 'expr':
            ex = strip(self.exprs[val[1]])
            if isinstance(ex, dict) and ((ex.get('k') == 'bin' and ex['op'] in CMPOPS + ('&&', '||')) or (ex.get('k') == 'un' and ex['op'] == '!')):
                return {0, 1}
        return None

    def apply_atoms(self, atoms, vm, facts, depth=0):
        """add what the atoms (all of which hold) say to vm/facts; False when they contradict the state"""
        for (op, lc, rc, l, r) in atoms:
            if op == 'const':
                if lc == 'False':
                    return False
                continue
            if op not in CMPOPS or not isinstance(l, dict):
                continue
            cr = const_of(r) if isinstance(r, dict) else None
            if cr is not None:
                # a variable with known possible values (constant, or the 0/1 result of a comparison)
                poss = self.int_value(l, vm)
                if poss is not None:
                    ok = {n for n in poss if {'==': n == cr, '!=': n != cr, '<': n < cr, '>': n > cr, '<=': n <= cr, '>=': n >= cr}[op]}
                    if not ok:
                        return False
                    if len(poss) == 2 and len(ok) == 1:
                        if not self.zero_fact(l, 0 in ok, vm, facts, depth + 1):
                            return False
                    continue
            if cr == 0 and op in ('==', '!='):
                if not self.zero_fact(l, op == '==', vm, facts, depth + 1):
                    return False
                continue
            if cr is not None and op in ('==', '!='):
                ls = strip(self.resolve(l, vm))
                # (x & BIT) == BIT  /  != BIT for a single bit
                if isinstance(ls, dict) and ls.get('k') == 'bin' and ls['op'] == '&' and cr and cr & (cr - 1) == 0 \
                        and cr in (const_of(ls['l']), const_of(ls['r'])):
                    if not self.zero_fact(ls, op == '!=', vm, facts, depth + 1):
                        return False
                continue
            if cr is not None:
                continue
            a, b = self.classify(l, vm), (self.classify(r, vm) if isinstance(r, dict) else None)
            if a and b and {a[0], b[0]} == {'key', 'node'}:
                if a[0] == 'node':
                    a, b, op = b, a, SWAPOP[op]
                R, oid = a[1], b[1]
                for o in '<=>':
                    if not interp.cmp_holds(o, op):
                        facts.add(('no', oid, R, o))
                if len(self.excluded(oid, R, facts)) == 3:
                    return False
        return True

    # ---- transfer ---------------------------------------------------------------
    def new_obj(self, e, x, vm, facts, cur):
        oid = short(e['loc'])
        self.forget_obj(oid, vm, facts, keep=None)
        vm[x] = ('obj', oid)
        if cur:
            facts.add(('cur', oid))
            facts.add(('found', oid))
        return oid

    def assign(self, e, x, xnode, rhs, vm, facts, obs):
        """x = rhs (rhs without conditional expression)"""
        s = strip(rhs)
        val = None
        newobj = None          # (cur?) when the rhs reads a fresh element out of the tree
        if isinstance(s, dict):
            k = s.get('k')
            c = const_of(s) if k in ('int', 'null', 'un', 'bin') else None
            if c is not None:
                val = ('null',) if c == 0 else ('int', c)
            elif k == 'var' and s.get('vk') in ('local', 'param'):
                if is_ptr_to(xnode, REC) and is_ptr_to(s, REC):
                    val = ('rec', self.rec_root(s['name'], vm))
                else:
                    val = self.var_value(s, vm)
            elif k == 'member':
                lm = (s.get('record'), s['field'])
                if lm == (TREE, 'root'):
                    base = s['base'] if s['arrow'] else {'k': 'addr', 'e': s['base']}
                    if self.is_inst_tree(base, vm):
                        newobj = True
                        if obs is not None:
                            obs.append(('tree', e['loc']))
                elif lm in ((NODE, 'left'), (NODE, 'right')):
                    if s['arrow']:
                        oid0 = self.elem_id(s['base'], vm)
                    else:
                        oid0 = self.elem_id({'k': 'addr', 'e': s['base']}, vm)
                    need = {'=', '>'} if s['field'] == 'left' else {'=', '<'}
                    ok = bool(oid0) and ('cur', oid0) in facts and \
                        any(need <= self.excluded(oid0, f[2], facts) for f in facts if f[0] == 'no' and f[1] == oid0)
                    if obs is not None:
                        obs.append(('step', e['loc'], s['field'], ok, canon(rhs)))
                    newobj = bool(oid0) and ('cur', oid0) in facts
                elif lm == (REC, 'wd') and s['arrow'] and lvar(s['base']) is not None:
                    val = ('key', self.rec_root(lvar(s['base'])['name'], vm))
                elif lm in ((WATCH, 'cookie'), (WATCH, 'handler')) and s['arrow']:
                    oid0 = self.elem_id(s['base'], vm)
                    if oid0:
                        val = (s['field'], oid0)
            elif k == 'container_of' or (k == 'bin' and s['op'] == '-' and is_ptr_to(xnode, WATCH)):
                oid0 = self.elem_id(s, vm)
                if oid0:
                    val = ('obj', oid0)
            elif k == 'call' and s.get('callee') in ('iv_avl_tree_min', 'iv_avl_tree_max') and s.get('args'):
                newobj = self.is_inst_tree(s['args'][0], vm)
                if newobj and obs is not None:
                    obs.append(('tree', e['loc']))
            elif k == 'call' and s.get('callee') in ('iv_avl_tree_next', 'iv_avl_tree_prev') and s.get('args'):
                oid0 = self.elem_id(s['args'][0], vm)
                newobj = bool(oid0) and ('cur', oid0) in facts
            if val is None and newobj is None and k not in ('var', 'int', 'null') and _pure_path(rhs) \
                    and not any(y.get('k') == 'var' and y.get('name') == x for y in walk(rhs)):
                key = '%s@%s' % (canon(rhs), short(e['loc']))
                self.exprs[key] = rhs
                self.expr_keys[key] = frozenset(addr_keys(rhs) or _keys_read(rhs))
                val = ('expr', key)
        self.kill_var(x, vm, facts)
        if is_ptr_to(xnode, REC) and not (val and val[0] == 'rec'):
            # a new record: the previous one must have been delivered or its lookup exhausted
            if obs is not None:
                obs.append(('miss', e['loc'], self.phase(facts) != 'open'))
            self.set_phase(facts, 'defined')
            src = lvar(rhs)
            if src is not None and src['name'] != x:
                self.kill_var(src['name'], vm, facts)
                vm[src['name']] = ('rec', x)
            return
        if newobj is not None:
            self.new_obj(e, x, vm, facts, cur=bool(newobj))
        elif val is not None:
            vm[x] = val
        elif is_ptr_to(xnode, WATCH) or is_ptr_to(xnode, NODE):
            self.new_obj(e, x, vm, facts, cur=False)

    def after_user_code(self, vm, facts):
        ph = self.phase(facts)
        facts.clear()
        facts.add(('phase', ph))
        for y, v in list(vm.items()):
            if v[0] in ('key', 'cookie', 'handler') or (v[0] == 'expr' and any(kk[0] != 'var' for kk in self.expr_keys[v[1]])):
                del vm[y]

    def call_obs(self, e, vm, facts):
        """what is known at a watch handler call"""
        fx = fn_target(e)
        oid, wname = None, canon(e['fnexpr'])
        if isinstance(fx, dict) and fx.get('k') == 'member' and fx['arrow']:
            oid = self.elem_id(fx['base'], vm)
            wname = canon(fx['base'])
        elif lvar(fx) is not None:
            val = vm.get(lvar(fx)['name'])
            oid = val[1] if val and val[0] == 'handler' else None
        args = e.get('args', [])
        R = None
        if len(args) >= 2 and lvar(args[1]) is not None:
            a1 = lvar(args[1])
            if is_ptr_to(a1, REC) or (vm.get(a1['name']) or ('',))[0] == 'rec':
                R = self.rec_root(a1['name'], vm)
        cookie = False
        if args and oid:
            a0 = lvar(args[0])
            cookie = self.field_of_watch(args[0], 'cookie', vm) == oid or \
                (a0 is not None and vm.get(a0['name']) == ('cookie', oid))
        ex = self.excluded(oid, R, facts) if oid and R else set()
        return {
            'watch': wname, 'rec': R, 'obj': oid,
            'found': bool(oid) and ('found', oid) in facts,
            'match': {'<', '>'} <= ex,
            'nonnull': bool(oid) and ('nn', oid) in facts,
            'cookie': cookie, 'recarg': R is not None,
            'dropped': bool(oid) and (('del', oid) in facts or (('noone', oid) in facts and R is not None and ('noign', R) in facts)),
            'why': 'deleted' if oid and ('del', oid) in facts else
                   ('IN_IGNORED %s, IN_ONESHOT %s' % ('known clear' if R and ('noign', R) in facts else 'possibly set',
                                                      'known clear' if oid and ('noone', oid) in facts else 'possibly set')),
        }

    @staticmethod
    def touches_record(e):
        for key in ('e', 'rhs', 'lhs', 'args', 'value', 'init'):
            if key in e:
                for x in walk(e[key]):
                    if x.get('k') == 'member' and x.get('record') == REC and x.get('arrow'):
                        return True
        return False

    def tr_one(self, e, st, obs=None):
        ev = e['ev']
        if ev in ('enter', 'leave'):
            return [st]
        if self.phase(st[1]) in ('none', 'defined') and self.touches_record(e):
            vm, facts = self.thaw(st)
            self.set_phase(facts, 'open')
            st = self.freeze(vm, facts)
        if ev in ('load', 'ret'):
            return [st]
        vm, facts = self.thaw(st)
        if ev == 'decl':
            self.kill_var(e['name'], vm, facts)
            return [self.freeze(vm, facts)]
        if ev == 'store':
            xn = lvar(e['lhs']) if strip(e['lhs']).get('k') == 'var' else None
            if xn is not None:
                x = xn['name']
                if e.get('op') != '=' or 'rhs' not in e:
                    self.kill_var(x, vm, facts)
                    if is_ptr_to(xn, WATCH) or is_ptr_to(xn, NODE):
                        self.new_obj(e, x, vm, facts, cur=False)
                    return [self.freeze(vm, facts)]
                out = []
                for atoms, arm in cond_arms(e['rhs']):
                    st2 = self.freeze(vm, facts)
                    for at in atoms:
                        st2 = self.refine(st2, at) if st2 is not None else None
                    if st2 is None:
                        continue
                    vm2, f2 = self.thaw(st2)
                    self.assign(e, x, xn, arm, vm2, f2, obs)
                    out.append(self.freeze(vm2, f2))
                return out
            # store to memory
            steps = set(lvalue_steps(e['lhs']))
            lm = last_member(e['lhs'])
            if lm:
                steps.add(lm)
            top = strip(e['lhs'])
            if top.get('k') in ('deref', 'index'):
                steps.add(('mem', '*'))
            if steps & {(WATCH, 'wd'), (REC, 'wd')}:
                for f in [f for f in facts if f[0] == 'no']:
                    facts.discard(f)
                for y, v in list(vm.items()):
                    if v[0] == 'key':
                        del vm[y]
            if (WATCH, 'mask') in steps:
                for f in [f for f in facts if f[0] == 'noone']:
                    facts.discard(f)
            if (REC, 'mask') in steps:
                for f in [f for f in facts if f[0] == 'noign']:
                    facts.discard(f)
            if steps & {(NODE, 'left'), (NODE, 'right'), (TREE, 'root')}:
                for f in [f for f in facts if f[0] == 'cur']:
                    facts.discard(f)
            if (WATCH, 'cookie') in steps or (WATCH, 'handler') in steps:
                for y, v in list(vm.items()):
                    if v[0] in ('cookie', 'handler'):
                        del vm[y]
            for y, v in list(vm.items()):
                if v[0] == 'expr' and self.expr_keys[v[1]] & steps:
                    del vm[y]
            return [self.freeze(vm, facts)]
        if ev == 'call':
            if 'fnexpr' in e:
                if self.is_watch_handler_call(e):
                    if obs is not None:
                        obs.append(('site', e['loc'], self.call_obs(e, vm, facts)))
                    self.set_phase(facts, 'called')
                self.after_user_code(vm, facts)
                return [self.freeze(vm, facts)]
            nm = e.get('callee')
            args = e.get('args', [])
            if nm in ('iv_avl_tree_delete', 'iv_avl_tree_insert') and len(args) >= 2 and self.is_inst_tree(args[0], vm):
                oid = self.elem_id(args[1], vm)
                for f in [f for f in facts if f[0] == 'cur']:
                    facts.discard(f)
                if oid:
                    if nm == 'iv_avl_tree_delete':
                        facts.add(('del', oid))
                    else:
                        facts.discard(('del', oid))
            for a in args:
                a = strip(a)
                if isinstance(a, dict) and a.get('k') == 'addr' and lvar(a['e']) is not None:
                    self.kill_var(lvar(a['e'])['name'], vm, facts)
            return [self.freeze(vm, facts)]
        return [st]

    def gc(self, st, live):
        """forget dead variables and what is known about objects / records nothing refers to any more
        (keeps the number of distinct states small; no obligation can depend on what is dropped)"""
        vm, facts = self.thaw(st)
        if live is not None:
            keep = set(live)
            work = list(keep)
            while work:
                y = work.pop()
                v = vm.get(y)
                if not v:
                    continue
                refs = set()
                if v[0] in ('rec', 'key'):
                    refs.add(v[1])
                elif v[0] == 'expr':
                    refs |= {kk[1] for kk in self.expr_keys[v[1]] if kk[0] == 'var'}
                for z in refs - keep:
                    keep.add(z)
                    work.append(z)
            for y in [y for y in vm if y not in keep]:
                del vm[y]
        else:
            keep = None
        held = {v[1] for v in vm.values() if v[0] in ('obj', 'cookie', 'handler')}
        for f in list(facts):
            if f[0] in ('cur', 'found', 'nn', 'no', 'del', 'noone') and f[1] not in held:
                facts.discard(f)
            elif keep is not None and ((f[0] == 'no' and f[2] not in keep) or (f[0] == 'noign' and f[1] not in keep)):
                facts.discard(f)
        return self.freeze(vm, facts)

    def transfer(self, e, S):
        out = set()
        live = self.live_after.get((e.get('_b'), e.get('_i')))
        for st in S:
            for st2 in self.tr_one(e, st):
                out.add(self.gc(st2, live))
        if len(out) > MAXSTATES:
            raise AnalysisBroken('state explosion in the provenance analysis of %s' % self.g.name)
        return frozenset(out)

    def edge(self, blk, si, S):
        if not blk.term or len(blk.succ) != 2 or blk.term.get('cond') is None \
                or blk.term.get('cls') in ('SwitchStmt', 'MethodDispatch'):
            return S
        atoms = norm_cond(blk.term['cond'], si == 0)
        out = set()
        for st in S:
            r = self.refine(st, atoms)
            if r is not None:
                out.add(r)
        return frozenset(out) if out else None

    def run(self):
        from ..analyses import liveness
        g = self.g
        names = {x['name'] for e in g.events() for x in walk(e) if x.get('k') == 'var' and x.get('vk') in ('local', 'param')}
        names |= {e['name'] for e in g.events() if e['ev'] == 'decl'}
        for blk in g.blocks.values():
            if blk.term and blk.term.get('cond') is not None:
                names |= {x['name'] for x in walk(blk.term['cond']) if x.get('k') == 'var' and x.get('vk') in ('local', 'param')}
        # variables whose address is taken may be read through the pointer: never considered dead
        taken = {lvar(x['e'])['name'] for e in g.events() for x in walk(e) if x.get('k') == 'addr' and lvar(x['e']) is not None}
        la = liveness(g, names)
        self.live_after = {k: (v | taken) for k, v in la.items()}
        init = frozenset([self.freeze({}, {('phase', 'none')})])
        _, ev_in = forward(g, init, self.transfer, lambda a, b: a | b, edge=self.edge)
        self.ev_in = ev_in
        obs = []
        for b, blk in g.blocks.items():
            for i, e in enumerate(blk.events):
                for st in ev_in.get((b, i), ()):
                    self.tr_one(e, st, obs)
                if e['ev'] == 'ret' and not e.get('chain'):
                    for st in ev_in.get((b, i), ()):
                        obs.append(('miss', e['loc'], self.phase(st[1]) != 'open'))
        for st in ev_in.get((g.exit, 0), ()):
            obs.append(('miss', g.endloc or g.loc, self.phase(st[1]) != 'open'))
        for o in obs:
            if o[0] == 'site':
                self.sites.setdefault(o[1], []).append(o[2])
            elif o[0] == 'step':
                self.steps.setdefault((o[1], o[2]), []).append((o[3], o[4]))
            elif o[0] == 'miss':
                self.miss.setdefault(o[1], []).append(o[2])
            elif o[0] == 'tree' and o[1] not in self.tree_reads:
                self.tree_reads.append(o[1])
        self.handler_sites = sorted({e['loc'] for e in g.events() if self.is_watch_handler_call(e)})


def with_address_copies_resolved(g):
    """Clone of g in which a store of a local that only ever holds `&var` (`self = (void **)&this; x->term = self`)
    stores that address expression itself, so that address publication is seen whichever way it is spelled."""
    defs = _single_defs(g)
    addr = {}
    for n, d in defs.items():
        r = strip(d['rhs'])
        if isinstance(r, dict) and r.get('k') == 'addr' and lvar(r['e']) is not None:
            addr[n] = d['rhs']
    if not addr:
        return g
    g2 = clone_cfg(g)
    for blk in g2.blocks.values():
        evs = []
        for e in blk.events:
            v = lvar(e['rhs']) if e['ev'] == 'store' and e.get('op') == '=' and 'rhs' in e else None
            if v is not None and v['name'] in addr and strip(e['lhs']).get('k') != 'var':
                e = dict(e, rhs=addr[v['name']])
            evs.append(e)
        blk.events = evs
    return g2


def prov(prog):
    c = _cache(prog)
    if 'prov' not in c:
        c['prov'] = Prov(prog, inlined_local(prog, dispatcher(prog)))
    return c['prov']


# --------------------------------------------------------------------------
# Walk: the record pointer sequence
# --------------------------------------------------------------------------

_BYTE = {'void', 'char', 'unsigned char', 'signed char', 'uint8_t', 'int8_t', '__u8', 'u_int8_t'}


class Walk:
    """Values are linear forms (base, bytes, k): base + bytes + k * REC->len with base one of
    ('arr', local array A), 'REC' (the record most recently defined), None (an integer),
    ('off', A) (an integer: the offset of REC within the array A; A + that = REC)."""

    def __init__(self, prog, g, is_handler_call):
        self.prog = prog
        self.g = g
        self.is_handler_call = is_handler_call
        self.recsize = prog.records.get(REC, {}).get('size')
        if not self.recsize:
            raise AnalysisBroken('size of struct inotify_event unknown')
        self.recdefs = {}       # loc -> [(value, ok-candidate)]
        self.delivered = {}     # loc -> [ok]
        self.readbufs = set()
        self.run()

    # ---- types ---------------------------------------------------------------
    def typeof(self, x):
        if not isinstance(x, dict):
            return None
        k = x.get('k')
        if k in ('load', 'stmtexpr', 'paren'):
            return self.typeof(x.get('e'))
        if k == 'cast':
            return x.get('to') or self.typeof(x.get('e'))
        if k in ('var', 'member', 'call', 'index'):
            return x.get('type')
        if k == 'addr':
            t = self.typeof(x['e'])
            return (t + ' *') if t else None
        if k == 'bin' and x['op'] in ('+', '-'):
            for s in ('l', 'r'):
                t = self.typeof(x[s])
                if t and (t.rstrip().endswith('*') or t.rstrip().endswith(']')):
                    return t
            return self.typeof(x['l'])
        return x.get('type')

    def pointee_size(self, t):
        if not t:
            return None
        t = t.strip()
        if t.endswith(']'):
            el = t[:t.index('[')].strip()
        elif t.endswith('*'):
            el = t[:-1].strip()
        else:
            return None
        el = ' '.join(w for w in el.split() if w not in ('const', 'volatile', 'restrict'))
        if el in _BYTE:
            return 1
        if el.startswith('struct '):
            r = self.prog.records.get(el[7:].strip())
            return r.get('size') if r else None
        return {'short': 2, 'unsigned short': 2, 'uint16_t': 2, 'int': 4, 'unsigned int': 4, 'uint32_t': 4,
                'int32_t': 4, 'long': 8, 'unsigned long': 8, 'uint64_t': 8, 'int64_t': 8, 'size_t': 8, 'ssize_t': 8}.get(el)

    def is_ptr_type(self, t):
        return bool(t) and (t.rstrip().endswith('*') or t.rstrip().endswith(']'))

    # ---- values ----------------------------------------------------------------
    @staticmethod
    def is_ptr(v):
        return v[0] == 'REC' or (isinstance(v[0], tuple) and v[0][0] == 'arr')

    @classmethod
    def add(cls, a, b, scale=1, sign=1):
        """a + sign * scale * b; scale applies to the integer operand of pointer arithmetic"""
        if a is None or b is None or scale is None:
            return None
        if cls.is_ptr(b):
            if cls.is_ptr(a) or sign < 0:
                return None
            a, b = (b[0], b[1], b[2]), (a[0], a[1], a[2])
            off, k = a[1] + scale * b[1], a[2] + scale * b[2]
        else:
            off, k = a[1] + sign * scale * b[1], a[2] + sign * scale * b[2]
        if b[0] is None:
            base = a[0]
        elif a[0] is None and sign > 0:
            base = b[0]
        elif sign > 0 and a[0] == ('arr', b[0][1]):
            base = 'REC'               # A + (offset of REC in A)
        else:
            return None
        return (base, off, k)

    def lin(self, x, vm):
        if not isinstance(x, dict):
            return None
        k = x.get('k')
        if k in ('load', 'cast', 'stmtexpr', 'paren'):
            return self.lin(x.get('e'), vm)
        c = const_of(x) if k in ('int', 'null') else None
        if c is not None:
            return (None, c, 0)
        if k == 'var':
            if x.get('vk') not in ('local', 'param'):
                return None
            if x.get('type', '').rstrip().endswith(']'):
                return (('arr', x['name']), 0, 0)
            return vm.get(x['name'])
        if k == 'member':
            lm = (x.get('record'), x['field'])
            if not x['arrow']:
                return None
            b = self.lin(x['base'], vm)
            if lm == (REC, 'len'):
                return (None, 0, 1) if b == ('REC', 0, 0) else None
            if x.get('type', '').rstrip().endswith(']'):      # array member decays to its address
                off = self.offset(lm)
                return self.add(b, (None, off, 0)) if off is not None else None
            return None
        if k == 'addr':
            m = x['e']
            while isinstance(m, dict) and m.get('k') in ('paren',):
                m = m['e']
            if isinstance(m, dict) and m.get('k') == 'index':
                b = self.lin(m['base'], vm)
                i = self.lin(m['idx'], vm)
                return self.add(b, i, self.pointee_size(self.typeof(m['base']))) if b and self.is_ptr(b) else None
            if isinstance(m, dict) and m.get('k') == 'member' and m['arrow']:
                off = self.offset((m.get('record'), m['field']))
                return self.add(self.lin(m['base'], vm), (None, off, 0)) if off is not None else None
            if isinstance(m, dict) and m.get('k') == 'var' and m.get('type', '').rstrip().endswith(']'):
                return (('arr', m['name']), 0, 0)
            if isinstance(m, dict) and m.get('k') == 'deref':
                return self.lin(m['e'], vm)
            return None
        if k == 'bin' and x['op'] in ('+', '-'):
            l, r = self.lin(x['l'], vm), self.lin(x['r'], vm)
            if l is None or r is None:
                return None
            sgn = 1 if x['op'] == '+' else -1
            if self.is_ptr(l) and not self.is_ptr(r):
                return self.add(l, r, self.pointee_size(self.typeof(x['l'])), sgn)
            if self.is_ptr(r) and not self.is_ptr(l) and sgn > 0:
                return self.add(r, l, self.pointee_size(self.typeof(x['r'])))
            if not self.is_ptr(l) and not self.is_ptr(r):
                return self.add(l, r, 1, sgn)
            return None
        if k == 'bin' and x['op'] == '*':
            for a, b in ((x['l'], x['r']), (x['r'], x['l'])):
                c = const_of(b)
                v = self.lin(a, vm)
                if c is not None and v is not None and v[0] is None:
                    return (None, v[1] * c, v[2] * c)
            return None
        return None

    def offset(self, lm):
        for f in self.prog.records.get(lm[0], {}).get('fields', []):
            if f['name'] == lm[1]:
                return f.get('offset')
        return None

    # ---- transfer -----------------------------------------------------------------
    def tr_one(self, e, st, obs=None):
        ev = e['ev']
        if ev == 'decl':
            vm = dict(st)
            vm.pop(e['name'], None)
            return frozenset(vm.items())
        if ev == 'call':
            vm = dict(st)
            if obs is not None and e.get('callee') == 'read' and len(e.get('args', [])) >= 2:
                v = self.lin(e['args'][1], vm)
                if v and isinstance(v[0], tuple) and v[1:] == (0, 0):
                    self.readbufs.add(v[0][1])
            if obs is not None and self.is_handler_call(e):
                a = e.get('args', [])
                obs.append(('deliver', e['loc'], len(a) >= 2 and self.lin(a[1], vm) == ('REC', 0, 0)))
            ch = False
            for a in e.get('args', []):
                a = strip(a)
                if isinstance(a, dict) and a.get('k') == 'addr' and lvar(a['e']) is not None and lvar(a['e'])['name'] in vm:
                    del vm[lvar(a['e'])['name']]
                    ch = True
            return frozenset(vm.items()) if ch else st
        if ev != 'store':
            return st
        xn = lvar(e['lhs']) if strip(e['lhs']).get('k') == 'var' else None
        if xn is None:
            return st
        vm = dict(st)
        x = xn['name']
        op = e.get('op')
        if op == '=' and 'rhs' in e:
            v = self.lin(e['rhs'], vm)
        elif op in ('+=', '-=') and 'rhs' in e:
            cur = vm.get(x)
            scale = self.pointee_size(xn.get('type')) if self.is_ptr_type(xn.get('type')) else 1
            v = self.add(cur, self.lin(e['rhs'], vm), scale, 1 if op == '+=' else -1) if cur and self.is_ptr(cur) == self.is_ptr_type(xn.get('type')) else None
        elif op in ('++', '--'):
            cur = vm.get(x)
            scale = self.pointee_size(xn.get('type')) if self.is_ptr_type(xn.get('type')) else 1
            v = self.add(cur, (None, 1, 0), scale, 1 if op == '++' else -1)
        else:
            v = None
        src = lvar(e['rhs']) if op == '=' and 'rhs' in e else None
        if is_ptr_to(xn, REC) and not (src is not None and is_ptr_to(src, REC)):
            # definition of a record: re-base everything on it
            if obs is not None:
                obs.append(('recdef', e['loc'], v))
            new = {}
            arr = v[0][1] if v is not None and isinstance(v[0], tuple) and v[0][0] == 'arr' else None
            for y, u in vm.items():
                if v is not None and u == v:
                    new[y] = ('REC', 0, 0)
                elif arr is not None and u == (None, v[1], v[2]):
                    new[y] = (('off', arr), 0, 0)          # an integer that is the offset of the new record in its array
                elif v is not None and v[0] == 'REC' and isinstance(u[0], tuple) and u[0][0] == 'off' and u[1:] == v[1:]:
                    new[y] = (u[0], 0, 0)
                elif u[0] == 'REC' or u[2] != 0 or (isinstance(u[0], tuple) and u[0][0] == 'off'):
                    continue
                else:
                    new[y] = u
            new[x] = ('REC', 0, 0)
            return frozenset(new.items())
        if v is None:
            vm.pop(x, None)
        else:
            vm[x] = v
        return frozenset(vm.items())

    def run(self):
        g = self.g

        def transfer(e, S):
            out = frozenset(self.tr_one(e, st) for st in S)
            # widening: a variable that takes many values at one point (a counter in a loop) is not tracked there
            if len(out) > 6:
                vals = {}
                for st in out:
                    for y, u in st:
                        vals.setdefault(y, set()).add(u)
                wide = {y for y, us in vals.items() if len(us) > 6}
                if wide:
                    out = frozenset(frozenset((y, u) for y, u in st if y not in wide) for st in out)
            if len(out) > MAXSTATES:
                raise AnalysisBroken('state explosion in the record walk analysis of %s' % g.name)
            return out
        _, ev_in = forward(g, frozenset([frozenset()]), transfer, lambda a, b: a | b)
        obs = []
        for b, blk in g.blocks.items():
            for i, e in enumerate(blk.events):
                for st in ev_in.get((b, i), ()):
                    self.tr_one(e, st, obs)
        for o in obs:
            if o[0] == 'recdef':
                self.recdefs.setdefault(o[1], []).append(o[2])
            else:
                self.delivered.setdefault(o[1], []).append(o[2])

    def recdef_ok(self, v):
        if v is None:
            return False
        if v == ('REC', self.recsize, 1):
            return True
        return isinstance(v[0], tuple) and v[0][0] == 'arr' and v[0][1] in self.readbufs and v[1:] == (0, 0)

    def show(self, v):
        if v is None:
            return 'unknown'
        base = 'previous record' if v[0] == 'REC' else ('%s of %s' % ('start' if v[0][0] == 'arr' else 'record offset', v[0][1]) if isinstance(v[0], tuple) else 'integer')
        return '%s + %d + %d*len' % (base, v[1], v[2])


def the_walk(prog):
    c = _cache(prog)
    if 'walk' not in c:
        p = prov(prog)
        c['walk'] = Walk(prog, p.g, p.is_watch_handler_call)
    return c['walk']


# --------------------------------------------------------------------------
# comparator
# --------------------------------------------------------------------------

def _single_defs(g):
    """{local: its only assignment} (one source location; block duplication by flag partitioning ignored)"""
    defs = {}
    for e in g.events():
        if e['ev'] == 'store':
            v = lvar(e['lhs']) if strip(e['lhs']).get('k') == 'var' else None
            if v is not None:
                defs.setdefault(v['name'], {})[e.get('loc')] = e
    out = {}
    for n, ds in defs.items():
        d = list(ds.values())[0]
        if len(ds) == 1 and d.get('op') == '=' and 'rhs' in d:
            out[n] = d
    return out


def comparator_signs(prog, f, rec, node_member, field):
    """([(ordering of (key of 1st argument, key of 2nd argument), returned value)] for the three orderings,
    problem or None) by evaluating the comparator (helpers inlined) with the finite interpreter."""
    from ..core import subst
    g0 = inlined_local(prog, f)
    g = clone_cfg(g0)
    if len(f.params) < 2:
        raise AnalysisBroken('comparator %s does not take two nodes' % f.q)
    pidx = {f.params[0]['name']: 0, f.params[1]['name']: 1}
    defs = _single_defs(g)
    node_off = next((fl.get('offset') for fl in prog.records.get(rec, {}).get('fields', []) if fl['name'] == node_member), None)

    def side(x, depth=0):
        """0/1 if x is the key of the container of parameter 0/1"""
        s = strip(x)
        if not isinstance(s, dict) or depth > 6:
            return None
        if s.get('k') == 'var':
            d = defs.get(s['name'])
            return side(d['rhs'], depth + 1) if d is not None else None
        if s.get('k') == 'member' and (s.get('record'), s['field']) == (rec, field) and s['arrow']:
            return owner(s['base'], depth + 1)
        return None

    def owner(p, depth):
        s = strip(p)
        if not isinstance(s, dict) or depth > 6:
            return None
        if s.get('k') == 'container_of' and s.get('record') == rec and s.get('member') == node_member:
            v = lvar(s['e'])
            if v is not None and v['name'] in pidx:
                return pidx[v['name']]
            return owner_node(s['e'], depth + 1)
        if s.get('k') == 'bin' and s['op'] == '-' and node_off is not None and const_of(s['r']) == node_off:
            return owner_node(s['l'], depth + 1)        # open-coded container_of: (T *)((char *)p - offsetof(T, member))
        if s.get('k') == 'var':
            d = defs.get(s['name'])
            return owner(d['rhs'], depth + 1) if d is not None else None
        return None

    def owner_node(p, depth):
        v = lvar(p)
        if v is None or depth > 6:
            return None
        if v['name'] in pidx:
            return pidx[v['name']]
        d = defs.get(v['name'])
        return owner_node(d['rhs'], depth + 1) if d is not None else None

    def three_way(n):
        # `key(a) - key(b)` is the three-way comparison of the keys
        if n.get('k') == 'bin' and n.get('op') == '-' and None not in (side(n['l']), side(n['r'])) and side(n['l']) != side(n['r']):
            def c(op):
                return {'k': 'bin', 'op': op, 'l': n['l'], 'r': n['r'], 'type': 'int'}
            return {'k': 'cond', 'c': c('<'), 'a': {'k': 'int', 'v': -1},
                    'b': {'k': 'cond', 'c': c('>'), 'a': {'k': 'int', 'v': 1}, 'b': {'k': 'int', 'v': 0}}}
        return None
    for b, blk in g.blocks.items():
        evs = []
        for e in blk.events:
            if e['ev'] == 'ret' and e.get('chain'):
                continue
            e2 = dict(e)
            for key in ('value', 'rhs'):
                if key in e2:
                    e2[key] = subst(e2[key], three_way)
            evs.append(e2)
        blk.events = evs
    # every comparison in the comparator must be between the two keys
    cmps = []

    def visit(c):
        c = strip(c)
        if not isinstance(c, dict):
            return
        for x in walk(c):
            if x.get('k') == 'bin' and x['op'] in CMPOPS:
                if const_of(x['l']) is not None or const_of(x['r']) is not None:
                    continue
                cmps.append(x)
    for blk in g.blocks.values():
        if blk.term and blk.term.get('cond') is not None:
            visit(blk.term['cond'])
    for e in g.events():
        for key in ('value', 'rhs'):
            if key in e:
                visit(e[key])
    pairs = {}
    for x in cmps:
        a, b = side(x['l']), side(x['r'])
        if a is None or b is None or a == b:
            return [(o, None) for o in '<=>'], 'it compares `%s`, which is not the %s of its two arguments' % (canon(x), field)
        pairs[(canon(x['l']), canon(x['r']))] = (a, b)
    if not pairs:
        return [(o, None) for o in '<=>'], 'it contains no comparison of the %s of its two arguments' % field
    res = []
    for o in '<=>':
        orders = {}
        for (lc, rc), (a, b) in pairs.items():
            orders[(lc, rc)] = o if a == 0 else {'<': '>', '>': '<', '=': '='}[o]
        r = interp.run(g, interp.Assignment(orders=orders))
        res.append((o, r['ret'] if r['end'] == 'ret' else None))
    return res, None


# --------------------------------------------------------------------------
# INIT-COMPLETE for the two inotify object kinds (local, path-sensitive variant of generic.init_complete)
# --------------------------------------------------------------------------

OPAQUE_RECORDS = {'iv_avl_node', 'iv_list_head'}      # initialised as a whole by their primitives


def private_leaves(prog, rec, user, kind_records):
    """leaf field paths of the library-private part of `rec` (user fields and embedded object kinds excluded)"""
    out = []

    def expand(r, prefix, top):
        for f in prog.records.get(r, {}).get('fields', []):
            if top and (f['name'] in user or f.get('record') in kind_records):
                continue
            p = prefix + f['name']
            sub = f.get('record')
            if sub and not f.get('ptr') and sub not in OPAQUE_RECORDS and prog.records.get(sub, {}).get('fields'):
                expand(sub, p + '.', False)
            else:
                out.append(p)
    expand(rec, '', True)
    return out


def object_path(x, objvars, defs, depth=0):
    """'a.b' if the lvalue x is <obj>->a.b for the object under registration (possibly through a local that
    holds the address of a sub-object: t = &obj->a; t->b), else None"""
    x = strip(x)
    chain = []
    while isinstance(x, dict) and x.get('k') == 'member':
        chain.append(x['field'])
        if x['arrow']:
            break
        x = strip(x['base'])
    else:
        return None
    if not chain:
        return None
    b = lvar(x['base'])
    if b is None or depth > 4:
        return None
    path = '.'.join(reversed(chain))
    if b['name'] in objvars:
        return path
    d = defs.get(b['name'])
    if d is not None:
        r = strip(d['rhs'])
        if isinstance(r, dict) and r.get('k') == 'addr':
            pre = object_path(r['e'], objvars, defs, depth + 1)
            return (pre + '.' + path) if pre else None
        if lvar(r) is not None and lvar(r)['name'] in objvars:
            return path
    return None


def live_written(prog, f, goes_live, write_via_addr, initially_live=False):
    """(leaf paths written on every path on which the object goes live, number of such paths' exits, marker found)
    for the (inlined) registration function f of the object passed as its first parameter.
    goes_live(e, path_of) tells whether call event e publishes the object."""
    g = inlined_local(prog, f)
    if not f.params:
        raise AnalysisBroken('%s takes no object' % f.q)
    objvars = {f.params[0]['name']}
    defs = _single_defs(g)

    def path_of(x):
        return object_path(x, objvars, defs)

    def arg_path(a):
        a = strip(a)
        if isinstance(a, dict) and a.get('k') == 'addr':
            return path_of(a['e'])
        v = lvar(a)
        if v is not None and v['name'] in defs:
            return arg_path(defs[v['name']]['rhs'])
        return None

    def tr_one(e, st):
        live, written = st
        if e['ev'] == 'store':
            p = path_of(e['lhs'])
            if p and e.get('op') == '=':
                written = written | {p}
        elif e['ev'] == 'call':
            nm = e.get('callee')
            for i, a in enumerate(e.get('args', [])):
                p = arg_path(a)
                if p and ((nm in write_via_addr and i in write_via_addr[nm]) or
                          (nm is not None and nm.startswith('IV_') and nm.endswith('_INIT'))):
                    written = written | {p}
            if goes_live(e, arg_path):
                live = True
        return (live, written)

    def transfer(e, S):
        return frozenset(tr_one(e, st) for st in S)

    def join(a, b):
        # per liveness flag: intersection of the written sets
        out = {}
        for (lv, w) in list(a) + list(b):
            out[lv] = w if lv not in out else (out[lv] & w)
        return frozenset(out.items())
    _, ev_in = forward(g, frozenset([(bool(initially_live), frozenset())]), transfer, join)
    from ..analyses import exits_of
    pts = [(pb, pi) for (pb, pi, _) in exits_of(g)] + [(g.exit, 0)]
    res, n = None, 0
    for pt in pts:
        for (lv, w) in ev_in.get(pt, ()):
            if lv:
                n += 1
                res = w if res is None else (res & w)
    marker = any(e['ev'] == 'call' and goes_live(e, arg_path) for e in g.events())
    return (res or frozenset()), n, marker


def covered(written, path):
    parts = path.split('.')
    return any('.'.join(parts[:i]) in written for i in range(1, len(parts) + 1))
