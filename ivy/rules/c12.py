"""C12 — iv_work: items run once in a worker, complete once in the owner.

Schedule-level completeness is not decided; claimed are the structural clauses.
"""
from ..core import (names_of, same_value, AnalysisBroken, Inliner, canon, strip, last_member, must_pass, relpath, norm_cond, walk, forward)
from ..analyses import (is_call, holding, path_to, describe, exits_of, callback_kind, loops, innermost_loop,
                        locksets, held, force_edges, prune_infeasible, list_empty_test, must_pass_from_block,
                        atoms_reading)
from . import c01

POOL = 'work_pool_priv.lock'


def lm_arg(e, i):
    a = strip(e['args'][i]) if len(e.get('args', [])) > i else None
    if isinstance(a, dict) and a.get('k') == 'addr':
        return last_member(a['e'])
    return None


def per_iter_must(f, site, pred, kill=None):
    lps = loops(f)
    h = innermost_loop(f, site['_b'], lps)
    def tr(e, s):
        if kill and kill(e):
            return False
        return True if pred(e) else s
    def edge(blk, si, s):
        return False if (h is not None and blk.succ[si] == h) else s
    _, ev_in = forward(f, False, tr, lambda a, b: a and b, edge=edge)
    return bool(ev_in.get((site['_b'], site['_i'])))


def run(ctx):
    ctx.rule('R-C12a', 'LOCK-FREE-CALLBACK: work functions and completions are entered with no lock held', floor=4)
    ctx.rule('R-C12b', 'queue and sequence numbers move together under the pool lock; an item is queued as done only after its '
                       'work function returned; a completion runs only after the item left the owner\'s batch', floor=6)
    ctx.rule('R-C12c', 'KICK-ON-EMPTY for the done queue: emptiness test before the add, same lock region, empty => post of the pool event', floor=2)
    ctx.rule('R-C12d', 'submit always wakes an idle worker (marking it kicked), or starts / requests a thread when below the maximum; '
                       'a worker that leaves with work still queued re-posts its own kick', floor=5)
    ctx.rule('R-C12e', 'NULL pool: work then completion of the same item, in that order, after the unlink; the local task is '
                       'registered on the empty -> non-empty transition of the local queue', floor=3)
    ctx.rule('R-C12f', 'thread bound: a worker thread is started only under the pool lock on the edge started_threads < max_threads', floor=2)
    ctx.section(thread_bound)
    ctx.section(callbacks)
    ctx.section(queues)
    ctx.section(submit)
    ctx.section(local)


def thread_bound(ctx):
    prog = ctx.prog
    n = 0
    for f in sorted(prog.all_funcs(), key=lambda f: f.q):
        starts = [e for e in f.events() if is_call(e, 'iv_work_start_thread')]
        if not starts:
            continue
        hd = holding(f)
        ls = locksets(f)
        for e in starts:
            n += 1
            A = hd.get((e['_b'], e['_i']), frozenset())
            below = any(a[0] in ('<', '<=') and a[1].endswith('->started_threads') and a[2].endswith('max_threads') for a in A) or \
                any(a[0] in ('>', '>=') and a[2].endswith('->started_threads') and a[1].endswith('max_threads') for a in A)
            ctx.ob('R-C12f', '%s:start-below-maximum' % f.name, below and POOL in held(ls.get((e['_b'], e['_i']))), loc=e['loc'],
                   detail='iv_work_start_thread is on the edge started_threads < max_threads, with the pool lock held (count and test cannot be separated)',
                   path=None if below else path_to(f, e), fn=f.q)
    if n < 2:
        raise AnalysisBroken('thread start sites: %d found, 2 confirmed' % n)


def callbacks(ctx):
    prog = ctx.prog
    n = 0
    for f in sorted(prog.all_funcs(), key=lambda f: f.q):
        sites = [e for e in f.events() if (callback_kind(e) or ('', ''))[0] == 'callback' and callback_kind(e)[1] in ('work', 'completion')]
        if not sites:
            continue
        ls = locksets(f)
        for cs in sites:
            n += 1
            H = held(ls.get((cs['_b'], cs['_i'])))
            ctx.ob('R-C12a', '%s:%s' % (f.name, callback_kind(cs)[1]), not H, loc=cs['loc'],
                   detail='locks held at the call: %s' % (sorted(H) or 'none'), fn=f.q)
    if n < 4:
        raise AnalysisBroken('work/completion call sites: %d found, 4 confirmed' % n)


def queues(ctx):
    prog = ctx.prog
    # submit: seq_tail++ and the link, one region
    f = prog.fn('iv_work_submit_pool')
    ls = locksets(f)
    inc = [e for e in f.events() if e['ev'] == 'store' and last_member(e['lhs']) == ('work_pool_priv', 'seq_tail') and e['op'] in ('++', '+=')]
    add = [e for e in f.events() if is_call(e, ('iv_list_add_tail', 'iv_list_add')) and lm_arg(e, 0) == ('iv_work_item', 'list')
           and lm_arg(e, 1) == ('work_pool_priv', 'work_items')]
    if not inc or not add:
        raise AnalysisBroken('submit: seq_tail++ or the link into work_items not found')
    def region(e):
        return sorted(x[1] if isinstance(x[1], str) else str(x[1]) for x in ls.get((e['_b'], e['_i']), ()) if x[0] == POOL)
    r1 = {tuple(region(e)) for e in inc}
    r2 = {tuple(region(e)) for e in add}
    once = len({e['loc'] for e in inc}) == 1 and len({e['loc'] for e in add}) == 1
    ctx.ob('R-C12b', 'submit:seq_tail-with-link', () not in r1 and r1 == r2 and len(r1) == 1 and once, loc=inc[0]['loc'],
           detail='seq_tail++ and iv_list_add_tail(&work->list, &pool->work_items) once each, in one pool-lock region', fn=f.q)
    mp = must_pass(f, lambda e: e in inc)
    ok = all(mp.get((pb, pi), True) for (pb, pi, _) in exits_of(f)) and mp.get((f.exit, 0), True)
    mp2 = must_pass(f, lambda e: e in add)
    ok = ok and mp2.get((f.exit, 0), True)
    ctx.ob('R-C12b', 'submit:always-queues', ok, loc=f.loc, detail='every return of submit has counted and linked the item', fn=f.q)
    # worker: seq_head++ with unlink of first item; done-queue add after work returned
    f = prog.fn('iv_work_thread_got_event')
    ls = locksets(f)
    site = [e for e in f.events() if callback_kind(e) == ('callback', 'work')]
    if not site:
        raise AnalysisBroken('worker: work call not found')
    cs = site[0]
    obj = canon(strip(cs['fnexpr'])['base'])
    inc = [e for e in f.events() if e['ev'] == 'store' and last_member(e['lhs']) == ('work_pool_priv', 'seq_head') and e['op'] in ('++', '+=')]
    dele = [e for e in f.events() if is_call(e, ('iv_list_del', 'iv_list_del_init')) and canon(e['args'][0]) == '&%s->list' % obj]
    ok = bool(inc) and bool(dele) and per_iter_must(f, cs, lambda e: e in inc) and per_iter_must(f, cs, lambda e: e in dele)
    ok = ok and all(POOL in held(ls.get((e['_b'], e['_i']))) for e in inc + dele)
    ctx.ob('R-C12b', 'worker:seq_head-with-unlink', ok, loc=cs['loc'],
           detail='seq_head++ and the unlink of the item, under the pool lock, before the work function in every iteration', fn=f.q)
    # the item taken is the first of work_items
    defs = [e for e in f.events() if e['ev'] == 'store' and canon(e['lhs']) == obj]
    okf = bool(defs) and all(strip(e['rhs']).get('k') == 'container_of' and last_member(strip(e['rhs'])['e']) == ('iv_list_head', 'next')
                             and 'work_items' in canon(e['rhs']) for e in defs)
    ctx.ob('R-C12b', 'worker:takes-queue-head', okf, loc=defs[0]['loc'] if defs else cs['loc'],
           detail='%s = first element of pool->work_items (FIFO)' % obj, fn=f.q)
    done = [e for e in f.events() if is_call(e, ('iv_list_add_tail', 'iv_list_add')) and lm_arg(e, 1) == ('work_pool_priv', 'work_done')]
    if not done:
        raise AnalysisBroken('worker: add to work_done not found')
    for d in done:
        ok = per_iter_must(f, d, lambda e: e is cs) and canon(d['args'][0]) == '&%s->list' % obj and POOL in held(ls.get((d['_b'], d['_i'])))
        ctx.ob('R-C12b', 'worker:done-after-work', ok, loc=d['loc'],
               detail='the item is queued as done, under the lock, only after its work function returned in the same iteration', fn=f.q)
        # R-C12c
        tests = [e for e in f.events() if is_call(e, 'iv_list_empty') and lm_arg(e, 0) == ('work_pool_priv', 'work_done')]
        rt = [[x for x in ls.get((t['_b'], t['_i']), ()) if x[0] == POOL] for t in tests]
        rd = [x for x in ls.get((d['_b'], d['_i']), ()) if x[0] == POOL]
        ok = bool(tests) and all(r == rd and r for r in rt) and per_iter_must(f, d, lambda e: e in tests)
        ctx.ob('R-C12c', 'worker:test-then-add-one-region', ok, loc=d['loc'],
               detail='emptiness of work_done is tested before the add within the same lock region', fn=f.q)
        hd = holding(f)
        posts = [e for e in f.events() if is_call(e, 'iv_event_post') and lm_arg(e, 0) == ('work_pool_priv', 'ev')]
        # on the empty edge the post is reached before the add
        okp = False
        for b, blk in f.blocks.items():
            if blk.term and blk.term.get('cond') is not None and len(blk.succ) == 2:
                for si in (0, 1):
                    for at in norm_cond(blk.term['cond'], si == 0):
                        if list_empty_test(at, member_key=('work_pool_priv', 'work_done')) == 'empty':
                            mp = must_pass_from_block(f, blk.succ[si], lambda e: e in posts)
                            okp = bool(mp.get((d['_b'], d['_i'])))
        ctx.ob('R-C12c', 'worker:empty-implies-post', okp, loc=d['loc'],
               detail='when work_done was empty the pool event is posted (before the add, same region)', fn=f.q)
    # owner: completion only after unlink from the stolen batch
    f = prog.fn('iv_work_event')
    for cs in [e for e in f.events() if callback_kind(e) == ('callback', 'completion')]:
        obj = canon(strip(cs['fnexpr'])['base'])
        ok = per_iter_must(f, cs, lambda e: is_call(e, ('iv_list_del', 'iv_list_del_init')) and canon(e['args'][0]) == '&%s->list' % obj)
        ctx.ob('R-C12b', 'owner:completion-after-unlink', ok, loc=cs['loc'],
               detail='the item leaves the owner\'s batch before its completion runs (it may be resubmitted or freed there)', fn=f.q)
    steal = [e for e in f.events() if is_call(e, '__iv_list_steal_elements') and lm_arg(e, 0) == ('work_pool_priv', 'work_done')]
    ls = locksets(f)
    ctx.ob('R-C12b', 'owner:steal-under-lock', bool(steal) and all(POOL in held(ls.get((e['_b'], e['_i']))) for e in steal),
           loc=steal[0]['loc'] if steal else f.loc, detail='the done queue is detached under the pool lock', fn=f.q)


def submit(ctx):
    prog = ctx.prog
    f = prog.fn('iv_work_submit_pool')
    g = Inliner(prog, stop=lambda t: t.name in ('iv_work_start_thread', 'iv_event_post')).inline(f)
    ls = locksets(g)
    add = [e for e in g.events() if is_call(e, ('iv_list_add_tail', 'iv_list_add')) and lm_arg(e, 1) == ('work_pool_priv', 'work_items')]
    if not add:
        raise AnalysisBroken('submit: link not found')
    # arm 1: idle list non-empty => kicked = 1 and post of that thread's kick, in the region
    def arm(g2, what):
        return g2
    def force(kind):
        def keep(blk, si, atoms):
            for at in atoms:
                t = list_empty_test(at, member_key=('work_pool_priv', 'idle_threads'))
                if t is not None:
                    return (t == kind)
            return None
        return force_edges(g, keep)
    gi = force('nonempty')
    kick = lambda e: is_call(e, 'iv_event_post') and lm_arg(e, 0) == ('work_pool_thread', 'kick')
    mark = lambda e: e['ev'] == 'store' and last_member(e['lhs']) == ('work_pool_thread', 'kicked') and canon(e.get('rhs')) == '1'
    pts = [(gi.exit, 0)]
    mpk = must_pass(gi, kick)
    mpm = must_pass(gi, mark)
    ctx.ob('R-C12d', 'submit:idle-worker-kicked', bool(mpk.get((gi.exit, 0))) and bool(mpm.get((gi.exit, 0))), loc=f.loc,
           detail='idle list non-empty: that worker is marked kicked and its kick event is posted on every path', fn=f.q)
    for e in g.events():
        if kick(e) or mark(e):
            ctx.ob('R-C12d', 'submit:kick-under-lock:%s' % ('post' if kick(e) else 'mark'), POOL in held(ls.get((e['_b'], e['_i']))), loc=e['loc'],
                   detail='inside the pool-lock region that queued the item (a worker cannot go idle-timeout in between)', fn=f.q)
    ge = force('empty')
    # below maximum => start or request
    def below(blk, si, atoms):
        for (op, lc, rc, l, r) in atoms:
            if last_member(l) == ('work_pool_priv', 'started_threads') and op in ('<', '<=', '>=', '>'):
                return op in ('<', '<=')
        return None
    gb = force_edges(ge, below)
    startreq = lambda e: is_call(e, 'iv_work_start_thread') or (is_call(e, 'iv_event_post') and lm_arg(e, 0) == ('work_pool_priv', 'thread_needed'))
    mps = must_pass(gb, startreq)
    ctx.ob('R-C12d', 'submit:no-idle-below-max-starts-or-requests', bool(mps.get((gb.exit, 0))), loc=f.loc,
           detail='no idle worker and started_threads below the maximum: a thread is started (owner) or requested (thread_needed event)', fn=f.q)
    # worker leaving with work queued re-posts its own kick
    w = prog.fn('iv_work_thread_got_event')
    found = False
    for b, blk in w.blocks.items():
        if blk.term and blk.term.get('cond') is not None and len(blk.succ) == 2:
            for si in (0, 1):
                for (op, lc, rc, l, r) in norm_cond(blk.term['cond'], si == 0):
                    if op == '!=' and {last_member(l), last_member(r)} == {('work_pool_priv', 'seq_head'), ('work_pool_priv', 'seq_tail')}:
                        found = True
                        mp = must_pass_from_block(w, blk.succ[si], lambda e: is_call(e, 'iv_event_post') and lm_arg(e, 0) == ('work_pool_thread', 'kick'))
                        pts = [(pb, pi) for (pb, pi, _) in exits_of(w)] + [(w.exit, 0)]
                        ok = all(mp.get(p, True) for p in pts)
                        ctx.ob('R-C12d', 'worker:leftover-work-reposts-kick', ok, loc=blk.term.get('loc'),
                               detail='leaving with seq_head != seq_tail: the worker posts its own kick so it is called again', fn=w.q)
    if not found:
        ctx.ob('R-C12d', 'worker:leftover-work-reposts-kick', False, loc=w.loc,
               detail='the worker no longer distinguishes "work still queued" on exit (seq_head != seq_tail test not found)', fn=w.q)


def local(ctx):
    prog = ctx.prog
    f = prog.fn('iv_work_handle_local')
    ws = [e for e in f.events() if callback_kind(e) == ('callback', 'work')]
    cs = [e for e in f.events() if callback_kind(e) == ('callback', 'completion')]
    if not ws or not cs:
        raise AnalysisBroken('local handler: work/completion calls not found')
    for c in cs:
        obj = canon(strip(c['fnexpr'])['base'])
        ok = per_iter_must(f, c, lambda e: e in ws and canon(strip(e['fnexpr'])['base']) == obj)
        ok2 = per_iter_must(f, ws[0], lambda e: is_call(e, ('iv_list_del', 'iv_list_del_init')) and canon(e['args'][0]) == '&%s->list' % obj)
        ctx.ob('R-C12e', 'local:work-then-completion', ok, loc=c['loc'], detail='completion of %s follows its work function in the same iteration' % obj, fn=f.q)
        ctx.ob('R-C12e', 'local:unlinked-first', ok2, loc=ws[0]['loc'], detail='the item is unlinked before its work function runs', fn=f.q)
    f = prog.fn('iv_work_submit_local')
    add = [e for e in f.events() if is_call(e, ('iv_list_add_tail', 'iv_list_add')) and lm_arg(e, 1) == ('iv_work_thr_info', 'work_items')]
    reg = [e for e in f.events() if is_call(e, 'iv_task_register')]
    if not add or not reg:
        raise AnalysisBroken('local submit: add or task registration not found')
    hd = holding(f)
    ok = True
    for r in reg:
        A = hd.get((r['_b'], r['_i']), frozenset())
        ok = ok and any(a[0] == '!=' and a[1].startswith('iv_list_empty(') and 'work_items' in a[1] for a in A)
    # on the empty edge the registration is reached; test precedes add
    okp = False
    for b, blk in f.blocks.items():
        if blk.term and blk.term.get('cond') is not None and len(blk.succ) == 2:
            for si in (0, 1):
                for at in norm_cond(blk.term['cond'], si == 0):
                    if list_empty_test(at, member_key=('iv_work_thr_info', 'work_items')) == 'empty':
                        mp = must_pass_from_block(f, blk.succ[si], lambda e: e in reg)
                        okp = bool(mp.get((add[0]['_b'], add[0]['_i'])))
    ctx.ob('R-C12e', 'local:task-on-empty-to-nonempty', ok and okp, loc=reg[0]['loc'],
           detail='the local task is registered exactly on the empty edge of the local queue test, before the add', fn=f.q)
