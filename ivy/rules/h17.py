"""Helpers of C17: a small path-enumerating evaluator for an inlined root function.

The function (core.Inliner output: every static helper inlined, flag locals partitioned,
cached reads propagated) is walked along *every* path under an initial memory chosen by the
rule.  Values are concrete integers where the rule seeded them (pump fields, results of the
transfer system calls) and opaque symbols elsewhere; a branch on an opaque value forks the
path and records the decision (interval / disequality constraints for symbol-vs-constant,
a memo for everything else), so that a path never takes contradictory decisions about the
same value.  Memory is a map from *locations* (variable, field of an object, array element)
to values; `&x`, `*p`, `p->f`, `a[i]`, pointer arithmetic (byte offsets, scaled by the static
element type) and container_of are evaluated on that map, so that it is irrelevant whether
the source reads a field directly, through a cached local, through a helper's parameter or
through a pointer to the field.

No repository code is executed; this is abstract interpretation of the CFG facts over a
finite set of seeded inputs (the brief's option 2), with the environment (calls that are not
inlined) supplied by the rule as a call model that may fork over outcomes.
"""
from ..core import AnalysisBroken, canon

CMP = ('<', '>', '<=', '>=', '==', '!=')
NEGOP = {'==': '!=', '!=': '==', '<': '>=', '>=': '<', '>': '<=', '<=': '>'}
SWAPOP = {'==': '==', '!=': '!=', '<': '>', '>': '<', '<=': '>=', '>=': '<='}

SCALAR_SIZE = {'char': 1, 'signed char': 1, 'unsigned char': 1, '_Bool': 1, 'void': 1,
               'short': 2, 'unsigned short': 2, 'int': 4, 'unsigned int': 4, 'unsigned': 4,
               'long': 8, 'unsigned long': 8, 'long long': 8, 'unsigned long long': 8,
               'size_t': 8, 'ssize_t': 8, 'uint8_t': 1, 'int8_t': 1, 'uint16_t': 2, 'int16_t': 2,
               'uint32_t': 4, 'int32_t': 4, 'uint64_t': 8, 'int64_t': 8, 'u_char': 1, 'float': 4, 'double': 8}

INF = 1 << 62

# compiler hints whose value is their first argument
IDENTITY_CALLS = ('__builtin_expect', '__builtin_expect_with_probability', '__builtin_assume_aligned')


class Sym(object):
    """opaque value; identity is the object"""
    __slots__ = ('id', 'origin')
    _n = [0]

    def __init__(self, origin):
        Sym._n[0] += 1
        self.id = Sym._n[0]
        self.origin = origin

    def __repr__(self):
        return '<%s#%d>' % (show_loc(self.origin) if isinstance(self.origin, tuple) else self.origin, self.id)


def show_loc(L):
    if not isinstance(L, tuple) or not L:
        return str(L)
    k = L[0]
    if k == 'var':
        return L[1]
    if k == 'global':
        return L[1]
    if k == 'obj':
        return '*%s' % (show_val(L[1]),)
    if k == 'fld':
        return '%s.%s' % (show_loc(L[1]), L[3])
    if k == 'idx':
        return '%s[%s]' % (show_loc(L[1]), L[2])
    if k == 'at':
        return '%s@+%s' % (show_loc(L[1]), L[2])
    return '(%s)' % ' '.join(str(x) for x in L)


def show_val(v):
    if isinstance(v, Sym):
        o = v.origin
        if isinstance(o, tuple) and o and o[0] in ('var', 'fld', 'idx', 'global', 'obj', 'at'):
            return show_loc(o)
        return repr(v)
    if isinstance(v, tuple) and v and v[0] == 'ptr':
        return '&%s%s' % (show_loc(v[1]), ('+%s' % (v[2],)) if v[2] else '')
    return str(v)


class NeedDecision(Exception):
    def __init__(self, op, a, b):
        Exception.__init__(self, '%s %s %s' % (a, op, b))
        self.key = (op, a, b)


class St(object):
    """one path state"""
    __slots__ = ('mem', 'cons', 'memo', 'calls', 'effects', 'marks', 'steps')

    def __init__(self):
        self.mem = {}
        self.cons = {}      # Sym -> (lo, hi, frozenset(excluded))
        self.memo = {}      # (op, a, b) -> bool
        self.calls = {}     # (callee, loc) -> value of the latest execution of that call site
        self.effects = []
        self.marks = {}     # free for the rule (counters, flags)
        self.steps = 0

    def fork(self):
        s = St()
        s.mem = dict(self.mem)
        s.cons = dict(self.cons)
        s.memo = dict(self.memo)
        s.calls = dict(self.calls)
        s.effects = list(self.effects)
        s.marks = dict(self.marks)
        s.steps = self.steps
        return s

    # -- constraints -------------------------------------------------------
    def rng(self, s):
        return self.cons.get(s, (-INF, INF, frozenset()))

    def decide(self, op, a, b):
        """truth of (a op b) if the path's constraints determine it, else None"""
        if isinstance(a, bool):
            a = int(a)
        if isinstance(b, bool):
            b = int(b)
        if isinstance(a, int) and isinstance(b, int):
            return {'<': a < b, '>': a > b, '<=': a <= b, '>=': a >= b, '==': a == b, '!=': a != b}[op]
        if isinstance(a, int) and not isinstance(b, int):
            a, b, op = b, a, SWAPOP[op]
        if isinstance(a, Sym) and isinstance(b, int):
            lo, hi, ne = self.rng(a)
            if lo == hi:
                return self.decide(op, lo, b)
            if op == '==':
                return False if (b < lo or b > hi or b in ne) else None
            if op == '!=':
                return True if (b < lo or b > hi or b in ne) else None
            if op == '<':
                return True if hi < b else (False if lo >= b else None)
            if op == '<=':
                return True if hi <= b else (False if lo > b else None)
            if op == '>':
                return True if lo > b else (False if hi <= b else None)
            if op == '>=':
                return True if lo >= b else (False if hi < b else None)
        if is_ptr(a) and isinstance(b, int) and b == 0:
            # the address of something is not NULL
            return {'==': False, '!=': True, '<': False, '<=': False, '>': True, '>=': True}[op]
        if a is b or (not isinstance(a, Sym) and not isinstance(b, Sym) and a == b):
            return op in ('==', '<=', '>=')
        k = (op, a, b)
        if k in self.memo:
            return self.memo[k]
        k2 = (NEGOP[op], a, b)
        if k2 in self.memo:
            return not self.memo[k2]
        k3 = (SWAPOP[op], b, a)
        if k3 in self.memo:
            return self.memo[k3]
        k4 = (NEGOP[SWAPOP[op]], b, a)
        if k4 in self.memo:
            return not self.memo[k4]
        return None

    def assume(self, key, truth):
        op, a, b = key
        if not truth:
            op = NEGOP[op]
        if isinstance(a, int) and not isinstance(b, int):
            a, b, op = b, a, SWAPOP[op]
        if isinstance(a, Sym) and isinstance(b, int):
            lo, hi, ne = self.rng(a)
            if op == '==':
                lo = hi = b
            elif op == '!=':
                ne = ne | {b}
            elif op == '<':
                hi = min(hi, b - 1)
            elif op == '<=':
                hi = min(hi, b)
            elif op == '>':
                lo = max(lo, b + 1)
            elif op == '>=':
                lo = max(lo, b)
            while lo in ne and lo < hi:
                lo += 1
            while hi in ne and hi > lo:
                hi -= 1
            self.cons[a] = (lo, hi, ne)
            return
        self.memo[(op, a, b)] = True


def is_ptr(v):
    return isinstance(v, tuple) and len(v) == 3 and v[0] == 'ptr'


class Machine(object):
    """Evaluator of one (inlined) function.

    call_model(machine, st, event, callee, fnvalue, args) -> None (generic treatment) or a list
    of states that continue after the call (the model forked `st` itself and recorded the
    call's value with machine.set_result()).
    on_store(machine, st, event, loc, value) is told every store before it is applied."""

    def __init__(self, prog, fn, call_model=None, on_store=None, max_paths=60000, max_steps=6000):
        self.prog = prog
        self.fn = fn
        self.call_model = call_model
        self.on_store = on_store
        self.max_paths = max_paths
        self.max_steps = max_steps
        self.globals = set()
        self._keys = {}
        self._consts = {}
        from ..core import walk
        for e in fn.events():
            for x in walk(e):
                if x.get('k') == 'var' and x.get('vk') in ('global', 'staticlocal'):
                    self.globals.add(x['name'])
        for b in fn.blocks.values():
            if b.term and b.term.get('cond') is not None:
                for x in walk(b.term['cond']):
                    if x.get('k') == 'var' and x.get('vk') in ('global', 'staticlocal'):
                        self.globals.add(x['name'])

    # -- layout ------------------------------------------------------------
    def field_offset(self, rec, fld):
        r = self.prog.records.get(rec)
        if not r or 'fields' not in r:
            return None
        for f in r['fields']:
            if f['name'] == fld:
                return f.get('offset')
        return None

    def sizeof_type(self, t):
        if not t:
            return None
        t = t.replace('const ', '').replace('volatile ', '').strip()
        if t.endswith('*'):
            return 8
        if '[' in t:
            return None
        if t in SCALAR_SIZE:
            return SCALAR_SIZE[t]
        for pre in ('struct ', 'union '):
            if t.startswith(pre):
                r = self.prog.records.get(t[len(pre):].strip())
                if r and 'size' in r:
                    return r['size']
        if t.startswith('enum '):
            return 4
        return None

    def static_type(self, e):
        if not isinstance(e, dict):
            return None
        k = e.get('k')
        if k in ('load', 'stmtexpr', 'compound', 'un', 'incdec'):
            return self.static_type(e.get('e'))
        if k == 'cast':
            return e.get('to')
        if k in ('var', 'member', 'index', 'deref', 'call'):
            return e.get('type')
        if k == 'bin':
            if e['op'] in ('+', '-'):
                tl = self.static_type(e['l'])
                if self.pointee(tl) is not None:
                    return tl
                tr = self.static_type(e['r'])
                if self.pointee(tr) is not None and e['op'] == '+':
                    return tr
                return tl
            return 'int'
        if k == 'assign':
            return self.static_type(e['l'])
        if k == 'cond':
            return self.static_type(e['a'])
        if k == 'addr':
            t = self.static_type(e['e'])
            return (t + ' *') if t else None
        if k == 'int':
            return 'int'
        if k == 'null':
            return 'void *'
        if k == 'container_of':
            return 'struct %s *' % e.get('record')
        return None

    @staticmethod
    def pointee(t):
        """element type string if t is a pointer or array type"""
        if not t:
            return None
        t = t.strip()
        if '(*' in t:
            return None
        if '[' in t:
            return t[:t.index('[')].strip()
        if t.endswith('*'):
            return t[:-1].strip()
        return None

    def elem_size(self, e):
        """size of what the pointer-valued expression e points to (None: not a pointer / unknown)"""
        p = self.pointee(self.static_type(e))
        if p is None:
            return None
        return self.sizeof_type(p)

    def locaddr(self, L):
        """(root location, byte offset) of a location, or None"""
        k = L[0]
        if k in ('obj', 'var', 'errno', 'tmp'):
            return (L, 0)
        if k == 'fld':
            r = self.locaddr(L[1])
            o = self.field_offset(L[2], L[3])
            if r is None or o is None:
                return None
            return (r[0], r[1] + o)
        if k == 'idx':
            r = self.locaddr(L[1])
            if r is None or not isinstance(L[2], int) or L[3] is None:
                return None
            return (r[0], r[1] + L[2] * L[3])
        if k == 'at':
            r = self.locaddr(L[1])
            if r is None or not isinstance(L[2], int):
                return None
            return (r[0], r[1] + L[2])
        return None

    def byteaddr(self, v):
        """(root location, byte offset) a pointer value designates, or None"""
        if is_ptr(v):
            r = self.locaddr(v[1])
            if r is None or not isinstance(v[2], int):
                return None
            return (r[0], r[1] + v[2])
        if isinstance(v, Sym) or (isinstance(v, tuple) and v and v[0] == 'op'):
            return (('obj', v), 0)
        return None

    @staticmethod
    def root_of(L):
        while L[0] in ('fld', 'idx', 'at'):
            L = L[1]
        return L

    # -- memory ------------------------------------------------------------
    def key(self, L):
        """memory is keyed by byte address where the layout is known, so that p->a[1], *(p->a + 1) and q[1] with
        q == p->a are the same cell (and union members overlap); by structure otherwise"""
        k = self._keys.get(L)
        if k is None:
            a = self.locaddr(L)
            k = L if a is None else ('mem', a[0], a[1])
            if len(self._keys) > 200000:
                self._keys.clear()
            self._keys[L] = k
        return k

    def peek(self, st, L):
        return st.mem.get(self.key(L))

    def poke(self, st, L, v):
        st.mem[self.key(L)] = v

    def read(self, st, L):
        k = self.key(L)
        if k in st.mem:
            return st.mem[k]
        v = self.const_init(L)
        if v is None:
            origin = L
            if L[0] == 'var' and L[1] in self.globals:
                origin = ('global', L[1])
            v = Sym(origin)
        st.mem[k] = v
        return v

    def const_init(self, L):
        """value of a cell of a file-scope object that has an initialiser and is never written (lookup tables)"""
        steps = []
        X = L
        while X[0] in ('fld', 'idx'):
            steps.append(X)
            X = X[1]
        if X[0] != 'var' or X[1] not in self.globals:
            return None
        name = X[1]
        if name not in self._consts:
            root = getattr(self.fn, 'inlined_from', None) or self.fn
            unit = self.prog.unit_of(root)
            g = self.prog.global_for(unit, name) if unit else self.prog.globals.get(name)
            init = g.get('init') if isinstance(g, dict) else None
            if init is None or self.prog.global_writers(name):
                init = None
            self._consts[name] = init
        node = self._consts[name]
        if node is None:
            return None
        for stp in reversed(steps):
            while isinstance(node, dict) and node.get('k') in ('cast', 'compound') and isinstance(node.get('e'), dict):
                node = node['e']
            if not isinstance(node, dict) or node.get('k') != 'init':
                return None
            if stp[0] == 'idx':
                el = node.get('elems')
                if el is None or not isinstance(stp[2], int) or stp[2] < 0:
                    return None
                if stp[2] >= len(el):
                    return 0
                node = el[stp[2]]
            else:
                fl = node.get('fields')
                if fl is None:
                    return None
                if stp[3] not in fl:
                    return 0
                node = fl[stp[3]]
        if not isinstance(node, dict) or node.get('k') == 'init':
            return None
        try:
            v = self.ev(node, St())
        except NeedDecision:
            return None
        return v if isinstance(v, int) or (isinstance(v, tuple) and v and v[0] in ('func', 'str')) else None

    def write(self, st, L, v):
        st.mem[self.key(L)] = v

    def forget(self, st, root):
        """drop everything known about the object / variable `root`"""
        for k in [k for k in st.mem if (k[0] == 'mem' and k[1] == root) or (k[0] != 'mem' and self.root_of(k) == root)]:
            del st.mem[k]

    def havoc(self, st, v):
        """an unknown callee may write the object its pointer argument points into"""
        if is_ptr(v):
            self.forget(st, self.root_of(v[1]))
        elif isinstance(v, Sym) or (isinstance(v, tuple) and v and v[0] == 'op'):
            self.forget(st, ('obj', v))

    def deref(self, p):
        if is_ptr(p):
            if p[2] == 0:
                return p[1]
            return ('at', p[1], p[2])
        return ('obj', p)

    @staticmethod
    def mkptr(L):
        if L[0] == 'at':
            return ('ptr', L[1], L[2])
        return ('ptr', L, 0)

    def set_result(self, st, e, v):
        st.calls[(e.get('callee'), e.get('loc'))] = v

    # -- expressions ---------------------------------------------------------
    def lv(self, e, st):
        """location designated by an lvalue expression"""
        k = e.get('k')
        if k == 'var':
            return ('var', e['name'])
        if k == 'member':
            if e['arrow']:
                obj = self.deref(self.ev(e['base'], st))
            else:
                obj = self.lv(e['base'], st)
            return ('fld', obj, e.get('record'), e['field'])
        if k == 'index':
            b = e['base']
            i = self.ev(e['idx'], st)
            bb = b
            while isinstance(bb, dict) and bb.get('k') == 'cast':
                bb = bb['e']
            if isinstance(bb, dict) and bb.get('k') in ('var', 'member', 'index', 'deref') and self.pointee(self.static_type(bb)) is not None \
                    and '[' in (self.static_type(bb) or ''):
                esz = self.sizeof_type(e.get('type'))
                return ('idx', self.lv(bb, st), i, esz)
            p = self.ev(b, st)
            return self.deref(self.padd(p, i, self.sizeof_type(e.get('type'))))
        if k == 'deref':
            return self.deref(self.ev(e['e'], st))
        if k in ('cast', 'load', 'stmtexpr', 'compound') and isinstance(e.get('e'), dict):
            if k == 'load':
                # an lvalue reached through a loaded pointer is spelled deref/member; a bare load is a value
                return ('tmp', id(e))
            return self.lv(e['e'], st)
        if k == 'assign':
            return self.lv(e['l'], st)
        return ('tmp', id(e))

    def padd(self, p, n, esz):
        if isinstance(p, int) and isinstance(n, int):
            return p + n * (esz or 1)
        if isinstance(n, int) and n == 0:
            return p
        if not isinstance(n, int) or esz is None:
            return ('op', '+p', p, n)
        if is_ptr(p):
            if isinstance(p[2], int):
                return ('ptr', p[1], p[2] + n * esz)
            return ('op', '+p', p, n)
        if isinstance(p, Sym) or (isinstance(p, tuple) and p and p[0] == 'op'):
            return ('ptr', ('obj', p), n * esz)
        return ('op', '+p', p, n)

    def truth(self, v, st):
        if isinstance(v, bool):
            return v
        if isinstance(v, int):
            return v != 0
        d = st.decide('!=', v, 0)
        if d is None:
            raise NeedDecision('!=', v, 0)
        return d

    def compare(self, op, a, b, st):
        if is_ptr(a) and is_ptr(b):
            x, y = self.byteaddr(a), self.byteaddr(b)
            if x is not None and y is not None and x[0] == y[0]:
                return int(st.decide(op, x[1], y[1]))
        d = st.decide(op, a, b)
        if d is None:
            raise NeedDecision(op, a, b)
        return int(d)

    def arith(self, op, a, b):
        if isinstance(a, int) and isinstance(b, int):
            try:
                if op == '+':
                    return a + b
                if op == '-':
                    return a - b
                if op == '*':
                    return a * b
                if op == '/':
                    return int(a / b) if b else ('op', op, a, b)
                if op == '%':
                    return a - b * int(a / b) if b else ('op', op, a, b)
                if op == '&':
                    return a & b
                if op == '|':
                    return a | b
                if op == '^':
                    return a ^ b
                if op == '<<':
                    return a << b if 0 <= b < 64 else ('op', op, a, b)
                if op == '>>':
                    return a >> b if 0 <= b < 64 else ('op', op, a, b)
            except (ValueError, OverflowError):
                pass
            return ('op', op, a, b)
        if op == '&' and ((isinstance(a, int) and a == 0) or (isinstance(b, int) and b == 0)):
            return 0
        if op in ('+', '|', '^') and isinstance(b, int) and b == 0:
            return a
        if op in ('+', '|', '^') and isinstance(a, int) and a == 0:
            return b
        if op in ('-', '<<', '>>') and isinstance(b, int) and b == 0:
            return a
        if op == '*' and ((isinstance(a, int) and a == 0) or (isinstance(b, int) and b == 0)):
            return 0
        return ('op', op, a, b)

    def ev(self, e, st):
        """value of an rvalue expression"""
        if not isinstance(e, dict):
            return Sym(('expr', '?'))
        k = e.get('k')
        if k == 'int':
            return e['v']
        if k == 'null':
            return 0
        if k == 'load':
            inner = e['e']
            ik = inner.get('k') if isinstance(inner, dict) else None
            if ik == 'var' and inner.get('vk') == 'enum':
                return inner.get('v', 0)
            if ik == 'var' and inner.get('vk') == 'func':
                return ('func', inner['name'])
            if ik in ('var', 'member', 'index', 'deref'):
                return self.read(st, self.lv(inner, st))
            # the inliner substituted an argument value for a parameter: load(rvalue) is the rvalue
            return self.ev(inner, st)
        if k == 'cast':
            v = self.ev(e['e'], st)
            to = (e.get('to') or '').strip()
            if isinstance(v, int) and to in ('_Bool', 'bool'):
                return int(v != 0)
            if isinstance(v, int) and to in ('unsigned char', 'uint8_t'):
                return v & 0xff
            return v
        if k in ('stmtexpr', 'compound'):
            if isinstance(e.get('e'), dict):
                return self.ev(e['e'], st)
            return Sym(('expr', k))
        if k == 'var':
            vk = e.get('vk')
            if vk == 'func':
                return ('func', e['name'])
            if vk == 'enum':
                return e.get('v', 0)
            if e['name'].startswith('$ret'):
                return self.read(st, ('var', e['name']))     # the inliner's return temporary stands for the call's value
            return ('ptr', ('var', e['name']), 0)       # array decays to a pointer to itself
        if k in ('member', 'index', 'deref'):
            return self.mkptr(self.lv(e, st))             # array member decays / function designator
        if k == 'addr':
            inner = e['e']
            if isinstance(inner, dict) and inner.get('k') == 'var' and inner.get('vk') == 'func':
                return ('func', inner['name'])
            return self.mkptr(self.lv(inner, st))
        if k == 'container_of':
            v = self.ev(e['e'], st)
            mo = self.field_offset(e.get('record'), e.get('member'))
            a = self.byteaddr(v) if is_ptr(v) else None
            if a is not None and mo is not None:
                off = a[1] - mo
                if off == 0 and a[0][0] == 'obj':
                    return a[0][1]
                return ('ptr', a[0], off)
            if isinstance(v, int):
                return ('op', 'container_of', v, (e.get('record'), e.get('member')))
            return ('op', 'container_of', v, (e.get('record'), e.get('member')))
        if k == 'call':
            key = (e.get('callee'), e.get('loc'))
            if key in st.calls:
                return st.calls[key]
            # a call expression without a call event (synthesised by a normalisation, e.g. iv_list_empty
            # for an open-coded emptiness test): a pure function of its arguments
            args = tuple(self.ev(a, st) for a in e.get('args', []))
            return ('op', 'call', e.get('callee') or canon(e.get('fnexpr')), args)
        if k == 'assign':
            return self.read(st, self.lv(e['l'], st))
        if k == 'incdec':
            cur = self.read(st, self.lv(e['e'], st))
            if e.get('prefix'):
                return cur
            return self.arith('-' if e['op'] == '++' else '+', cur, 1)
        if k == 'un':
            op = e['op']
            if op == '!':
                return int(not self.truth(self.ev(e['e'], st), st))
            v = self.ev(e['e'], st)
            if op == '+':
                return v
            if isinstance(v, int):
                if op == '-':
                    return -v
                if op == '~':
                    return ~v
            return ('op', 'un' + op, v, 0)
        if k == 'bin':
            op = e['op']
            if op == '&&':
                if not self.truth(self.ev(e['l'], st), st):
                    return 0
                return int(self.truth(self.ev(e['r'], st), st))
            if op == '||':
                if self.truth(self.ev(e['l'], st), st):
                    return 1
                return int(self.truth(self.ev(e['r'], st), st))
            if op == ',':
                return self.ev(e['r'], st)
            a = self.ev(e['l'], st)
            b = self.ev(e['r'], st)
            if op in CMP:
                return self.compare(op, a, b, st)
            if op in ('+', '-'):
                el, er = self.elem_size(e['l']), self.elem_size(e['r'])
                pl = el is not None or is_ptr(a)
                pr = er is not None or is_ptr(b)
                if pl and pr and op == '-':
                    x, y = self.byteaddr(a), self.byteaddr(b)
                    if x is not None and y is not None and x[0] == y[0] and el:
                        return (x[1] - y[1]) // el
                    return ('op', '-pp', a, b)
                if pl and not pr:
                    if op == '-':
                        b = -b if isinstance(b, int) else ('op', 'un-', b, 0)
                    return self.padd(a, b, el)
                if pr and not pl and op == '+':
                    return self.padd(b, a, er)
            return self.arith(op, a, b)
        if k == 'cond':
            c = self.ev(e['c'], st)
            if e.get('gnu'):
                return c if self.truth(c, st) else self.ev(e['b'], st)
            return self.ev(e['a'], st) if self.truth(c, st) else self.ev(e['b'], st)
        if k == 'str':
            return ('str', e.get('v'))
        return Sym(('expr', k))

    # -- events ----------------------------------------------------------------
    def step(self, e, st):
        """execute one event; returns None, 'ret' or a list of successor states (fork)"""
        ev = e['ev']
        if ev in ('load', 'enter'):
            return None
        if ev == 'leave':
            # the value of an inlined call: uses in the same source block were rewritten to the $ret temporary by the
            # inliner; a use in a later block (the join of a ternary, say) still spells the call
            if e.get('retvar'):
                v = self.peek(st, ('var', e['retvar']))
                if v is not None:
                    for t in e.get('targets', []):
                        st.calls[(t.split(':')[-1], e.get('loc'))] = v
            return None
        if ev == 'decl':
            L = ('var', e['name'])
            self.forget(st, L)
            if 'init' in e and isinstance(e['init'], dict):
                self.write(st, L, Sym(('init', e['name'])))
            return None
        if ev == 'store':
            L = self.lv(e['lhs'], st)
            op = e['op']
            if op == '=':
                v = self.ev(e['rhs'], st)
            elif op in ('++', '--'):
                cur = self.read(st, L)
                esz = self.elem_size(e['lhs'])
                if esz is not None or is_ptr(cur):
                    v = self.padd(cur, 1 if op == '++' else -1, esz)
                else:
                    v = self.arith('+' if op == '++' else '-', cur, 1)
            else:
                cur = self.read(st, L)
                r = self.ev(e['rhs'], st)
                esz = self.elem_size(e['lhs'])
                if op in ('+=', '-=') and (esz is not None or is_ptr(cur)):
                    if op == '-=':
                        r = -r if isinstance(r, int) else ('op', 'un-', r, 0)
                    v = self.padd(cur, r, esz)
                else:
                    v = self.arith(op[:-1], cur, r)
            if self.on_store:
                self.on_store(self, st, e, L, v)
            self.write(st, L, v)
            return None
        if ev == 'call':
            args = [self.ev(a, st) for a in e.get('args', [])]
            fv = self.ev(e['fnexpr'], st) if 'fnexpr' in e else None
            if e.get('callee') in IDENTITY_CALLS and args:
                self.set_result(st, e, args[0])
                return None
            if self.call_model:
                r = self.call_model(self, st, e, e.get('callee'), fv, args)
                if r is not None:
                    return r
            self.generic_call(st, e, args)
            return None
        if ev == 'ret':
            if e.get('chain'):
                return None          # return of an inlined helper: its value was stored to the $ret temporary
            st.marks['ret'] = self.ev(e['value'], st) if 'value' in e else None
            st.marks['retloc'] = e.get('loc')
            return 'ret'
        return None

    def generic_call(self, st, e, args, value=None):
        for a in args:
            self.havoc(st, a)
        if value is None:
            value = Sym(('call', e.get('callee') or 'indirect', e.get('loc')))
        self.set_result(st, e, value)
        return value

    # -- paths -------------------------------------------------------------------
    def explore(self, st0):
        """all paths from the entry under the initial state; returns [(end kind, final state)] with end in
        'ret' (root return; value in st.marks['ret']), 'fatal' (noreturn call), 'exit' (fell off the end)"""
        fn = self.fn
        work = [(fn.entry, 0, st0)]
        done = []
        while work:
            b, i, st = work.pop()
            if len(done) + len(work) > self.max_paths:
                raise AnalysisBroken('%s: more than %d paths under one abstract input' % (fn.name, self.max_paths))
            while True:
                blk = fn.blocks[b]
                evs = blk.events
                forked = False
                while i < len(evs):
                    st.steps += 1
                    if st.steps > self.max_steps:
                        raise AnalysisBroken('%s: a path does not terminate under the abstract input (loop on an opaque value?)' % fn.name)
                    try:
                        r = self.step(evs[i], st)
                    except NeedDecision as nd:
                        s1 = st.fork()
                        s1.assume(nd.key, True)
                        st.assume(nd.key, False)
                        s1.marks['fresh'] = st.marks['fresh'] = True
                        work.append((b, i, s1))
                        work.append((b, i, st))
                        forked = True
                        break
                    if r == 'ret':
                        done.append(('ret', st))
                        forked = True
                        break
                    if isinstance(r, list):
                        for s2 in r:
                            work.append((b, i + 1, s2))
                        forked = True
                        break
                    i += 1
                if forked:
                    break
                if blk.noreturn:
                    done.append(('fatal', st))
                    break
                succ = blk.succ
                if not succ or all(s is None for s in succ):
                    done.append(('exit', st))
                    break
                if len(succ) == 1:
                    b, i = succ[0], 0
                    continue
                term = blk.term or {}
                try:
                    nxt = self.branch(blk, term, st)
                except NeedDecision as nd:
                    s1 = st.fork()
                    s1.assume(nd.key, True)
                    st.assume(nd.key, False)
                    s1.marks['fresh'] = st.marks['fresh'] = True
                    work.append((b, i, s1))
                    work.append((b, i, st))
                    break
                if nxt == 'all':
                    for s_ in succ[1:]:
                        if s_ is not None:
                            work.append((s_, 0, st.fork()))
                    nxt = succ[0]
                if nxt is None:
                    done.append(('exit', st))
                    break
                st.steps += 1
                if st.steps > self.max_steps:
                    raise AnalysisBroken('%s: a path does not terminate under the abstract input' % fn.name)
                b, i = nxt, 0
        return done

    def branch(self, blk, term, st):
        succ = blk.succ
        c = term.get('cond')
        if term.get('cls') == 'SwitchStmt':
            cases = term.get('cases', [])
            v = self.ev(c, st)
            dflt = None
            for s_, cv in zip(succ, cases):
                if cv == 'default':
                    dflt = s_
            pick = dflt
            for s_, cv in zip(succ, cases):
                if isinstance(cv, int):
                    if self.compare('==', v, cv, st):
                        pick = s_
                        break
            st.marks['last_branch_opaque'] = st.marks.pop('fresh', False)
            return pick
        if c is None or len(succ) != 2:
            return 'all'
        t = self.truth(self.ev(c, st), st)
        # was this branch decided by an assumption about an opaque value made since the previous branch?
        st.marks['last_branch_opaque'] = st.marks.pop('fresh', False)
        return succ[0] if t else succ[1]
