"""Generic, repository-wide rules that several properties instantiate:
NULL-CONTRADICTION, INIT-COMPLETE."""
from .core import (AnalysisBroken, Inliner, canon, strip, strip_load, walk, norm_cond, forward,
                   last_member, evloc, relpath, root_var, PRIMITIVES)
from .analyses import delta_analysis, is_fail, is_call, path_to, describe

# --------------------------------------------------------------------------
# NULL-CONTRADICTION
# --------------------------------------------------------------------------


def _top_deref(x):
    """Variable dereferenced by evaluating the access path x itself (not by
    evaluating loads nested in it, which are events of their own)."""
    x = strip(x) if isinstance(x, dict) and x.get('k') in ('cast', 'stmtexpr') else x
    while isinstance(x, dict):
        k = x.get('k')
        if k == 'member':
            if x['arrow']:
                b = strip(x['base'])
                return b if isinstance(b, dict) and b.get('k') == 'var' else None
            x = x['base']
        elif k == 'deref':
            b = strip(x['e'])
            return b if isinstance(b, dict) and b.get('k') == 'var' else None
        elif k == 'index':
            b = strip(x['base'])
            if isinstance(b, dict) and b.get('k') == 'var' and 'bound' not in x:
                return b
            x = x['base']
        elif k in ('cast', 'addr'):
            x = x['e']
        else:
            return None
    return None


def _derefs_of(e, names):
    """Dereferences of a variable in `names` performed by event e itself:
    the path of a load, the lvalue of a store, `&v->f` handed to a callee."""
    out = []
    cands = []
    if e['ev'] == 'load':
        cands.append(e['e'])
    elif e['ev'] == 'store':
        cands.append(e['lhs'])
    elif e['ev'] in ('call', 'enter'):
        for a in e.get('args', []):
            a2 = strip(a)
            if isinstance(a2, dict) and a2.get('k') == 'addr':
                cands.append(a2['e'])
    for x in cands:
        v = _top_deref(x)
        if v is not None and v['name'] in names:
            out.append((v['name'], canon(x)))
    return out


def null_contradiction(fn):
    """Reports [(event, var, access)] where a pointer variable that the function
    itself compared with NULL is dereferenced on a path on which the NULL edge
    was taken and the variable not reassigned since."""
    # candidate variables: locals/params compared against NULL somewhere
    cands = set()
    for b in fn.blocks.values():
        c = b.term.get('cond') if b.term else None
        if c is None:
            continue
        for pol in (True, False):
            for (op, lc, rc, l, r) in norm_cond(c, pol):
                lv = strip(l)
                if op in ('==', '!=') and rc == '0' and isinstance(lv, dict) and lv.get('k') == 'var' \
                        and lv.get('vk') in ('local', 'param') and '*' in lv.get('type', ''):
                    cands.add(lv['name'])
    if not cands:
        return [], 0

    def transfer(e, S):
        if not S:
            return S
        if e['ev'] == 'store':
            l = strip(e['lhs'])
            if l.get('k') == 'var' and l['name'] in S:
                return S - {l['name']}
        elif e['ev'] == 'decl' and e['name'] in S:
            return S - {e['name']}
        elif e['ev'] == 'call':
            # address of the variable escapes: it may be reassigned
            ks = set()
            for a in e.get('args', []):
                a = strip(a)
                if isinstance(a, dict) and a.get('k') == 'addr':
                    v = strip(a['e'])
                    if v.get('k') == 'var' and v['name'] in S:
                        ks.add(v['name'])
            if ks:
                return S - ks
        return S

    def edge(blk, si, S):
        if not blk.term or len(blk.succ) != 2 or blk.term.get('cond') is None:
            return S
        if blk.term.get('cls') in ('SwitchStmt', 'MethodDispatch'):
            return S
        for (op, lc, rc, l, r) in norm_cond(blk.term['cond'], si == 0):
            lv = strip(l)
            if rc == '0' and isinstance(lv, dict) and lv.get('k') == 'var' and lv['name'] in cands:
                if op == '==':
                    S = S | {lv['name']}
                elif op == '!=':
                    S = S - {lv['name']}
        return S

    _, ev_in = forward(fn, frozenset(), transfer, lambda a, b: a | b, edge=edge)
    reports = []
    for b, blk in fn.blocks.items():
        for i, e in enumerate(blk.events):
            S = ev_in.get((b, i))
            if not S:
                continue
            for (v, acc) in _derefs_of(e, S):
                reports.append((e, v, acc))
    # de-duplicate: one report per (var, access, loc)
    seen = set()
    out = []
    for (e, v, acc) in reports:
        k = (v, acc, e.get('loc'))
        if k not in seen:
            seen.add(k)
            out.append((e, v, acc))
    return out, len(cands)


# --------------------------------------------------------------------------
# INIT-COMPLETE
# --------------------------------------------------------------------------

# calls that (un)initialise the object whose address they are handed
WRITE_VIA_ADDR = {'INIT_IV_LIST_HEAD': [0], 'iv_list_add': [0], 'iv_list_add_tail': [0],
                  'iv_avl_tree_insert': [1], '___mutex_init': [0], 'spin_init': [0],
                  '__iv_list_steal_elements': [1], 'memset': [0], 'memcpy': [0],
                  'pthr_create': [0], 'sigfillset': [0], 'sigemptyset': [0]}
READ_VIA_ADDR = {'iv_list_del': [0], 'iv_list_del_init': [0], 'iv_list_empty': [0],
                 'iv_avl_tree_delete': [1], '___mutex_lock': [0], '___mutex_unlock': [0],
                 '___mutex_destroy': [0], 'iv_list_splice': [0, 1], 'iv_list_splice_tail': [0, 1],
                 '__iv_list_steal_elements': [0], 'pthr_join': [0]}


def _obj_field(x, record):
    """If x is an access path v->f... (or (*v).f) where v is a variable whose
    pointee record is `record`, returns (v name, f, canon of v->f)."""
    x = strip(x)
    chain = []
    while isinstance(x, dict) and x.get('k') in ('member', 'index'):
        if x.get('k') == 'index':
            x = strip_load(x['base'])
            continue
        chain.append(x)
        if x['arrow']:
            break
        x = strip(x['base'])
    if not chain:
        return None
    top = chain[-1]
    if not top['arrow'] or top.get('record') != record:
        return None
    b = strip(top['base'])
    if isinstance(b, dict) and b.get('k') == 'var':
        return (b['name'], top['field'], '%s->%s' % (b['name'], top['field']))
    if isinstance(b, dict) and b.get('k') == 'addr':
        return None
    return ('<expr>', top['field'], '%s->%s' % (canon(b), top['field']))


def field_accesses(e, record):
    """[(kind 'r'|'w', var, field)] accesses of fields of `record` objects made
    by one event."""
    out = []
    ev = e['ev']
    if ev == 'store':
        of = _obj_field(e['lhs'], record)
        if of:
            # whole-field or sub-field store; op= also reads
            full = last_member(e['lhs']) == (record, of[1])
            if e['op'] != '=':
                out.append(('r', of[0], of[1]))
            out.append(('w' if full else 'wpart', of[0], of[1]))
    elif ev == 'load':
        of = _obj_field(e['e'], record)
        if of:
            out.append(('r', of[0], of[1]))
    elif ev in ('call',):
        nm = e.get('callee')
        for i, a in enumerate(e.get('args', [])):
            a = strip(a)
            if isinstance(a, dict) and a.get('k') == 'addr':
                of = _obj_field(a['e'], record)
                if not of:
                    continue
                full = last_member(a['e']) == (record, of[1])
                if nm in WRITE_VIA_ADDR and i in WRITE_VIA_ADDR[nm]:
                    out.append(('w' if full else 'wpart', of[0], of[1]))
                elif nm in READ_VIA_ADDR and i in READ_VIA_ADDR[nm]:
                    out.append(('r', of[0], of[1]))
                elif nm is not None and nm.startswith('IV_') and nm.endswith('_INIT'):
                    out.append(('w', of[0], of[1]))
                else:
                    # unknown callee given the field's address: neither a proof
                    # of initialisation nor a read we can see
                    out.append(('addr', of[0], of[1]))
    return out


def must_written(fn, record, success_only=True):
    """Fields of `record` objects (keyed var->field) written on every path to
    every success return of (inlined) fn."""
    def tr(e, S):
        for (k, v, f) in field_accesses(e, record):
            if k == 'w':
                S = S | {f}
        return S
    _, ev_in = forward(fn, frozenset(), tr, lambda a, b: a & b)
    # classify returns
    res = delta_analysis(fn, [])
    fail_only = {}
    for (e, d, rc, p) in res.rets:
        if e is None:
            continue
        fail_only.setdefault(id(e), []).append(is_fail(rc))
    result = None
    nret = 0
    for b, blk in fn.blocks.items():
        for i, e in enumerate(blk.events):
            if e['ev'] == 'ret' and not e.get('chain'):
                cls = fail_only.get(id(e))
                if cls is None:
                    continue  # unreachable
                if success_only and all(cls):
                    continue
                nret += 1
                S = ev_in.get((b, i), frozenset())
                result = S if result is None else (result & S)
    if fn.ret == 'void' or result is None:
        S = ev_in.get((fn.exit, 0))
        if S is not None:
            nret += 1
            result = S if result is None else (result & S)
    return (result or frozenset()), nret


def read_before_write(fn, record):
    """{field: [event]} loads of record fields in fn not preceded, on some path
    from fn's entry, by a full write of that field of the same variable."""
    def tr(e, S):
        for (k, v, f) in field_accesses(e, record):
            if k == 'w':
                S = S | {(v, f)}
        if e['ev'] == 'store':
            l = strip(e['lhs'])
            if l.get('k') == 'var':
                S = frozenset(x for x in S if x[0] != l['name'])
        return S
    _, ev_in = forward(fn, frozenset(), tr, lambda a, b: a & b)
    out = {}
    for b, blk in fn.blocks.items():
        for i, e in enumerate(blk.events):
            S = ev_in.get((b, i))
            if S is None:
                continue
            for (k, v, f) in field_accesses(e, record):
                if k == 'r' and (v, f) not in S:
                    out.setdefault(f, []).append(e)
    return out
