"""Helpers of C16: a shape interpreter that evaluates the *public* AVL operations.

This is heap.Interp (abstract execution of the CFG facts over a named symbolic
heap; no repository code runs) extended by what whole operations need:

  * calls of any repository function, resolved like the compiler resolves them
    (unit first), evaluated at the call event and consumed where the value is used;
  * indirect calls: the function value is read from the heap; only the comparator
    token installed in the tree object may be called, its outcome is supplied by an
    oracle (the abstract assignment of comparator outcomes: a total order of the
    node names);
  * switch statements, embedded assignments, ++/--, compound literals;
  * storage outside the tree as a tree of values (scalars, structs, arrays) with pointers into it: local structs and
    arrays (also nested, passed by address, returned by value), out-parameters, pointer arithmetic and comparison within
    one array, file-scope and static local objects with their initialisers (const tables of function pointers, of
    structs, of integers); static storage that an operation writes is part of the heap (Heap.cells), so it is carried
    from one operation of a history to the next;
  * calls through a function pointer whose value is a repository function are ordinary calls (table-driven dispatch);
    only calls that leave the repository through a pointer are callbacks (`indirect`);
  * memset / memcpy of one whole tree object, __builtin_expect, abs; stores to unsigned objects wrap around;
  * uninitialised memory: a JUNK value may be copied but never inspected;
  * a log of every heap write (used for purity demands), writes to static storage included.

On top of it: the families of trees (every AVL shape up to a height; the state
graph reachable from the empty tree over K keys), the audit of a heap against the
expected in-order sequence, and the runners for insert / delete / traversal.
Nothing in here mentions a local variable or a static function of iv_avl.c.
"""
from ..core import AnalysisBroken, canon, strip, strip_load
from ..heap import Heap, Stuck, NULL

TREE = ('iv_avl_tree', 'iv_avl_node')


class _Junk:
    def __repr__(self):
        return 'JUNK'


JUNK = _Junk()          # uninitialised memory: may be copied, must not be inspected


def _say(what):
    return canon(what) if isinstance(what, dict) else str(what)


class Frame:
    """locals of one activation (identity matters for addresses of locals)"""
    __slots__ = ('vars', 'fn', 'conds')

    def __init__(self, fn):
        self.vars = {}
        self.fn = fn
        self.conds = []       # outcomes of `c ? a : b` decided by the CFG, not yet consumed by the expression that uses the value


GLOBALS = 'G'           # the storage space of file-scope and static local objects (the roots live in Heap.cells)

# Storage outside the tree (locals, globals) is a tree of values: a scalar, ('struct', {field: value}) or
# ('array', {index: value}).  Two reserved keys of such a dict: '?' = value of every member that was never written
# (absent: JUNK; 0 for statically / partially initialised objects), '#' = number of elements of an array (when known).
# A pointer into it is ('memref', space, path): space is a Frame or GLOBALS, path = (root name, step, ...).


def _agg(v):
    return v.__class__ is tuple and len(v) == 2 and (v[0] == 'struct' or v[0] == 'array')


def _copyv(v):
    if _agg(v):
        return (v[0], {k: _copyv(x) for k, x in v[1].items()})
    return v


def _freeze(v):
    if _agg(v):
        return (v[0], tuple(sorted(((repr(k), _freeze(x)) for k, x in v[1].items()))))
    return v


class Ref:
    """an lvalue: ('field', node, field) | ('obj', node) | ('mem', space, path) | ('const', value)"""
    __slots__ = ('kind', 'a', 'b')

    def __init__(self, kind, a, b=None):
        self.kind, self.a, self.b = kind, a, b


def clone(H):
    G = Heap()
    G.nodes = {k: dict(v) for k, v in H.nodes.items()}
    G.cells = {k: _copyv(v) for k, v in H.cells.items()}
    return G


def frozen_globals(H):
    """the state of the objects outside the tree that some operation has written (part of the state of a history)"""
    return tuple(sorted((k, _freeze(v)) for k, v in H.cells.items()))


_UNSIGNED = {'unsigned char': 8, 'uint8_t': 8, 'unsigned short': 16, 'uint16_t': 16, 'unsigned int': 32, 'unsigned': 32, 'uint32_t': 32,
             'unsigned long': 64, 'size_t': 64, 'uint64_t': 64, 'unsigned long long': 64, 'uintptr_t': 64}


def _mask(t):
    """2^n - 1 for an object of an unsigned integer type (stores wrap around), else None"""
    bits = _UNSIGNED.get(str(t or '').replace('const ', '').replace('volatile ', '').strip())
    return (1 << bits) - 1 if bits else None


BYTE_POINTERS = ('char *', 'unsigned char *', 'signed char *', 'uint8_t *', 'void *')


def _byte_cast(x):
    """the expression is `(char *)p` (byte address arithmetic follows)"""
    x = strip_load(x)
    return isinstance(x, dict) and x.get('k') == 'cast' and str(x.get('to', '')).replace('const ', '').strip() in BYTE_POINTERS


PURE_BUILTINS = ('memset', 'memcpy', 'memmove', '__builtin_expect', 'abs', 'labs')     # C library / compiler functions with a modelled meaning
PTR_FIELDS = ('left', 'right', 'parent', 'root', 'compare')     # guarded by c16.operations: the public records have no others


def _is_ptr_type(t):
    t = str(t or '')
    return '*' in t and not t.rstrip().endswith(']')


class Machine:
    def __init__(self, prog, heap, oracle=None, max_steps=60000):
        self.prog = prog
        self.heap = heap
        self.oracle = oracle          # oracle(machine, fnvalue, args) -> int
        self.steps = 0
        self.max_steps = max_steps
        self.writes = []              # (node, field, old, new, loc); writes to static storage: ('<static>', path, old, new, loc)
        self.indirect = []            # (fnvalue, args, loc): calls through a pointer that leave the repository (callbacks)
        self.calls = []               # names of repository functions entered
        self.pending = {}             # (callee, loc) -> value of a call evaluated at its event
        self.code = Code.of(prog)

    # -- static storage -------------------------------------------------------
    def _gkey(self, e, fr):
        if e.get('vk') == 'staticlocal':
            return '%s::%s' % (fr.fn.q, e['name'])
        u = self.prog.unit_of(fr.fn) if fr is not None and fr.fn is not None else None
        return self.prog.global_key(u, e['name']) if u else e['name']

    def _ginit(self, key):
        """initial value of a static object (C semantics: the initialiser, everything else zero); computed once per program"""
        cache = self.prog.__dict__.setdefault('_h16_ginit', {})
        if key in cache:
            return cache[key]
        if '::' in key:
            fq, name = key.rsplit('::', 1)
            f = self.prog.funcs.get(fq)
            g = None
            for e in (f.events() if f is not None else ()):
                if e['ev'] == 'decl' and e.get('static') and e['name'] == name:
                    g = e
            if g is None:
                for e in (f.pristine().events() if f is not None else ()):
                    if e['ev'] == 'decl' and e.get('static') and e['name'] == name:
                        g = e
        else:
            g = self.prog.globals.get(key)
        if g is None or g.get('extern_decl'):
            raise Stuck('static object %s has no definition in the analysed sources' % key)
        v = self.initval(g.get('init'), g, None, zero=True)
        cache[key] = v
        return v

    def zero_of(self, ty):
        """the zero value of an object described by a fact with 'type' (and 'record' / 'ptr' / 'bound')"""
        t = str(ty.get('type', ''))
        if ty.get('ptr') or _is_ptr_type(t):
            return NULL
        if 'bound' in ty or t.rstrip().endswith(']'):
            d = {'?': 0}
            if 'bound' in ty:
                d['#'] = ty['bound']
            return ('array', d)
        rec = ty.get('record')
        if rec and not ty.get('ptr'):
            d = {'?': 0}
            for fl in self.prog.records.get(rec, {}).get('fields', []):
                d[fl['name']] = self.zero_of(fl)
            return ('struct', d)
        return 0

    def initval(self, init, ty, fr, zero):
        """value of an object with initialiser `init` (None: none) of the type described by `ty`"""
        if init is None:
            if zero:
                return self.zero_of(ty)
            t = str(ty.get('type', ''))
            if 'bound' in ty:
                return ('array', {'#': ty['bound']})
            if t.rstrip().endswith(']'):
                return ('array', {})
            return JUNK
        if isinstance(init, dict) and init.get('k') == 'init':
            if 'fields' in init:
                rec = init.get('record') or ty.get('record')
                ftypes = {fl['name']: fl for fl in self.prog.records.get(rec, {}).get('fields', [])}
                d = {'?': 0}
                for fl in ftypes:
                    d[fl] = self.zero_of(ftypes[fl])
                for fl, x in init['fields'].items():
                    d[fl] = self.initval(x, ftypes.get(fl, {}), fr, True)
                return ('struct', d)
            elems = init.get('elems', [])
            d = {'?': 0, '#': ty.get('bound', len(elems))}
            t = str(ty.get('type', ''))
            ety = {'type': t[:t.rindex('[')] + t[t.index(']', t.rindex('[')) + 1:]} if '[' in t else {}
            if '[' in t and '[' not in ety['type'] and ty.get('record'):
                ety['record'] = ty['record']
            for i, x in enumerate(elems):
                d[i] = self.initval(x, ety, fr, True)
            return ('array', d)
        if isinstance(init, dict) and init.get('k') == 'str':
            raise Stuck('string initialiser')
        v = self.rval(init, fr if fr is not None else Frame(None))
        if v.__class__ is int and v == 0 and (ty.get('ptr') or _is_ptr_type(ty.get('type'))):
            v = NULL
        return _copyv(v)

    # -- lvalues ------------------------------------------------------------
    def lval(self, e, fr):
        e = strip(e)
        k = e.get('k')
        if k == 'var':
            if e.get('vk') in ('global', 'staticlocal'):
                return Ref('mem', GLOBALS, (self._gkey(e, fr),))
            if e.get('vk') == 'func':
                return Ref('const', ('func', e['name']))
            return Ref('mem', fr, (e['name'],))
        if k == 'member':
            if e['arrow']:
                return self._field(self.rval(e['base'], fr), e['field'], e)
            b = strip(e['base'])
            if isinstance(b, dict) and b.get('k') in ('var', 'member', 'deref', 'index'):
                r = self.lval(b, fr)
            else:                                                   # member of a struct value (result of a call, ?:, ...)
                tmp = Frame(None)
                tmp.vars['$value'] = self.rval(b, fr)
                r = Ref('mem', tmp, ('$value',))
            if r.kind == 'obj':                                     # (*p).f
                return self._field(r.a, e['field'], e)
            if r.kind == 'mem':
                return Ref('mem', r.a, r.b + (e['field'],))
            raise Stuck('member of a by-value object %s' % canon(e))
        if k == 'deref':
            p = self.rval(e['e'], fr)
            return self._target(p, e)
        if k == 'index':
            bv = self.rval(e['base'], fr)
            i = self.num(self.rval(e['idx'], fr), e)
            p = self.padd(bv, i, e)
            if 'bound' in e and p.__class__ is tuple and p[0] == 'memref' and not 0 <= p[2][-1] < e['bound']:
                raise Stuck('array index %d out of bounds in %s' % (p[2][-1], canon(e)))
            return self._target(p, e)
        raise Stuck('not an lvalue: %s' % canon(e))

    def padd(self, p, i, e):
        """pointer + integer"""
        if p.__class__ is tuple and p[0] == 'memref':
            if i == 0:
                return p
            last = p[2][-1]
            if last.__class__ is int and len(p[2]) > 1:
                return ('memref', p[1], p[2][:-1] + (last + i,))
            raise Stuck('pointer arithmetic on the address of a single object in %s' % _say(e))
        if i == 0 and (p.__class__ is str or (p.__class__ is tuple and p[0] == 'fieldref')):
            return p
        if p is NULL or p is JUNK:
            raise Stuck('arithmetic on a %s pointer in %s' % ('NULL' if p is NULL else 'uninitialised', _say(e)))
        raise Stuck('pointer arithmetic beyond a single object in %s' % _say(e))

    def _field(self, base, field, e):
        if base.__class__ is tuple and base[0] == 'memref':
            return Ref('mem', base[1], base[2] + (field,))
        if base is NULL or (base.__class__ is int and base == 0):
            raise Stuck('NULL dereference evaluating %s' % canon(e))
        if base is JUNK:
            raise Stuck('uninitialised pointer dereferenced in %s' % canon(e))
        if not isinstance(base, str):
            raise Stuck('member access through %r in %s' % (base, canon(e)))
        return Ref('field', base, field)

    def _target(self, p, e):
        if isinstance(p, tuple) and p[0] == 'fieldref':
            return Ref('field', p[1], p[2])
        if isinstance(p, tuple) and p[0] == 'memref':
            return Ref('mem', p[1], p[2])
        if isinstance(p, tuple) and p[0] == 'func':
            return Ref('const', p)                                 # *f of a function designator is the function
        if isinstance(p, str) and p in self.heap.nodes:
            return Ref('obj', p)                                   # the whole object: `*a = *b`
        if p is NULL or (p.__class__ is int and p == 0):
            raise Stuck('NULL dereference evaluating %s' % canon(e))
        if p is JUNK:
            raise Stuck('uninitialised pointer dereferenced in %s' % canon(e))
        raise Stuck('dereference of %r in %s' % (p, canon(e)))

    def _root(self, space, name):
        if space is GLOBALS:
            c = self.heap.cells
            return c[name] if name in c else self._ginit(name)
        return space.vars.get(name, JUNK)

    def load(self, ref):
        kind = ref.kind
        if kind == 'mem':
            path = ref.b
            v = self._root(ref.a, path[0])
            for step in path[1:]:
                if v is JUNK:
                    return JUNK
                if not _agg(v):
                    if v.__class__ is int and v == 0:
                        return 0                                   # a member of a zero-initialised object
                    raise Stuck('member %r of the scalar %r' % (step, v))
                d = v[1]
                if step.__class__ is int and not 0 <= step < d.get('#', step + 1):
                    raise Stuck('array index %d out of bounds (%d elements)' % (step, d['#']))
                v = d[step] if step in d else d.get('?', JUNK)
            return v
        if kind == 'const':
            return ref.a
        n = self.heap.nodes.get(ref.a)
        if n is None:
            raise Stuck('unknown object %s' % ref.a)
        if kind == 'obj':
            return ('struct', dict(n))
        if ref.b not in n:
            raise Stuck('field %s of %s not modelled' % (ref.b, ref.a))
        return n[ref.b]

    def store(self, ref, v, loc=None):
        kind = ref.kind
        if kind == 'mem':
            if _agg(v):
                v = _copyv(v)
            space, path = ref.a, ref.b
            if space is GLOBALS:
                cont = self.heap.cells
                if path[0] not in cont:
                    cont[path[0]] = _copyv(self._ginit(path[0]))
            else:
                cont = space.vars
            key = path[0]
            root = True
            for step in path[1:]:
                cur = cont[key] if key in cont else JUNK if root else cont.get('?', JUNK)
                root = False
                if not _agg(cur):
                    if cur is JUNK:
                        cur = ('array' if step.__class__ is int else 'struct', {})
                    elif cur.__class__ is int and cur == 0:           # a member of a zero-initialised object
                        cur = ('array' if step.__class__ is int else 'struct', {'?': 0})
                    else:
                        raise Stuck('member %r of the scalar %r' % (step, cur))
                    cont[key] = cur
                cont, key = cur[1], step
                if step.__class__ is int and not 0 <= step < cont.get('#', step + 1):
                    raise Stuck('array index %d out of bounds (%d elements)' % (step, cont['#']))
            if space is GLOBALS:
                self.writes.append(('<static>', path, cont.get(key, cont.get('?', JUNK)), v, loc))
            cont[key] = v
        elif kind == 'obj':
            if not (isinstance(v, tuple) and v[0] == 'struct'):
                raise Stuck('whole-object store of %r into %s' % (v, ref.a))
            n = self.heap.nodes[ref.a]
            src = {k_: x for k_, x in v[1].items() if k_ not in ('?', '#')}
            if not set(src) <= set(n) or (set(src) != set(n) and '?' not in v[1]):
                raise Stuck('object copy between different record types into %s' % ref.a)
            for fld in sorted(n):
                x = src[fld] if fld in src else v[1]['?']
                self._put(ref.a, n, fld, x, loc)
        elif kind == 'const':
            raise Stuck('store to a function')
        else:
            n = self.heap.nodes.get(ref.a)
            if n is None or ref.b not in n:
                raise Stuck('store to unmodelled field %s of %s' % (ref.b, ref.a))
            self._put(ref.a, n, ref.b, v, loc)

    def _put(self, name, n, fld, v, loc):
        if v.__class__ is int and v == 0 and fld in PTR_FIELDS:
            v = NULL                                               # a zero-initialised pointer is a null pointer
        self.writes.append((name, fld, n[fld], v, loc))
        n[fld] = v

    # -- rvalues ------------------------------------------------------------
    @staticmethod
    def num(v, what):
        if v is JUNK:
            raise Stuck('uninitialised value used in %s' % _say(what))
        if isinstance(v, bool) or not isinstance(v, int):
            raise Stuck('arithmetic on a pointer in %s' % _say(what))
        return v

    @staticmethod
    def truth(v, what='condition'):
        if v is JUNK:
            raise Stuck('uninitialised value tested in %s' % _say(what))
        return v is not NULL and v != 0

    def lvalue_value(self, e, fr):
        """value of an lvalue expression; an array designates its first element"""
        return self.value_of(self.lval(e, fr), e)

    def value_of(self, r, e):
        v = self.load(r)
        if r.kind == 'mem' and ((v.__class__ is tuple and len(v) == 2 and v[0] == 'array') or
                                (v is JUNK and str(e.get('type', '')).rstrip().endswith(']'))):
            return ('memref', r.a, r.b + (0,))
        return v

    @staticmethod
    def ptr_order(a, b):
        """positions of two pointers into the same array, or None"""
        if a.__class__ is tuple and b.__class__ is tuple and a[0] == 'memref' and b[0] == 'memref' and a[1] is b[1] \
                and len(a[2]) == len(b[2]) > 1 and a[2][:-1] == b[2][:-1] and a[2][-1].__class__ is int and b[2][-1].__class__ is int:
            return a[2][-1], b[2][-1]
        return None

    def rval(self, e, fr):
        e0 = e
        e = strip_load(e)
        if isinstance(e, dict) and e.get('k') == 'cast' and 'e' in e:
            v = self.rval(e['e'], fr)
            return self.cast(v, e) if v.__class__ is tuple and v[0] == 'byteptr' else v
        e = strip(e)
        if not isinstance(e, dict):
            raise Stuck('expression %r' % (e0,))
        k = e.get('k')
        if k == 'int':
            return e['v']
        if k == 'null':
            return NULL
        if k == 'var' and e.get('vk') == 'func':
            return ('func', e['name'])
        if k in ('var', 'member', 'deref', 'index'):
            return self.lvalue_value(e, fr)
        if k == 'addr':
            inner = strip(e['e'])
            if isinstance(inner, dict) and inner.get('k') == 'var' and inner.get('vk') == 'func':
                return ('func', inner['name'])
            r = self.lval(e['e'], fr)
            if r.kind == 'field':
                return ('fieldref', r.a, r.b)
            if r.kind == 'obj':
                return r.a
            if r.kind == 'const':
                return r.a
            return ('memref', r.a, r.b)
        if k == 'un':
            v = self.rval(e['e'], fr)
            if e['op'] == '!':
                return int(not self.truth(v, e))
            if e['op'] == '-':
                return -self.num(v, e)
            if e['op'] == '+':
                return self.num(v, e)
            if e['op'] == '~':
                return ~self.num(v, e)
        if k == 'bin':
            op = e['op']
            if op == '&&':
                return int(self.truth(self.rval(e['l'], fr), e) and self.truth(self.rval(e['r'], fr), e))
            if op == '||':
                return int(self.truth(self.rval(e['l'], fr), e) or self.truth(self.rval(e['r'], fr), e))
            if op == ',':
                self.rval(e['l'], fr)
                return self.rval(e['r'], fr)
            if op in ('+', '-') and (_byte_cast(e['l']) or (op == '+' and _byte_cast(e['r']))):
                a, b = self.rval(e['l'], fr), self.rval(e['r'], fr)
                if b.__class__ is not int:
                    a, b = b, a
                return self.byte_add(a, self.num(b, e) if op == '+' else -self.num(b, e), e)
            return self.binop(op, self.rval(e['l'], fr), self.rval(e['r'], fr), e)
        return self.rval_other(e, k, fr)

    # -- byte addresses inside one tree object: (char *)node + offsetof(...) --------------------------
    def _layout(self, node):
        n = self.heap.nodes.get(node) if node.__class__ is str else None
        if n is None:
            raise Stuck('byte address arithmetic on %r' % (node,))
        for rec in TREE:
            fl = self.prog.records.get(rec, {}).get('fields', [])
            if {f['name'] for f in fl} == set(n) and all('offset' in f for f in fl):
                return rec, fl
        raise Stuck('layout of %s unknown' % node)

    def byte_add(self, p, i, e):
        if p.__class__ is tuple and p[0] == 'byteptr':
            node, off = p[1], p[2]
        elif p.__class__ is tuple and p[0] == 'fieldref':
            node = p[1]
            off = [f['offset'] for f in self._layout(node)[1] if f['name'] == p[2]][0]
        else:
            node, off = p, 0
        rec, fl = self._layout(node)
        size = self.prog.records[rec].get('size')
        if not 0 <= off + i <= (size if size is not None else off + i):
            raise Stuck('byte offset %d outside %s in %s' % (off + i, node, canon(e)))
        return ('byteptr', node, off + i)

    def cast(self, v, e):
        """a byte address is converted back to a typed pointer: to the object itself or to the member at that offset"""
        to = str(e.get('to', '')).replace('const ', '').strip()
        if to in BYTE_POINTERS:
            return v
        rec, fl = self._layout(v[1])
        if v[2] == 0 and to == 'struct %s *' % rec:
            return v[1]
        for f in fl:
            if f['offset'] == v[2] and to.replace(' ', '') == (str(f.get('type', '')).replace('const ', '').strip() + ' *').replace(' ', ''):
                return ('fieldref', v[1], f['name'])
        raise Stuck('byte offset %d of %s converted to %s: no such member' % (v[2], v[1], to))

    def binop(self, op, a, b, e):
        if op in ('==', '!='):
            if a is JUNK or b is JUNK:
                raise Stuck('uninitialised value compared in %s' % canon(e))
            za = a is NULL or (isinstance(a, int) and a == 0)
            zb = b is NULL or (isinstance(b, int) and b == 0)
            same = (za and zb) or (not za and not zb and type(a) == type(b) and a == b)
            return int(same == (op == '=='))
        if a.__class__ is tuple or b.__class__ is tuple:
            if op == '+' and (a.__class__ is int or b.__class__ is int):
                return self.padd(a, b, e) if b.__class__ is int else self.padd(b, a, e)
            if op == '-' and b.__class__ is int:
                return self.padd(a, -b, e)
            po = self.ptr_order(a, b)
            if po is None:
                raise Stuck('operator %s on unrelated pointers in %s' % (op, canon(e)))
            a, b = po
        a, b = self.num(a, e), self.num(b, e)
        if op == '+':
            return a + b
        if op == '-':
            return a - b
        if op == '*':
            return a * b
        if op == '<':
            return int(a < b)
        if op == '>':
            return int(a > b)
        if op == '<=':
            return int(a <= b)
        if op == '>=':
            return int(a >= b)
        if op == '&':
            return a & b
        if op == '|':
            return a | b
        if op == '^':
            return a ^ b
        if op == '<<':
            return a << b
        if op == '>>':
            return a >> b
        if op in ('/', '%'):
            if b == 0:
                raise Stuck('division by zero in %s' % canon(e))
            q = abs(a) // abs(b) * (1 if (a < 0) == (b < 0) else -1)
            return q if op == '/' else a - q * b
        raise Stuck('operator %s' % op)

    def rval_other(self, e, k, fr):
        if k == 'cond':
            # the CFG already decided which arm ran (and ran the calls in it): re-reading the condition now could see a heap
            # that the arm has changed
            if fr.conds:
                return self.rval(e['a'] if fr.conds.pop(0) else e['b'], fr)
            return self.rval(e['a'] if self.truth(self.rval(e['c'], fr), e) else e['b'], fr)
        if k == 'assign':
            # the store itself is an event of its own that precedes every use of the expression's value
            return self.lvalue_value(e['l'], fr)
        if k == 'incdec':
            v = self.lvalue_value(e['e'], fr)
            if e.get('prefix'):
                return v
            d = 1 if e['op'] == '++' else -1
            if v.__class__ is tuple:
                return self.padd(v, -d, e)
            v = self.num(v, e) - d
            mask = _mask(strip(e['e']).get('type'))
            return v & mask if mask is not None else v
        if k == 'call':
            key = (e.get('callee'), e.get('loc'))
            if key in self.pending:
                return self.pending.pop(key)
            return self.do_call(e, fr)
        if k == 'init':
            return self.initval(e, e, fr, True)
        if k == 'compound' and isinstance(e.get('e'), dict):           # (struct s){ ... } used as a value
            return self.initval(e['e'], e['e'], fr, True)
        raise Stuck('cannot evaluate %s' % canon(e))

    # -- calls ----------------------------------------------------------------
    def do_call(self, e, fr):
        argfns, fnexpr = self.code.call(e)
        args = [a(self, fr) for a in argfns]
        if fnexpr is None:
            if e['callee'] in PURE_BUILTINS and self.resolve(e['callee'], fr.fn) is None:
                if e['callee'] in ('memset', 'memcpy', 'memmove'):
                    return self.mem_builtin(e, args)
                if e['callee'] == '__builtin_expect' and len(args) == 2:
                    return args[0]
                if len(args) == 1:
                    return abs(self.num(args[0], e['callee']))
            return self.call(e['callee'], args, caller=fr.fn)
        fv = fnexpr(self, fr)
        if isinstance(fv, tuple) and fv[0] == 'func':
            return self.call(fv[1], args, caller=fr.fn)         # a repository function reached through a pointer / a table
        self.indirect.append((fv, args, e.get('loc')))
        if self.oracle is None:
            raise Stuck('indirect call through %s' % canon(e['fnexpr']))
        return self.oracle(self, fv, args, e)

    def mem_builtin(self, e, args):
        """memset(node, 0, sizeof node) / memcpy(node, node, sizeof node) on whole objects of the tree"""
        what = canon(e) if 'k' in e else e['callee']
        if len(args) != 3:
            raise Stuck('call of %s' % what)
        dst, src, n = args
        size = e['args'][2] if isinstance(e['args'][2], dict) else {}
        size = strip(size)
        sz = size.get('sizeof') if isinstance(size, dict) else None
        tname = str((sz or {}).get('type', ''))
        node = self.heap.nodes.get(dst) if dst.__class__ is str else None
        if node is None or sz is None or tname.replace('const ', '').strip() not in ('struct %s' % r for r in TREE):
            raise Stuck('%s on something else than one whole tree object' % e['callee'])
        rec = tname.replace('const ', '').strip()[len('struct '):]
        fields = {fl['name'] for fl in self.prog.records.get(rec, {}).get('fields', [])}
        if fields != set(node):
            raise Stuck('%s: %s is not a %s' % (e['callee'], dst, tname))
        if e['callee'] == 'memset':
            if src.__class__ is not int:
                raise Stuck('memset with a non-integer fill value')
            if src != 0:
                raise Stuck('memset with a non-zero byte: the pointer fields become invalid')
            for fld in sorted(node):
                self._put(dst, node, fld, NULL if fld in PTR_FIELDS else 0, e.get('loc'))
            return dst
        other = self.heap.nodes.get(src) if src.__class__ is str else None
        if other is None or set(other) != set(node):
            raise Stuck('%s from %r' % (e['callee'], src))
        vals = dict(other)
        for fld in sorted(node):
            self._put(dst, node, fld, vals[fld], e.get('loc'))
        return dst

    def resolve(self, name, caller=None):
        cache = self.prog.__dict__.setdefault('_h16_resolve', {})
        key = (name, caller.q if caller is not None else None)
        if key in cache:
            return cache[key]
        f = None
        if caller is not None:
            u = self.prog.unit_of(caller)
            if u:
                f = self.prog.resolve(u, name)
        if f is None:
            f = self.prog.funcs.get(name)
        if f is None:
            c = [x for x in self.prog.funcs.values() if x.name == name]
            f = c[0] if len(c) == 1 else None
        cache[key] = f
        return f

    def call(self, name, args, caller=None):
        f = name if not isinstance(name, str) else self.resolve(name, caller)
        if f is None or not f.blocks:
            raise Stuck('call of %s, which is not a repository function' % name)
        self.calls.append(f.q)
        if len(args) != len(f.params):
            raise Stuck('call of %s with %d arguments' % (f.name, len(args)))
        code = self.code.fn(f)
        fr = Frame(f)
        vars_ = fr.vars
        for p, a in zip(f.params, args):
            if a.__class__ is int and a == 0 and (p.get('ptr') or _is_ptr_type(p.get('type'))):
                a = NULL
            elif a.__class__ is tuple and _agg(a):
                a = _copyv(a)
            vars_[p['name']] = a
        b = f.entry
        arms = code['arms']
        conds = fr.conds
        while True:
            steps, term = code[b]
            if b in arms:
                conds.append(arms[b])
            self.steps += len(steps) + 1
            if self.steps > self.max_steps:
                raise Stuck('%s: interpretation does not terminate (cycle in the heap or runaway loop)' % f.name)
            for st in steps:
                kind = st[0]
                if kind == 0:                     # plain store  lhs = rhs
                    st[1](self, fr, st[2](self, fr), st[3])
                    if conds:
                        del conds[:]
                elif kind == 1:                   # call event
                    v = self.do_call(st[1], fr)
                    if st[2]:
                        self.pending[st[3]] = v
                    elif conds:
                        del conds[:]
                elif kind == 2:                   # return
                    if st[1] is None:
                        return None
                    v = st[1](self, fr)
                    if v.__class__ is int and v == 0 and code['retptr']:
                        v = NULL
                    elif v.__class__ is tuple and _agg(v):
                        v = _copyv(v)
                    return v
                elif kind == 3:                   # declaration without initialiser
                    if st[2] is None:
                        vars_.pop(st[1], None)
                    else:
                        vars_[st[1]] = _copyv(st[2])
                elif kind == 4:                   # declaration with initialiser
                    vars_[st[1]] = st[2](self, fr)
                    if conds:
                        del conds[:]
                elif kind == 5:                   # ++ / -- / op=
                    e = st[1]
                    ref = self.lval(e['lhs'], fr)
                    cur = self.load(ref)
                    if cur.__class__ is tuple and e['op'] in ('++', '--', '+=', '-='):
                        d = 1 if e['op'] in ('++', '--') else self.num(self.rval(e['rhs'], fr), e['lhs'])
                        v = self.padd(cur, d if e['op'] in ('++', '+=') else -d, e['lhs'])
                    elif e['op'] in ('++', '--'):
                        v = self.num(cur, e['lhs']) + (1 if e['op'] == '++' else -1)
                    else:
                        bop = {'k': 'bin', 'op': e['op'][:-1], 'l': {'k': 'int', 'v': self.num(self.load(ref), e['lhs'])},
                               'r': {'k': 'int', 'v': self.num(self.rval(e['rhs'], fr), e['lhs'])}}
                        v = self.rval(bop, fr)
                    mask = _mask(strip(e['lhs']).get('type'))
                    if mask is not None and v.__class__ is int:
                        v &= mask
                    self.store(ref, v, e.get('loc'))
                else:
                    raise Stuck(st[1])
            mode = term[0]
            if mode == 1:
                b = term[1]
            elif mode == 2:
                b = term[2] if self.truth(term[1](self, fr), term[4]) else term[3]
                if conds and term[5]:
                    del conds[:]
            elif mode == 0:
                return None
            elif mode == 3:
                v = term[1](self, fr)
                if v is NULL:
                    v = 0
                v = self.num(v, 'switch')
                nxt = [s_ for s_, cv in term[2] if cv == v] or [s_ for s_, cv in term[2] if cv == 'default']
                if not nxt:
                    raise Stuck('switch without arm for %s in %s' % (v, f.name))
                b = nxt[0]
            else:
                raise Stuck(term[1])
            if b is None:
                return None


def _walk_exprs(e):
    from ..core import walk
    return walk(e)


class Code:
    """the facts of a program compiled to closures (one per expression / event), cached on the program.
    Constructs without a specialised closure fall back to the tree-walking Machine.rval / lval, so the
    semantics are those of the interpreter above."""

    def __init__(self, prog):
        self.prog = prog
        self._rv = {}
        self._st = {}
        self._fn = {}
        self._call = {}
        self._keep = []          # compiled expression objects stay alive (ids are cache keys)

    @staticmethod
    def of(prog):
        c = prog.__dict__.get('_h16_code')
        if c is None:
            c = prog.__dict__['_h16_code'] = Code(prog)
        return c

    # -- functions -------------------------------------------------------------
    def fn(self, f):
        code = self._fn.get(id(f))
        if code is not None:
            return code
        self._keep.append(f)
        code = {}
        arms = code['arms'] = {}
        code['retptr'] = _is_ptr_type(f.ret)
        for bid, blk in f.blocks.items():
            steps = []
            for e in blk.events:
                ev = e['ev']
                if ev == 'load':
                    continue
                if ev == 'decl':
                    if e.get('static'):
                        continue                                    # static storage: initialised once, see Machine._ginit
                    if 'init' in e:
                        if isinstance(e['init'], dict) and e['init'].get('k') == 'str':
                            steps.append((9, 'character array %s' % e['name']))
                        elif isinstance(e['init'], dict) and e['init'].get('k') == 'init':
                            steps.append((4, e['name'], (lambda init, ty: lambda m, fr: m.initval(init, ty, fr, True))(e['init'], e)))
                        else:
                            steps.append((4, e['name'], self.rv(e['init'])))
                    elif 'bound' in e or str(e.get('type', '')).rstrip().endswith(']'):
                        steps.append((3, e['name'], ('array', {'#': e['bound']} if 'bound' in e else {})))
                    else:
                        steps.append((3, e['name'], None))
                elif ev == 'store':
                    if e['op'] == '=':
                        steps.append((0, self.st(e['lhs']), self.rv(e['rhs']), e.get('loc')))
                    else:
                        steps.append((5, e))
                elif ev == 'call':
                    steps.append((1, e, bool(e.get('used')), (e.get('callee'), e.get('loc'))))
                elif ev == 'ret':
                    steps.append((2, self.rv(e['value']) if 'value' in e else None))
            if blk.noreturn:
                term = (9, 'fatal path reached in %s' % f.name)
            elif not blk.succ:
                term = (0,)
            else:
                live = [x for x in blk.succ if x is not None]
                c = blk.term.get('cond') if blk.term else None
                if len(blk.succ) == 1:
                    term = (1, blk.succ[0])
                elif c is None and len(live) == 1:
                    term = (1, live[0])             # `for (;;)`: the exit edge does not exist
                elif c is None:
                    term = (9, 'branch without condition in %s' % f.name)
                elif blk.term.get('cls') == 'SwitchStmt':
                    term = (3, self.rv(c), list(zip(blk.succ, blk.term.get('cases', []))))
                elif len(blk.succ) == 2:
                    # a statement-level test consumes every pending ?: outcome; the tests inside an expression do not
                    term = (2, self.rv(c), blk.succ[0], blk.succ[1], c,
                            blk.term.get('cls') not in ('ConditionalOperator', 'BinaryOperator', 'BinaryConditionalOperator'))
                    if blk.term.get('cls') == 'ConditionalOperator' and blk.succ[0] != blk.succ[1]:
                        arms[blk.succ[0]] = True
                        arms[blk.succ[1]] = False
                else:
                    term = (9, '%d-way branch in %s' % (len(blk.succ), f.name))
            code[bid] = (steps, term)
        self._fn[id(f)] = code
        return code

    # -- rvalues -----------------------------------------------------------------
    def rv(self, e):
        c = self._rv.get(id(e))
        if c is None:
            self._keep.append(e)
            c = self._rv[id(e)] = self._crv(e)
        return c

    def _crv(self, e0):
        x = strip_load(e0)
        if isinstance(x, dict) and x.get('k') == 'cast' and any(isinstance(y, dict) and _byte_cast(y) for y in _walk_exprs(x)):
            return lambda m, fr: m.rval(e0, fr)                   # byte address arithmetic: the tree walker keeps the casts
        e = strip(e0)
        if not isinstance(e, dict):
            return lambda m, fr: m.rval(e0, fr)
        k = e.get('k')
        if k == 'int':
            v = e['v']
            return lambda m, fr: v
        if k == 'null':
            return lambda m, fr: NULL
        if k == 'var' and e.get('vk') in ('local', 'param') and '[' not in str(e.get('type', '')):
            name = e['name']
            return lambda m, fr: fr.vars.get(name, JUNK)
        if k == 'member' and e['arrow']:
            base, fld = self.rv(e['base']), e['field']

            def ld(m, fr):
                b = base(m, fr)
                n = m.heap.nodes.get(b) if b.__class__ is str else None
                if n is None or fld not in n:
                    return m.value_of(m._field(b, fld, e), e)
                return n[fld]
            return ld
        if k == 'deref':
            ptr = self.rv(e['e'])
            return lambda m, fr: m.value_of(m._target(ptr(m, fr), e), e)
        if k == 'addr':
            inner = strip(e['e'])
            if isinstance(inner, dict) and inner.get('k') == 'member' and inner['arrow']:
                base, fld = self.rv(inner['base']), inner['field']

                def ad(m, fr):
                    b = base(m, fr)
                    if b.__class__ is not str:
                        r = m._field(b, fld, inner)
                        return ('memref', r.a, r.b)
                    return ('fieldref', b, fld)
                return ad
            return lambda m, fr: m.rval(e, fr)
        if k == 'un' and e['op'] in ('!', '-'):
            a = self.rv(e['e'])
            if e['op'] == '!':
                return lambda m, fr: int(not m.truth(a(m, fr), e))
            return lambda m, fr: -m.num(a(m, fr), e)
        if k == 'bin' and e['op'] in ('+', '-') and (_byte_cast(e['l']) or _byte_cast(e['r'])):
            return lambda m, fr: m.rval(e, fr)
        if k == 'bin':
            op = e['op']
            l, r = self.rv(e['l']), self.rv(e['r'])
            if op == '&&':
                return lambda m, fr: int(m.truth(l(m, fr), e) and m.truth(r(m, fr), e))
            if op == '||':
                return lambda m, fr: int(m.truth(l(m, fr), e) or m.truth(r(m, fr), e))
            if op in ('==', '!='):
                want = op == '=='

                def eq(m, fr):
                    a, b = l(m, fr), r(m, fr)
                    if a is JUNK or b is JUNK:
                        raise Stuck('uninitialised value compared in %s' % canon(e))
                    za = a is NULL or (a.__class__ is int and a == 0)
                    zb = b is NULL or (b.__class__ is int and b == 0)
                    same = (za and zb) or (not za and not zb and type(a) == type(b) and a == b)
                    return int(same == want)
                return eq
            import operator
            fns = {'+': operator.add, '-': operator.sub, '<': operator.lt, '>': operator.gt, '<=': operator.le, '>=': operator.ge}
            if op in fns:
                g = fns[op]

                def ar(m, fr):
                    a, b = l(m, fr), r(m, fr)
                    if a.__class__ is int and b.__class__ is int:
                        return int(g(a, b))
                    return m.binop(op, a, b, e)
                return ar
            return lambda m, fr: m.rval(e, fr)
        if k == 'cond':
            c, a, b = self.rv(e['c']), self.rv(e['a']), self.rv(e['b'])

            def cnd(m, fr):
                if fr.conds:
                    return a(m, fr) if fr.conds.pop(0) else b(m, fr)
                return a(m, fr) if m.truth(c(m, fr), e) else b(m, fr)
            return cnd
        if k == 'call':
            key = (e.get('callee'), e.get('loc'))

            def cl(m, fr):
                if key in m.pending:
                    return m.pending.pop(key)
                return m.do_call(e, fr)
            return cl
        return lambda m, fr: m.rval(e, fr)

    # -- stores ------------------------------------------------------------------
    def st(self, lhs):
        c = self._st.get(id(lhs))
        if c is None:
            self._keep.append(lhs)
            c = self._st[id(lhs)] = self._cst(lhs)
        return c

    def _cst(self, lhs):
        e = strip(lhs)
        k = e.get('k') if isinstance(e, dict) else None
        if k == 'var' and e.get('vk') in ('local', 'param') and '[' not in str(e.get('type', '')):
            name = e['name']
            mask = _mask(e.get('type'))

            def stv(m, fr, v, loc):
                if v.__class__ is tuple and _agg(v):
                    v = _copyv(v)
                elif mask is not None and v.__class__ is int:
                    v &= mask
                fr.vars[name] = v
            return stv
        if k == 'member' and e['arrow']:
            base, fld = self.rv(e['base']), e['field']
            mask = _mask(e.get('type'))

            def stf(m, fr, v, loc):
                if mask is not None and v.__class__ is int:
                    v &= mask
                b = base(m, fr)
                n = m.heap.nodes.get(b) if b.__class__ is str else None
                if n is None or fld not in n:
                    return m.store(m._field(b, fld, e), v, loc)
                if v.__class__ is int and v == 0 and fld in PTR_FIELDS:
                    v = NULL
                m.writes.append((b, fld, n[fld], v, loc))
                n[fld] = v
            return stf
        mask = _mask(e.get('type')) if isinstance(e, dict) else None

        def stg(m, fr, v, loc):
            if mask is not None and v.__class__ is int:
                v &= mask
            m.store(m.lval(lhs, fr), v, loc)
        return stg

    # -- calls ---------------------------------------------------------------------
    def call(self, e):
        c = self._call.get(id(e))
        if c is None:
            self._keep.append(e)
            c = self._call[id(e)] = ([self.rv(a) for a in e.get('args', [])], self.rv(e['fnexpr']) if not e.get('callee') else None)
        return c


# --------------------------------------------------------------------------
# trees
# --------------------------------------------------------------------------

def avl_shapes(h, _memo={}):
    """every AVL shape of height exactly h as nested tuples (left, right); None is the empty tree"""
    if h in _memo:
        return _memo[h]
    if h <= 0:
        out = [None]
    elif h == 1:
        out = [(None, None)]
    else:
        a, b = avl_shapes(h - 1), avl_shapes(h - 2)
        out = [(l, r) for l in a for r in a] + [(l, r) for l in a for r in b] + [(l, r) for l in b for r in a]
    _memo[h] = out
    return out


def fib_shapes(h, _memo={}):
    """the sparsest AVL shapes of height h (every inner node has balance +-1)"""
    if h in _memo:
        return _memo[h]
    if h <= 0:
        out = [None]
    elif h == 1:
        out = [(None, None)]
    else:
        a, b = fib_shapes(h - 1), fib_shapes(h - 2)
        out = [(l, r) for l in a for r in b] + [(l, r) for l in b for r in a]
    _memo[h] = out
    return out


def size(t):
    return 0 if t is None else 1 + size(t[0]) + size(t[1])


def build_tree(shape, names=None):
    """Heap holding the tree object 'T' and the nodes of `shape`, named in in-order
    (n0 < n1 < ...): exact heights, consistent parents.  Returns (heap, in-order names)."""
    H = Heap()
    order = []
    cnt = [0]

    def mk(t, parent_slot):
        if t is None:
            return NULL, 0
        me = {}
        l, hl = mk(t[0], me)
        name = names[cnt[0]] if names else 'n%d' % cnt[0]
        cnt[0] += 1
        order.append(name)
        me['name'] = name
        r, hr = mk(t[1], me)
        H.node(name, left=l, right=r, parent=NULL, height=1 + max(hl, hr))
        for c in (l, r):
            if c is not NULL:
                H.nodes[c]['parent'] = name
        return name, 1 + max(hl, hr)

    root, _ = mk(shape, None)
    H.node('T', root=root, compare=('cmp', 'T'))
    return H, order


def shape_of(H, x):
    if x is NULL:
        return None
    n = H.nodes[x]
    return (shape_of(H, n['left']), shape_of(H, n['right']))


DEMANDS = ('order', 'links', 'heights', 'balance')


def audit(H, expected, tree='T'):
    """Compare the heap with the expected in-order sequence.  Returns {demand: [problems]}:
       order   -- the nodes reachable from the root, in order, are exactly `expected`
       links   -- root's parent is NULL, every child's parent points back, no node is reachable twice,
                  no JUNK in a reachable node
       heights -- every recorded height is 1 + max(children)
       balance -- subtree heights differ by at most one everywhere"""
    out = {d: [] for d in DEMANDS}
    seq = []
    seen = set()

    def walk(x, parent, via):
        if x is NULL:
            return 0
        if x is JUNK or not isinstance(x, str) or x not in H.nodes or x == tree:
            out['links'].append('%s holds %r, which is not a node' % (via, x))
            return 0
        if x in seen:
            out['links'].append('%s reaches %s a second time (cycle or shared subtree)' % (via, x))
            return 0
        seen.add(x)
        n = H.nodes[x]
        if n['parent'] is JUNK or n['parent'] != parent:
            out['links'].append('%s->parent is %s, its parent is %s' % (x, n['parent'], parent))
        hl = walk(n['left'], x, '%s->left' % x)
        seq.append(x)
        hr = walk(n['right'], x, '%s->right' % x)
        h = 1 + max(hl, hr)
        if n['height'] is JUNK or n['height'] != h:
            out['heights'].append('%s->height is recorded as %s, the subtree has height %d' % (x, n['height'], h))
        if abs(hl - hr) > 1:
            out['balance'].append('%s is unbalanced: left height %d, right height %d' % (x, hl, hr))
        return h

    walk(H.nodes[tree]['root'], NULL, 'tree->root')
    if seq != list(expected):
        out['order'].append('in-order sequence is %s, expected %s' % (' '.join(seq) or '(empty)', ' '.join(expected) or '(empty)'))
    return out


def rank_oracle(rank, token=('cmp', 'T'), lo=-5, hi=9):
    """comparator outcomes as an abstract assignment: a total pre-order of the node names.
    Results are deliberately not -1/+1: only the sign is part of the comparator contract."""
    def oracle(m, fv, args, e):
        if fv != token:
            raise Stuck('indirect call through %r, which is not the comparator installed in the tree' % (fv,))
        if len(args) != 2 or any(a not in rank for a in args):
            raise Stuck('comparator called with %r' % (args,))
        a, b = rank[args[0]], rank[args[1]]
        return 0 if a == b else (lo if a < b else hi)
    return oracle


class Result:
    __slots__ = ('ret', 'stuck', 'heap', 'machine', 'problems')


def run_op(prog, fname, H, args, rank=None):
    """evaluate one public operation on a private copy of H"""
    G = clone(H)
    m = Machine(prog, G, oracle=rank_oracle(rank) if rank is not None else None)
    r = Result()
    r.heap, r.machine, r.stuck, r.ret = G, m, None, None
    try:
        r.ret = m.call(fname, args)
    except Stuck as s:
        r.stuck = str(s)
    except RecursionError:
        r.stuck = 'unbounded recursion'
    return r


def public_fn(prog, name):
    f = prog.fn(name)
    if not f.blocks:
        raise AnalysisBroken('%s has no body' % name)
    return f
