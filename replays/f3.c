/* F3: iv_event_register fails (descriptor table full, raw-event transport) -> iv_main must still return */
#include <stdio.h>
#include <stdlib.h>
#include <fcntl.h>
#include <signal.h>
#include <unistd.h>
#include <iv.h>
#include <iv_event.h>
static void on_alarm(int s) { const char m[] = "HANG: iv_main did not return although nothing is registered\n"; write(1, m, sizeof(m)-1); _exit(3); }
static void eh(void *c) {}
int main(void) {
  struct iv_event ev; int r; setvbuf(stdout, NULL, _IONBF, 0);
  iv_init(); printf("method %s\n", iv_poll_method_name());
  while (open("/dev/null", O_RDONLY) >= 0) ;      /* exhaust descriptors */
  IV_EVENT_INIT(&ev); ev.cookie = NULL; ev.handler = eh;
  r = iv_event_register(&ev);
  printf("iv_event_register returned %d\n", r);
  signal(SIGALRM, on_alarm); alarm(2);
  iv_main();
  printf("iv_main returned\n"); return 0; }
