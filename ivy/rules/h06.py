"""Helpers of the C06 rules: role-based anchors (who runs task handlers, who enters the kernel wait,
who links tasks) and three small abstract analyses over the inlined, normalised CFG of those roots.

  TaskFlow   must-analysis with object tokens: which task object a pointer local denotes (copies of a
             pointer share the token of the definition they come from), whether that object has been
             unlinked / stamped with the current round since its definition, which locals equal the
             round counter, whether the counter was advanced, whether the object counter was decremented
             since the previous handler call.
  link_alts  path-sensitive (disjunctive) analysis of the list a task is linked into as a function of the
             tests the path took (round stamp vs round counter, running batch present).
  WaitFlow   path-sensitive analysis of the main loop: outcome of the pending-task test, what the deadline
             pointer points to, which timespec fields of a local are known to be zero, whether tasks ran since
             the previous kernel wait.

Nothing here depends on names of static functions, locals or parameters, or on the loop form.
"""
import re

from ..core import (AnalysisBroken, Inliner, canon, strip, last_member, walk, norm_cond, forward, names_of,
                    lvalue_steps, members, method_slot, is_int, subst, simplify, strip_load, PURE_CALLS)
from ..analyses import callback_kind
from .. import roles

TASK = 'iv_task_'
STATE = 'iv_state'
STAMP = (TASK, 'epoch')
LINK = (TASK, 'list')
HANDLER = (TASK, 'handler')
COUNTER = (STATE, 'task_epoch')
PENDING = (STATE, 'tasks')
CURRENT = (STATE, 'tasks_current')
NUMOBJS = (STATE, 'numobjs')

# The four names above the line are the defaults (what the fields are called in the reference tree); bind(prog)
# re-derives them for the program at hand from what is done with them, so that renaming a private field or grouping
# the task bookkeeping of the loop state into a sub-structure does not change what the rules talk about.

LIST_DEL = ('iv_list_del', 'iv_list_del_init')
LIST_ADD = ('iv_list_add', 'iv_list_add_tail')
LIST_MOVE_OUT = ('__iv_list_steal_elements', 'iv_list_splice_init', 'iv_list_splice_tail_init')
LIST_PRIMS = LIST_DEL + LIST_ADD + LIST_MOVE_OUT + ('iv_list_splice', 'iv_list_splice_tail', '__iv_list_splice', 'INIT_IV_LIST_HEAD')

_SIMPLE = re.compile(r'^[\w$@]+$')


# --------------------------------------------------------------------------
# expression roles
# --------------------------------------------------------------------------

def var_of(x):
    x = strip(x)
    return x if isinstance(x, dict) and x.get('k') == 'var' else None


def local_name(x):
    v = var_of(x)
    return v['name'] if v is not None and v.get('vk') in ('local', 'param') else None


def object_root(m):
    """For an access X->f / (*X).f with X a pointer variable: the name of X."""
    m = strip(m)
    if not (isinstance(m, dict) and m.get('k') == 'member'):
        return None
    b = strip(m['base'])
    if m.get('arrow'):
        return local_name(b)
    if isinstance(b, dict) and b.get('k') == 'deref':
        return local_name(b['e'])
    return None


def fn_target(fe):
    """the expression that yields the function pointer of an indirect call: `(*p->h)(..)` calls p->h"""
    fe = strip(fe)
    while isinstance(fe, dict) and fe.get('k') == 'deref':
        fe = strip(fe['e'])
    return fe


def zero_init(x):
    """an initialiser list / compound literal all of whose given fields are 0 (fields not given are 0 anyway)"""
    x = strip(x)
    while isinstance(x, dict) and x.get('k') == 'compound':
        x = strip(x.get('e'))
    if not (isinstance(x, dict) and x.get('k') == 'init'):
        return False
    vals = list((x.get('fields') or {}).values()) + list(x.get('elems') or [])
    for v in vals:
        v = strip(v)
        if isinstance(v, dict) and v.get('k') == 'init':
            if not zero_init(v):
                return False
        elif not (isinstance(v, dict) and ((v.get('k') == 'int' and v['v'] == 0) or v.get('k') == 'null')):
            return False
    return True


def int_value(x):
    """value of an integer constant expression (a literal, possibly negated), else None"""
    x = strip(x)
    if isinstance(x, dict) and x.get('k') == 'int':
        return x['v']
    if isinstance(x, dict) and x.get('k') == 'un' and x.get('op') == '-':
        v = int_value(x['e'])
        return -v if v is not None else None
    if isinstance(x, dict) and x.get('k') == 'paren':
        return int_value(x.get('e'))
    return None


def step_of(e, key):
    """+1 / -1 when the store event e steps the member `key` by one in place (`++`, `--`, `+= 1`, `-= 1`, `+= -1`,
    `f = f + 1`, `f = 1 + f`, `f = f - 1`), else None"""
    if e['ev'] != 'store' or last_member(e['lhs']) != key:
        return None
    op = e.get('op')
    if op == '++':
        return 1
    if op == '--':
        return -1
    v = int_value(e.get('rhs')) if op in ('+=', '-=') else None
    if v in (1, -1):
        return v if op == '+=' else -v
    if op == '=':
        r = strip(e.get('rhs'))
        if isinstance(r, dict) and r.get('k') == 'bin' and r.get('op') in ('+', '-'):
            for a, b in ((r['l'], r['r']), (r['r'], r['l'])):
                if last_member(a) == key and canon(strip(a)) == canon(strip(e['lhs'])) and int_value(b) in (1, -1):
                    if r['op'] == '-' and a is not r['l']:
                        return None
                    return int_value(b) if r['op'] == '+' else -int_value(b)
    return None


def addr_of_member(x):
    """(record, field) when x is &P->f / &S.f, else None."""
    x = strip(x)
    if isinstance(x, dict) and x.get('k') == 'addr':
        return last_member(x['e'])
    return None


def addr_of_local(x):
    """name of L when x is &L with L a local variable, else None."""
    x = strip(x)
    if isinstance(x, dict) and x.get('k') == 'addr':
        v = var_of(x['e'])
        if v is not None and v.get('vk') == 'local':
            return v['name']
    return None


def batch_address(g, x):
    """canonical spelling of the list head whose address expression x is: `&L` for a local list head L, `&P->f.g` for
    a list head embedded in an object; None for anything else (NULL, a loaded pointer)"""
    x = strip(x)
    if not (isinstance(x, dict) and x.get('k') == 'addr'):
        return None
    m = strip(x['e'])
    v = var_of(m)
    if v is not None:
        return '&' + v['name'] if v.get('vk') == 'local' and v.get('record') == 'iv_list_head' and not v.get('ptr') else None
    if isinstance(m, dict) and m.get('k') == 'member':
        fd = last_member(m)
        if fd and fd != LINK and fd[0] != 'iv_list_head' and m.get('trecord') == 'iv_list_head' and not m.get('tptr'):
            return canon(x)
    return None


def no_state_atoms(atoms):
    """the branch facts say that no loop state exists (state pointer == NULL)"""
    for (op, lc, rc, l, r) in atoms:
        v = var_of(l)
        if op == '==' and rc == '0' and v is not None and v.get('record') == STATE and v.get('ptr'):
            return True
    return False


# --------------------------------------------------------------------------
# role-based anchors
# --------------------------------------------------------------------------

def origin_fn(prog, g, e):
    """the function in whose body the event was written"""
    q = e.get('fn')
    if q and q in prog.funcs:
        return prog.funcs[q]
    return getattr(g, 'inlined_from', None) or g


def callee_of(prog, g, e):
    if 'callee' not in e:
        return None
    o = origin_fn(prog, g, e)
    u = prog.unit_of(o)
    return prog.resolve(u, e['callee']) if u else prog.funcs.get(e['callee'])


def _reads(e, key, skip=('load',)):
    if e['ev'] in skip:
        return False
    for k_ in ('rhs', 'args', 'fnexpr', 'value', 'init'):
        if k_ in e:
            for x in walk(e[k_]):
                if x.get('k') == 'member' and (x.get('record'), x['field']) == key:
                    return True
    return False


def mentioning(prog, key):
    """functions in which the member (record, field) occurs at all: read, written, or its address taken"""
    return roles.functions_with(prog, lambda e: e['ev'] != 'load' and any(k == key for k in members(e)))


def handler_users(prog):
    """functions that take the value of a task's handler field (to call it, cache it or pass it on)"""
    return roles.functions_with(prog, lambda e: _reads(e, HANDLER))


def _stable_address(x):
    """x is `&L`, `&L.f.g`, `&R->f.g` with L a local object / R a pointer variable: an address that depends on nothing
    but (the value of) its root variable.  Returns the root variable name, else None."""
    x = strip(x)
    if not (isinstance(x, dict) and x.get('k') == 'addr'):
        return None
    m = strip_dots(x['e'])
    v = var_of(m)
    if v is not None:
        return v['name'] if v.get('vk') == 'local' else None
    if isinstance(m, dict) and m.get('k') == 'member' and m.get('arrow'):
        b = m['base']
        while isinstance(b, dict) and b.get('k') == 'load':
            b = b['e']
        r = var_of(b) if isinstance(b, dict) and b.get('k') == 'var' else None
        if r is not None and r.get('vk') in ('local', 'param'):
            return r['name']
    return None


def strip_dots(m):
    """the expression below the trailing `.field` steps of an lvalue"""
    m = strip(m)
    while isinstance(m, dict) and m.get('k') == 'member' and not m.get('arrow'):
        m = strip(m['base'])
    return m


def _reads_of(x, names):
    return {n['e']['name'] for n in walk(x) if n.get('k') == 'load' and isinstance(n.get('e'), dict)
            and n['e'].get('k') == 'var' and n['e']['name'] in names}


def propagate_addresses(g):
    """Reads of a pointer local whose only definition is an address that depends on one variable only (`p = &L`,
    `p = &st->f`, `node = &t->list`; p never address-taken) are replaced by that address when, at every read of p, the
    variable still has the value it had when p was defined (must-analysis: p is valid from its definition until its root
    variable is assigned).  `batch = &tasks; ... iv_list_empty(batch)` then reads like `iv_list_empty(&tasks)`, `*round += 1`
    with `round = &st->counter` like `st->counter += 1`, `*stamp = n` with `stamp = &t->epoch` like `t->epoch = n`.
    (core.copy_propagate leaves address values alone.)  Works in place on an inlined copy."""
    defs, bad = {}, set()
    params = {p['name'] for p in g.params}
    for e in g.events():
        for x in walk(e):
            if x.get('k') == 'addr':
                v = var_of(x['e'])
                if v is not None:
                    bad.add(('&', v['name']))
    for e in g.events():
        if e['ev'] == 'store':
            v = local_name(e['lhs'])
            if v is not None:
                root = _stable_address(e.get('rhs')) if e.get('op') == '=' else None
                if root is None or root == v or (('&', root) in bad and var_of(strip_dots(strip(e['rhs'])['e'])) is None):
                    bad.add(v)
                    continue
                key = canon(e['rhs'])
                if defs.setdefault(v, (key, e, root))[0] != key:
                    bad.add(v)
    cand = {v: d for v, d in defs.items() if v not in bad and ('&', v) not in bad and v not in params}
    if cand:
        # validity: p is valid after its definition until its root variable is assigned / declared again
        roots = {}
        for v, d in cand.items():
            roots.setdefault(d[2], set()).add(v)

        def tr(e, S):
            if e['ev'] == 'decl':
                return S - roots.get(e['name'], set()) - {e['name']}
            if e['ev'] == 'store':
                v = local_name(e['lhs'])
                if v is not None:
                    S = S - roots.get(v, set())
                    if v in cand:
                        S = S | {v}
            return S
        _, at = forward(g, frozenset(), tr, lambda a, b: a & b)
        for b, blk in g.blocks.items():
            for i, e in enumerate(blk.events):
                S = at.get((b, i))
                if S is None:
                    continue
                used = set()
                for key in ('rhs', 'args', 'fnexpr', 'value', 'e', 'lhs'):
                    if key in e and not (key == 'lhs' and local_name(e['lhs']) is not None):
                        used |= _reads_of(e[key], cand)
                bad |= {v for v in used if v not in S}
            S = at.get((b, len(blk.events)))
            if S is not None and blk.term and blk.term.get('cond') is not None:
                bad |= {v for v in _reads_of(blk.term['cond'], cand) if v not in S}
    amap = {v: d[1]['rhs'] for v, d in cand.items() if v not in bad}
    if not amap:
        return 0
    n = [0]

    def rw(x):
        def r(nd):
            if nd.get('k') == 'load' and isinstance(nd.get('e'), dict) and nd['e'].get('k') == 'var' and nd['e']['name'] in amap:
                n[0] += 1
                out = dict(strip(amap[nd['e']['name']]))
                out['_was'] = nd['e']['name']
                return out
            return None
        return simplify(subst(x, r))
    for blk in g.blocks.values():
        for e in blk.events:
            for key in ('rhs', 'args', 'fnexpr', 'value', 'e'):
                if key in e and not (e['ev'] == 'load' and key == 'e' and local_name(e['e']) in amap):
                    e[key] = rw(e[key])
            if e['ev'] == 'store' and local_name(e['lhs']) is None:
                e['lhs'] = rw(e['lhs'])
        if blk.term and blk.term.get('cond') is not None:
            blk.term = dict(blk.term, cond=rw(blk.term['cond']))
    return n[0]


def _lh_field(m):
    """'next'/'prev' when m is an access to that field of a list head"""
    m = strip(m)
    if isinstance(m, dict) and m.get('k') == 'member' and m.get('record') == 'iv_list_head' and m['field'] in ('next', 'prev'):
        return m['field']
    return None


def _lh_of(m):
    """address expression of the list head whose field the member access m denotes"""
    m = strip(m)
    return m['base'] if m.get('arrow') else {'k': 'addr', 'e': m['base']}      # (wrappers kept: they carry `_was`)


def _spellings(x):
    """canonical spellings of x: as it stands, and with every sub-expression that replaced the read of a caching
    local spelled with that local again"""
    def back(nd):
        if '_was' in nd:
            return {'k': 'var', 'name': nd['_was'], 'vk': 'local'}
        return None
    return {canon(x), canon(subst(x, back))}


def _same(x, y):
    return bool(_spellings(x) & _spellings(y))


def _match_list_group(stores):
    """Open-coded list primitives (the bodies of iv_list_del / iv_list_add / iv_list_add_tail written out):
    returns (callee, [args]) when the given stores are exactly such a body, else None."""
    def parts(e):
        lhs, rhs = strip(e['lhs']), strip(e.get('rhs'))
        f = _lh_field(lhs)
        own = _lh_of(lhs)                                   # the head whose field is written
        via = None                                          # written through own = X->prev / X->next: (X, field)
        if lhs.get('arrow') and _lh_field(lhs['base']):
            via = (_lh_of(lhs['base']), _lh_field(lhs['base']))
        rf = (_lh_of(rhs), _lh_field(rhs)) if _lh_field(rhs) else None    # value read from a field of a head
        return f, own, via, rhs, rf
    P = [parts(e) for e in stores]
    if len(P) == 2:
        for a, b in ((P[0], P[1]), (P[1], P[0])):
            # N->prev->next = N->next ; N->next->prev = N->prev   (N possibly spelled once with the local that caches it
            # and once with the access path copy propagation put in its place)
            if a[0] == 'next' and a[2] and a[2][1] == 'prev' and a[4] and a[4][1] == 'next' and _same(a[2][0], a[4][0]) \
                    and b[0] == 'prev' and b[2] and b[2][1] == 'next' and b[4] and b[4][1] == 'prev' and _same(b[2][0], b[4][0]) \
                    and _same(a[2][0], b[2][0]):
                ops = [a[2][0], a[4][0], b[2][0], b[4][0]]
                plain = [x for x in ops if var_of(x) is not None]
                return 'iv_list_del', [plain[0] if plain else ops[0]]
        return None
    if len(P) != 4:
        return None
    import itertools
    for a, b, c, d in itertools.permutations(P):
        # add_tail: N->next = H ; N->prev = H->prev ; H->prev->next = N ; H->prev = N
        if a[0] == 'next' and not a[2] and b[0] == 'prev' and not b[2] and canon(a[1]) == canon(b[1]):
            N, H = a[1], a[3]
            if b[4] and b[4][1] == 'prev' and canon(b[4][0]) == canon(H) \
                    and c[0] == 'next' and c[2] and c[2][1] == 'prev' and canon(c[2][0]) == canon(H) and canon(c[3]) == canon(N) \
                    and d[0] == 'prev' and not d[2] and canon(d[1]) == canon(H) and canon(d[3]) == canon(N):
                return 'iv_list_add_tail', [N, H]
        # add: N->next = H->next ; N->prev = H ; H->next->prev = N ; H->next = N
        if a[0] == 'prev' and not a[2] and b[0] == 'next' and not b[2] and canon(a[1]) == canon(b[1]):
            N, H = a[1], a[3]
            if b[4] and b[4][1] == 'next' and canon(b[4][0]) == canon(H) \
                    and c[0] == 'prev' and c[2] and c[2][1] == 'next' and canon(c[2][0]) == canon(H) and canon(c[3]) == canon(N) \
                    and d[0] == 'next' and not d[2] and canon(d[1]) == canon(H) and canon(d[3]) == canon(N):
                return 'iv_list_add', [N, H]
    return None


def normalise_lists(g):
    """Replace written-out bodies of iv_list_del / iv_list_add / iv_list_add_tail (stores to list head fields that are
    adjacent in one block, only reads in between) by one synthetic call event, as core does for INIT_IV_LIST_HEAD."""
    n = 0
    for blk in g.blocks.values():
        evs = blk.events
        out, i = [], 0
        while i < len(evs):
            e = evs[i]
            done = False
            if e['ev'] == 'store' and e.get('op') == '=' and _lh_field(e['lhs']):
                idx, j = [], i
                while j < len(evs) and len(idx) < 4:
                    x = evs[j]
                    if x['ev'] == 'store' and x.get('op') == '=' and _lh_field(x['lhs']):
                        idx.append(j)
                    elif x['ev'] != 'load':
                        break
                    j += 1
                for k in (4, 2):
                    if len(idx) >= k:
                        m = _match_list_group([evs[q] for q in idx[:k]])
                        if m:
                            last = idx[k - 1]
                            out += [evs[q] for q in range(i, last + 1) if q not in idx[:k]]
                            call = {'ev': 'call', 'callee': m[0], 'args': m[1], 'loc': e['loc'], 'used': False, 'synthetic': True}
                            for key in ('fn', 'chain'):
                                if key in e:
                                    call[key] = e[key]
                            out.append(call)
                            i = last + 1
                            n += 1
                            done = True
                            break
            if not done:
                out.append(e)
                i += 1
        blk.events = out
    if n:
        for b in g.blocks.values():
            for i, e in enumerate(b.events):
                e['_b'], e['_i'] = b.id, i
    return n


_EXPR_KEYS = ('rhs', 'args', 'fnexpr', 'value', 'lhs')


def rebind_call_results(g):
    """The inliner replaces the call expression of an inlined helper by its result temporary only in the rest of the
    *source block* of the call.  The `c ? a : b` expression of a conditional keeps the spelled-out call `helper(x)` in
    the store at the join block (`abs = helper(st) ? &zero : ...`), although the call was evaluated (inlined) before the
    branch.  Replace those too: a call expression with the callee, source location and inlining chain of an inlined
    call reads the result temporary of that instance."""
    inst_of, ret_of = {}, {}
    for e in g.events():
        if e['ev'] == 'enter' and 'callee' in e:
            inst_of[(e['callee'], e.get('loc'), _chain_key(e))] = e.get('inst')
        elif e['ev'] == 'leave' and e.get('retvar'):
            ret_of[e.get('inst')] = (e['retvar'], e.get('rettype'))
    repl = {k: ret_of[i] for k, i in inst_of.items() if i in ret_of}
    if not repl:
        return 0
    n = [0]
    for blk in g.blocks.values():
        for e in blk.events:
            if e['ev'] in ('enter', 'leave', 'load', 'decl'):
                continue
            ck = _chain_key(e)

            def r(nd, ck=ck):
                if nd.get('k') == 'call' and (nd.get('callee'), nd.get('loc'), ck) in repl:
                    nm, ty = repl[(nd.get('callee'), nd.get('loc'), ck)]
                    n[0] += 1
                    return {'k': 'load', 'e': {'k': 'var', 'name': nm, 'vk': 'local', 'type': ty}}
                return None
            for key in ('rhs', 'args', 'fnexpr', 'value'):
                if key in e:
                    e[key] = subst(e[key], r)
    return n[0]


def _chain_key(e):
    return tuple(tuple(c) for c in (e.get('chain') or ()))


def resimplify(g):
    """core.simplify once more over the whole inlined graph.  Parameter substitution and copy propagation create
    `*&out = v` (an out-parameter bound to the address of a local), `(&head)->next`, and `head.next != &head` (the test
    `lh != &head` with `lh` a cache of `head.next`) after the loader's own simplification ran: they become `out = v`,
    `head.next`, `!iv_list_empty(&head)`."""
    def unload(nd):
        # `*load(&X)`: the value of an address expression needs no load (core.simplify only sees `*&X`)
        if nd.get('k') == 'deref':
            b = nd.get('e')
            while isinstance(b, dict) and b.get('k') == 'load' and isinstance(b.get('e'), dict):
                b = b['e']
            if isinstance(b, dict) and b.get('k') == 'addr' and b is not nd.get('e'):
                return dict(nd, e=subst(b, unload))
        return None

    def simp(x):
        return simplify(subst(x, unload))
    for blk in g.blocks.values():
        for e in blk.events:
            for key in _EXPR_KEYS:
                if key in e and isinstance(e[key], (dict, list)):
                    e[key] = simp(e[key])
            if e['ev'] == 'load' and isinstance(e.get('e'), dict):
                e['e'] = simp(e['e'])
        if blk.term and isinstance(blk.term.get('cond'), dict):
            blk.term = dict(blk.term, cond=simp(blk.term['cond']))


def fold_constant_branches(g):
    """A merged worker selected by a constant argument (`worker(t, 1)` / `worker(t, 0)`) leaves branches on constants
    (`if (!1)`) after parameter substitution: remove the edge that cannot be taken and the code that is no longer
    reachable, so that each exported entry point is analysed with its own half of the worker only."""
    from ..core import fold
    n = 0
    for blk in g.blocks.values():
        if not blk.term or blk.term.get('cond') is None or len(blk.succ) != 2 or blk.term.get('cls') in ('SwitchStmt', 'MethodDispatch'):
            continue
        c = strip(fold(blk.term['cond']))
        if isinstance(c, dict) and c.get('k') in ('int', 'null'):
            truth = bool(c.get('v', 0))
            blk.succ = [blk.succ[0 if truth else 1]]
            blk.term = {k: v for k, v in dict(blk.term, pruned=('false' if truth else 'true'), cls='Pruned').items() if k != 'cond'}
            n += 1
    if n:
        seen, work = set(), [g.entry]
        while work:
            b = work.pop()
            if b in seen or b is None or b not in g.blocks:
                continue
            seen.add(b)
            work += list(g.blocks[b].succ)
        for b in list(g.blocks):
            if b not in seen and b != g.exit:
                del g.blocks[b]
        g._preds = None
    return n


def _pointee_record(x):
    """record R when the expression x is known to have type `R *` (from the type annotations of variables, member
    accesses and casts), '' when it is known to be something else, None when the type is not annotated"""
    while isinstance(x, dict) and x.get('k') in ('load', 'paren'):
        x = x.get('e')
    if not isinstance(x, dict):
        return None
    k = x.get('k')
    if k == 'var':
        if 'record' in x:
            return x['record'] if x.get('ptr') else ''
        return None if 'type' not in x else ''
    if k == 'member':
        if 'trecord' in x:
            return x['trecord'] if x.get('tptr') else ''
        return None if 'type' not in x else ''
    if k == 'cast':
        if x.get('record'):
            return x['record'] if str(x.get('to', '')).rstrip().endswith('*') else ''
        return _pointee_record(x.get('e')) if str(x.get('to', '')).replace(' ', '') in ('void*', 'constvoid*') else ''
    if k == 'addr':
        m = x.get('e')
        while isinstance(m, dict) and m.get('k') == 'paren':
            m = m.get('e')
        if isinstance(m, dict) and m.get('k') == 'var' and 'record' in m:
            return m['record'] if not m.get('ptr') else ''
        if isinstance(m, dict) and m.get('k') == 'member' and 'trecord' in m:
            return m['trecord'] if not m.get('tptr') else ''
        return None
    if k == 'container_of':
        return x.get('record')
    return None


def _field_at(prog, record, offset, want, prefix=''):
    """path 'f' / 'f.g' of the member of `record` that is an embedded object of record type `want` and starts at byte
    `offset` (layout facts of the extractor), else None"""
    rec = prog.records.get(record) or {}
    if rec.get('union'):
        return None
    for fd in rec.get('fields') or ():
        off = fd.get('offset')
        if off is None or fd.get('ptr') or not fd.get('record') or 'bound' in fd:
            continue
        if off == offset and fd['record'] == want:
            return prefix + fd['name']
        size = fd.get('size') or 0
        if off <= offset < off + size and fd['record'] != record:
            sub = _field_at(prog, fd['record'], offset - off, want, prefix + fd['name'] + '.')
            if sub:
                return sub
    return None


def _byte_pointer(x):
    """the pointer expression p when x is `(char *)p`, `(unsigned char *)p`, `(void *)p` (GNU byte arithmetic) or
    `(uintptr_t)p` / `(unsigned long)p` / `(intptr_t)p` / `(size_t)p`: the address of *p counted in bytes"""
    while isinstance(x, dict) and x.get('k') == 'paren':
        x = x.get('e')
    if not (isinstance(x, dict) and x.get('k') == 'cast'):
        return None
    to = ' '.join(str(x.get('to', '')).replace('const ', '').split())
    if to in ('char *', 'unsigned char *', 'signed char *', 'void *', 'uint8_t *', 'uintptr_t', 'intptr_t', 'unsigned long',
              'long', 'size_t', 'ptrdiff_t', 'unsigned long long', 'long long'):
        p = x.get('e')
        # (char *)(void *)p
        q = _byte_pointer(p)
        return q if q is not None else p
    return None


def recognise_containers(prog, g):
    """`(R *)((char *)p - K)` with p a pointer to an M and K the byte offset of the embedded M member `m` of R (what
    `offsetof(R, m)` evaluates to) is `iv_container_of(p, R, m)` written out: give it the node the loader gives the macro,
    so that "the task this list node belongs to" does not depend on the macro being used.  Anything else (another
    offset, a member of another type, a pointer whose type does not fit) is left as the arithmetic it is."""
    n = [0]

    def r(nd):
        if nd.get('k') != 'cast' or not nd.get('record') or not str(nd.get('to', '')).rstrip().endswith('*'):
            return None
        if str(nd.get('to', '')).count('*') != 1:
            return None
        b = nd.get('e')
        # value-preserving conversions of the difference: `(R *)(void *)(...)`, `(R *)(uintptr_t)(...)`
        while isinstance(b, dict) and (b.get('k') == 'paren' or (b.get('k') == 'cast' and (
                str(b.get('to', '')).rstrip().endswith('*') or _byte_pointer(b) is not None))):
            b = b.get('e')
        if not (isinstance(b, dict) and b.get('k') == 'bin' and b.get('op') in ('-', '+')):
            return None
        off = int_value(b.get('r'))
        if off is None:
            return None
        off = off if b['op'] == '-' else -off
        p = _byte_pointer(b.get('l'))
        if p is None or off < 0:
            return None
        want = _pointee_record(p)
        if not want:
            return None
        path = _field_at(prog, nd['record'], off, want)
        if path is None:
            return None
        n[0] += 1
        return {'k': 'container_of', 'e': subst(p, r), 'record': nd['record'], 'member': path, 'type': nd.get('to'), 'open_coded': True}

    for blk in g.blocks.values():
        for e in blk.events:
            for key in ('rhs', 'args', 'fnexpr', 'value'):
                if key in e and isinstance(e[key], (dict, list)):
                    e[key] = subst(e[key], r)
        if blk.term and isinstance(blk.term.get('cond'), dict):
            blk.term = dict(blk.term, cond=subst(blk.term['cond'], r))
    return n[0]


# --------------------------------------------------------------------------
# pointer results that are NULL on one path and an object on the other (`while ((t = pop(&q)) != NULL)`)
# --------------------------------------------------------------------------

_NN = '#nn'


def _nn_var(name):
    return {'k': 'var', 'name': name + _NN, 'vk': 'local', 'type': 'int'}


def thread_nullness(g, max_blocks=1200):
    """A helper that hands back the next object *or NULL* (`return NULL` when the list is empty, else the unlinked first
    entry) correlates the outcome of its emptiness test with the caller's `!= NULL` test.  A must-analysis loses that at the
    join behind the helper's returns and then sees the path "list empty, pointer not NULL" (and "list not empty, pointer
    NULL").  This pass makes the correlation explicit in the CFG, exactly as flag partitioning does for integer results:
    a pointer local all of whose definitions are the null constant, an expression that is never null (the address of an
    object or member, the container of a list node) or a copy of another such local gets a shadow flag (0 = null, 1 = not
    null) next to every definition, NULL tests of the local become tests of the flag, and core's trace partitioning
    (`_partition_one`) threads the flag.  Every path of the result is a path of the source with the same events; only
    edges are removed whose condition contradicts the value the pointer was given on that very path."""
    from ..core import _partition_one
    defs, taken = {}, set()
    for e in g.events():
        if e['ev'] in ('call', 'store', 'ret'):
            for key in ('rhs', 'args', 'value', 'fnexpr'):
                x = e.get(key)
                for y in (x if isinstance(x, list) else [x]):
                    if isinstance(y, dict):
                        for z in walk(y):
                            if z.get('k') == 'addr' and isinstance(strip(z.get('e')), dict) and strip(z['e']).get('k') == 'var':
                                taken.add(strip(z['e'])['name'])
        if e['ev'] == 'store':
            l = strip(e['lhs'])
            if isinstance(l, dict) and l.get('k') == 'var' and l.get('vk') == 'local' and l is e['lhs']:
                defs.setdefault(l['name'], []).append(e)
    params = {q['name'] for q in g.params}

    def klass(e):
        if e.get('op') != '=' or 'rhs' not in e:
            return None
        r = strip(e['rhs'])
        if not isinstance(r, dict):
            return None
        if r.get('k') == 'null':
            return ('N',)
        if r.get('k') in ('addr', 'container_of'):
            return ('P',)
        if r.get('k') == 'var' and r.get('vk') == 'local':
            return ('V', r['name'])
        return None
    ok = {v for v in defs if v not in taken and v not in params and not v.endswith(_NN)
          and '*' in (strip(defs[v][0]['lhs']).get('type') or '') and all(klass(e) for e in defs[v])}
    changed = True
    while changed:
        changed = False
        for v in sorted(ok):
            if any(klass(e)[0] == 'V' and klass(e)[1] not in ok for e in defs[v]):
                ok.discard(v)
                changed = True
    # only locals whose value can be null on some path and an object on another are of interest

    def reach(v, what, seen=None):
        seen = seen or set()
        if v in seen:
            return False
        seen.add(v)
        return any(klass(e)[0] == what or (klass(e)[0] == 'V' and reach(klass(e)[1], what, seen)) for e in defs[v])
    work = [v for v in ok if reach(v, 'N') and reach(v, 'P')]
    ok = set()
    while work:                     # ... and the locals they are copies of
        v = work.pop()
        if v not in ok:
            ok.add(v)
            work += [klass(e)[1] for e in defs[v] if klass(e)[0] == 'V']
    if not ok:
        return 0

    def tested_var(x):
        """the tracked local whose value the operand x of a NULL test is"""
        x = strip(x)
        if isinstance(x, dict) and x.get('k') == 'assign' and x.get('op', '=') == '=':
            return tested_var(x.get('r'))
        if isinstance(x, dict) and x.get('k') == 'var' and x.get('name') in ok:
            return x['name']
        return None

    def is_zero(x):
        x = strip(x)
        return isinstance(x, dict) and (x.get('k') == 'null' or (x.get('k') == 'int' and x.get('v') == 0))

    def rewrite(c):
        """the condition with NULL tests of tracked locals replaced by tests of their flags (None: nothing to replace)"""
        y = strip(c)
        if not isinstance(y, dict):
            return None
        v = tested_var(y)
        if v is not None:
            return {'k': 'bin', 'op': '!=', 'l': {'k': 'load', 'e': _nn_var(v)}, 'r': {'k': 'int', 'v': 0}}
        if y.get('k') == 'un' and y.get('op') == '!':
            r = rewrite(y.get('e'))
            return None if r is None else dict(r, op='==' if r['op'] == '!=' else '!=')
        if y.get('k') == 'bin' and y.get('op') in ('==', '!='):
            for a, b in ((y['l'], y['r']), (y['r'], y['l'])):
                v = tested_var(a)
                if v is not None and is_zero(b):
                    return {'k': 'bin', 'op': y['op'], 'l': {'k': 'load', 'e': _nn_var(v)}, 'r': {'k': 'int', 'v': 0}}
        return None
    tests = {}
    for b, blk in g.blocks.items():
        if blk.term and blk.term.get('cond') is not None and len(blk.succ) == 2 and blk.term.get('cls') not in ('SwitchStmt', 'MethodDispatch'):
            r = rewrite(blk.term['cond'])
            if r is not None:
                tests[b] = r
    if not tests:
        return 0
    # shadow stores next to the definitions, tests on the shadows
    for blk in g.blocks.values():
        out = []
        for e in blk.events:
            out.append(e)
            l = strip(e['lhs']) if e['ev'] == 'store' else None
            if e['ev'] == 'store' and l is e['lhs'] and isinstance(l, dict) and l.get('k') == 'var' and l.get('name') in ok:
                k = klass(e)
                rhs = {'k': 'int', 'v': 0} if k[0] == 'N' else {'k': 'int', 'v': 1} if k[0] == 'P' else {'k': 'load', 'e': _nn_var(k[1])}
                sh = {'ev': 'store', 'op': '=', 'lhs': _nn_var(l['name']), 'rhs': rhs, 'loc': e['loc'], 'used': False, 'synthetic': True}
                for key in ('fn', 'chain'):
                    if key in e:
                        sh[key] = e[key]
                out.append(sh)
        blk.events = out
    for b, r in tests.items():
        g.blocks[b].term = dict(g.blocks[b].term, cond=r, _nn_orig=g.blocks[b].term['cond'])
    for b in g.blocks.values():
        for i, e in enumerate(b.events):
            e['_b'], e['_i'] = b.id, i
    g._preds = None
    # thread the flags, sources of copies first
    order, left = [], set(ok)
    while left:
        ready = sorted(v for v in left if all(klass(e)[0] != 'V' or klass(e)[1] not in left or klass(e)[1] == v for e in defs[v]))
        if not ready:
            ready = sorted(left)
        order += ready
        left -= set(ready)
    n = 0
    for v in order:
        if _partition_one(g, v + _NN, max_blocks):
            n += 1
    # what could not be decided keeps the condition as it was written; the shadow stores are no events of the program
    for blk in g.blocks.values():
        if blk.term and '_nn_orig' in blk.term:
            t = dict(blk.term)
            orig = t.pop('_nn_orig')
            if t.get('cond') is not None:
                t['cond'] = orig
            blk.term = t
        blk.events = [e for e in blk.events if not (e['ev'] == 'store' and isinstance(e['lhs'], dict) and e['lhs'].get('k') == 'var'
                                                    and str(e['lhs'].get('name', '')).endswith(_NN))]
    for b in g.blocks.values():
        for i, e in enumerate(b.events):
            e['_b'], e['_i'] = b.id, i
    g._preds = None
    return n


def inline_root(prog, f, **kw):
    """the root with its helpers inlined, plus the local normalisations (addresses cached in pointer locals,
    written-out list primitives, out-parameters, results of inlined helpers read in a later block)"""
    g = Inliner(prog, **kw).inline(f)
    propagate_addresses(g)
    rebind_call_results(g)
    resimplify(g)
    fold_constant_branches(g)
    recognise_containers(prog, g)
    normalise_lists(g)
    if thread_nullness(g):
        fold_constant_branches(g)
    return g


def inlined(prog, f):
    """Inliner(prog).inline(f), cached on the program object itself (roles.inlined keys its cache on id(prog), which
    is reused once a program was garbage-collected: a long-lived process then gets the graph of another tree)."""
    cache = prog.__dict__.setdefault('_h06_inl', {})
    if f.q not in cache:
        cache[f.q] = inline_root(prog, f)
    return cache[f.q]


def minimal_roots(prog, owners):
    """roots (exported functions, installed handlers) from which one of `owners` is reachable by direct
    calls without passing through another root: the smallest complete calling contexts of a site."""
    rts = {r.q for r in roles.roots(prog)}
    seen, res, work = set(), {}, list(owners)
    while work:
        x = work.pop()
        if x.q in seen:
            continue
        seen.add(x.q)
        if x.q in rts:
            res[x.q] = x
            continue
        for (c, e) in prog.callers_of(x.name):
            u = prog.unit_of(c)
            t = prog.resolve(u, e['callee']) if u else None
            if t is not None and t.q != x.q:
                continue
            work.append(c)
    return [res[q] for q in sorted(res)]


def closure_q(prog, owners):
    out = set()
    for o in owners:
        for c in roles.callers_closure(prog, o):
            out.add(c.q)
    return out


def _can_return(f):
    """the exit of f is reachable from its entry (blocks that end in a call that never returns have no successor)"""
    seen, work = set(), [f.entry]
    while work:
        b = work.pop()
        if b in seen or b is None or b not in f.blocks:
            continue
        seen.add(b)
        if b == f.exit:
            return True
        if not f.blocks[b].noreturn:
            work += list(f.blocks[b].succ)
    return False


def may_touch_tasks(prog):
    """qualified names of the functions from which user code (a callback) or an operation on the task lists
    is reachable through direct calls and poll-method slots: calling one of them may change which tasks are pending."""
    cached = getattr(prog, '_h06_touch', None)
    if cached is not None:
        return cached
    evs = {}
    mod = set()
    for f in prog.all_funcs():
        calls = [e for e in f.events() if e['ev'] == 'call']
        evs[f.q] = calls
        for e in calls:
            if 'fnexpr' in e:
                k = callback_kind(e)
                if k and k[0] != 'method':
                    mod.add(f.q)
            elif e.get('callee') in LIST_PRIMS and any(m in (PENDING, CURRENT, LINK) for m in members(e.get('args', []))):
                mod.add(f.q)
    changed = True
    while changed:
        changed = False
        for f in prog.all_funcs():
            if f.q in mod:
                continue
            for e in evs[f.q]:
                if e.get('noreturn'):
                    continue            # what a call that never returns does cannot change what its caller sees afterwards
                if 'callee' in e:
                    t = callee_of(prog, f, e)
                    hit = t is not None and t.q in mod and _can_return(t)
                else:
                    slot = method_slot(e)
                    hit = slot is not None and any(t.q in mod for t in prog.slot_targets(slot))
                if hit:
                    mod.add(f.q)
                    changed = True
                    break
    prog._h06_touch = mod
    return mod


# --------------------------------------------------------------------------
# identity by role: which fields are the link node, the round stamp, the round counter, the pending list and the
# running-batch pointer
# --------------------------------------------------------------------------

def _is_int_field(fd):
    return 'record' not in fd and not fd.get('fnptr') and '*' not in fd.get('type', '') and '[' not in fd.get('type', '')


def _member_type(prog, key):
    """field description of (record, field) from the record layout"""
    for fd in (prog.records.get(key[0]) or {}).get('fields', []):
        if fd['name'] == key[1]:
            return fd
    return {}


def _cond_exprs(f):
    for blk in f.blocks.values():
        if blk.term and blk.term.get('cond') is not None and blk.term.get('cls') != 'SwitchStmt':
            yield blk.term['cond']
    for e in f.events():
        if e['ev'] in ('store', 'call', 'ret'):
            for x in walk(e):
                if x.get('k') == 'cond':
                    yield x['c']
                elif x.get('k') == 'bin' and x.get('op') in ('==', '!='):
                    yield x


def _unique(votes, what):
    if not votes:
        raise AnalysisBroken('role not found: %s' % what)
    best = max(votes.values())
    top = sorted(k for k, v in votes.items() if v == best)
    if len(top) != 1:
        raise AnalysisBroken('role ambiguous: %s could be %s' % (what, ', '.join('%s.%s' % k for k in top)))
    return top[0]


def _flows_into(g, x, depth=0, seen=None):
    """the non-local expressions whose value can reach expression x through copies of locals and `?:` arms"""
    x = strip(x)
    seen = set() if seen is None else seen
    if not isinstance(x, dict) or depth > 6:
        return []
    if x.get('k') == 'cond':
        return _flows_into(g, x['a'], depth + 1, seen) + _flows_into(g, x['b'], depth + 1, seen)
    n = local_name(x)
    if n is None:
        return [x]
    if n in seen:
        return []
    seen.add(n)
    out = []
    for e in g.events():
        if e['ev'] == 'store' and e.get('op') == '=' and 'rhs' in e and local_name(e['lhs']) == n:
            out += _flows_into(g, e['rhs'], depth + 1, seen)
    return out


def bind(prog):
    """Derive the roles of the private fields for this program and bind the module-level names to them:

      LINK     the list node embedded in the task record (its only list-head member)
      STAMP    the integer member of the task record (the one compared with a member of another record, if several)
      COUNTER  the integer outside the task record that stamps are compared with / copied from and that the function
               calling the task handlers advances
      PENDING  the list head whose elements the function calling the task handlers detaches into a list head of its
               own frame (else: the list head that registration links a task's node to by address)
      CURRENT  the list-head pointer through which that function publishes the address of that local list (else: the
               pointer member whose value registration links a task's node to)

    Raises AnalysisBroken when a role has no or no unique bearer.  Cached on the program object."""
    global LINK, STAMP, COUNTER, PENDING, CURRENT
    cached = prog.__dict__.get('_h06_roles')
    if cached is None:
        cached = prog.__dict__['_h06_roles'] = _derive_roles(prog)
    if isinstance(cached, AnalysisBroken):
        raise cached
    LINK, STAMP, COUNTER, PENDING, CURRENT = cached
    return cached


def _derive_roles(prog):
    try:
        return _derive_roles1(prog)
    except AnalysisBroken as e:
        return e


def _derive_roles1(prog):
    global LINK, STAMP
    rec = prog.records.get(TASK)
    if not rec:
        raise AnalysisBroken('record %s not found' % TASK)
    links = [fd['name'] for fd in rec['fields'] if fd.get('record') == 'iv_list_head' and not fd.get('ptr')]
    if len(links) != 1:
        raise AnalysisBroken('the task record has %d embedded list nodes' % len(links))
    link = (TASK, links[0])
    ints = [(TASK, fd['name']) for fd in rec['fields'] if _is_int_field(fd)]
    # comparisons of an integer member of the task record with an integer member of another record, and integers copied
    # into such a member, in the exported contexts (helpers inlined: the counter may be read through an accessor)
    cmp_votes, ctr_votes, src_votes = {}, {}, {}
    users = roles.functions_with(prog, lambda e: any(k in ints for k in members(e)))
    for r in minimal_roots(prog, users):
        g = inlined(prog, r)
        seen = set()
        for c in _cond_exprs(g):
            for (op, lc, rc, l, r_) in norm_cond(c, True):
                if op not in ('==', '!='):
                    continue
                for a, b in ((l, r_), (r_, l)):
                    ka, kb = last_member(a) if isinstance(a, dict) else None, last_member(b) if isinstance(b, dict) else None
                    if ka in ints and kb and kb[0] != TASK and _is_int_field(_member_type(prog, kb) or {'record': 1}) \
                            and (ka, kb, c.get('loc')) not in seen:
                        seen.add((ka, kb, c.get('loc')))
                        cmp_votes[ka] = cmp_votes.get(ka, 0) + 1
                        ctr_votes[(ka, kb)] = ctr_votes.get((ka, kb), 0) + 1
        for e in g.events():
            if e['ev'] == 'store' and last_member(e['lhs']) in ints and 'rhs' in e:
                srcs = []
                for x in _flows_into(g, e['rhs']):
                    srcs += [k for k in members(x)]
                for k in set(srcs):
                    if k[0] != TASK and _is_int_field(_member_type(prog, k) or {'record': 1}):
                        src_votes[(last_member(e['lhs']), k, e['loc'])] = 1
    if len(ints) == 1:
        stamp = ints[0]
    else:
        stamp = _unique(cmp_votes, 'round stamp of a task (integer member of %s compared with a round counter)' % TASK)
    votes = {}
    for (ka, kb), n in ctr_votes.items():
        if ka == stamp:
            votes[kb] = votes.get(kb, 0) + n
    for (ka, kb, loc) in src_votes:
        if ka == stamp:
            votes[kb] = votes.get(kb, 0) + 1
    # the function that calls the task handlers: what it advances, detaches and publishes
    LINK, STAMP = link, stamp
    pend_votes, cur_votes = {}, {}
    for r in minimal_roots(prog, handler_users(prog)):
        g = inlined(prog, r)
        if not any(e['ev'] == 'call' and 'fnexpr' in e and last_member(fn_target(e['fnexpr'])) == HANDLER for e in g.events()) \
                and not any(e['ev'] == 'store' and 'rhs' in e and last_member(e['rhs']) == HANDLER for e in g.events()):
            continue
        published = set()
        for e in g.events():
            if e['ev'] == 'store':
                k = last_member(e['lhs'])
                if k and k in votes and step_of(e, k) is not None:
                    votes[k] += 1
                fd = _member_type(prog, k) if k else {}
                if k and e.get('op') == '=' and fd.get('record') == 'iv_list_head' and fd.get('ptr') and k[0] != 'iv_list_head' \
                        and batch_address(g, e.get('rhs')) is not None:
                    cur_votes[k] = cur_votes.get(k, 0) + 1
                    published.add(batch_address(g, e['rhs']))
        for e in g.events():
            if e['ev'] == 'call' and e.get('callee') in LIST_MOVE_OUT and len(e.get('args', [])) == 2 \
                    and batch_address(g, e['args'][1]) in published:
                k = addr_of_member(e['args'][0])
                if k and k != link and k[0] != 'iv_list_head':
                    pend_votes[k] = pend_votes.get(k, 0) + 1
    counter = _unique(votes, 'round counter (integer that task stamps are compared with / copied from)')
    # registration: where a task's node is linked
    reg_p, reg_c = {}, {}
    for r in minimal_roots(prog, mentioning(prog, link)):
        g = inlined(prog, r)
        for e in g.events():
            if is_task_link(e):
                for x in _flows_into(g, e['args'][1]):
                    k = addr_of_member(x)
                    if k and k != link and k[0] != 'iv_list_head':
                        reg_p[k] = reg_p.get(k, 0) + 1
                    k = last_member(x)
                    fd = _member_type(prog, k) if k else {}
                    if k and fd.get('record') == 'iv_list_head' and fd.get('ptr') and k[0] != 'iv_list_head':
                        reg_c[k] = reg_c.get(k, 0) + 1
    pending = _unique(pend_votes or reg_p, 'pending-task list (the list the runner detaches / registration links into)')
    current = _unique(cur_votes or reg_c, 'running-batch pointer (list-head pointer that publishes the runner\'s local batch)')
    return (link, stamp, counter, pending, current)


# --------------------------------------------------------------------------
# TaskFlow: object tokens, round counter equalities
# --------------------------------------------------------------------------

class TaskFlow:
    """Forward must-analysis (join = intersection) over one (inlined) function.  Facts:
         ('env', v, T)     pointer local v denotes the object defined at token T
         ('alias', T, n)   T was defined as the container of the list node whose value is spelled n
         ('unl', T)        the link node of T was removed from its list since T was defined
         ('gone', n)       the list node local n points to was removed from its list (n not reassigned since)
         ('stamp', T)      T's round stamp was stored the current round number since T was defined
         ('H', v, T)       local v holds the handler pointer read from T
         ('E', v)          local v equals the round counter;  ('En', v): ... unless no loop state exists
         ('nostate', p)    the path took the edge on which the loop-state pointer p is NULL
         ('P1', v)         local v equals the round counter plus one;  ('M1', v): ... minus one
         ('adv',)          the round counter was advanced by one since entry
         ('counted',)      the object counter was decremented since entry / the previous task handler call
    """

    def __init__(self, prog, g):
        self.prog, self.g = prog, g
        self.params = {p['name'] for p in g.params}
        self.redefined = {local_name(e['lhs']) for e in g.events() if e['ev'] == 'store' and local_name(e['lhs'])}
        _, self.at = forward(g, frozenset(), self.transfer, self.join, edge=self.edge)

    # -- object tokens at control-flow joins ----------------------------------
    # A token names the object a pointer local denotes by the *definition* it came from.  When two definitions of the same
    # local reach a join (the pointer is handed back by a helper that is inlined at two call sites, a peeled iteration, the
    # arms of an if/else), the local denotes "whichever of the two": token ('phi', v).  A fact holds for it iff it holds for
    # the object of either path on that path, which is exactly what the intersection computes after both sides renamed
    # their own token.  Invariant: facts about ('phi', v) exist only while ('env', v, ('phi', v)) is in the state.
    @staticmethod
    def _retarget(S, pairs):
        """pairs: {old token: [(new token, variables that move to it)]}; non-variable facts of old are copied to new"""
        if not pairs:
            return S
        out = set()
        for x in S:
            k = x[0]
            if k in ('env', 'H') and x[2] in pairs:
                for (new, vs) in pairs[x[2]]:
                    if x[1] in vs:
                        x = (k, x[1], new)
                        break
                out.add(x)
            elif k in ('unl', 'stamp') and x[1] in pairs:
                out.add(x)
                out.update((k, new) for (new, _) in pairs[x[1]])
            elif k == 'alias' and x[1] in pairs:
                out.add(x)
                out.update(('alias', new, x[2]) for (new, _) in pairs[x[1]])
            else:
                out.add(x)
        return frozenset(out)

    @staticmethod
    def _merge_tokens(a, b):
        ea = {(x[0], x[1]): x[2] for x in a if x[0] in ('env', 'H')}
        eb = {(x[0], x[1]): x[2] for x in b if x[0] in ('env', 'H')}
        groups = {}
        for kv, ta in ea.items():
            tb = eb.get(kv)
            if tb is not None and tb != ta:
                groups.setdefault((ta, tb), set()).add(kv)
        if not groups:
            return a, b
        pa, pb = {}, {}
        for (ta, tb), kvs in groups.items():
            ptrs = sorted(v for (k, v) in kvs if k == 'env')
            if not ptrs:
                continue            # only a handler-pointer local changed objects: no pointer names the merged object
            new = ('phi', ptrs[0])
            vs = {v for (_, v) in kvs}
            pa.setdefault(ta, []).append((new, vs))
            pb.setdefault(tb, []).append((new, vs))
        return TaskFlow._retarget(a, pa), TaskFlow._retarget(b, pb)

    @staticmethod
    def _drop_orphans(S):
        live = {x[2] for x in S if x[0] == 'env'}
        dead = {t for x in S for t in ((x[2],) if x[0] == 'H' else (x[1],) if x[0] in ('unl', 'stamp', 'alias') else ())
                if isinstance(t, tuple) and t and t[0] == 'phi' and t not in live}
        for t in dead:
            S = TaskFlow._kill_tok(S, t)
        return S

    @staticmethod
    def join(a, b):
        if a != b:
            a, b = TaskFlow._merge_tokens(a, b)
        j = a & b
        if a != b:
            j = TaskFlow._drop_orphans(j)
            # 'equals the counter' implies 'equals the counter unless there is no loop state'
            ea = {x[1] for x in a if x[0] in ('E', 'En')}
            eb = {x[1] for x in b if x[0] in ('E', 'En')}
            # ... and holds vacuously for every local on a path on which no loop state exists
            na, nb = TaskFlow.no_state(a), TaskFlow.no_state(b)
            cand = (ea | (eb if na else set())) & (eb | (ea if nb else set()))
            j = j | frozenset(('En', v) for v in cand if ('E', v) not in j)
        return j

    def edge(self, blk, si, S):
        for (op, lc, rc, l, r) in _cond_atoms(blk, si):
            if op == 'const':
                if lc == 'False':
                    return None
                continue
            v = var_of(l)
            if op == '==' and rc == '0' and v is not None and v.get('record') == STATE and v.get('ptr'):
                S = S | {('nostate', v['name'])}
        return S

    @staticmethod
    def no_state(S):
        return any(x[0] == 'nostate' for x in S)

    # -- values ------------------------------------------------------------
    def val(self, x, S):
        """'C' equals the round counter, 'Cn' equals it whenever a loop state exists, 'P1' counter + 1, else None"""
        x = strip(x)
        if not isinstance(x, dict):
            return None
        k = x.get('k')
        if k == 'var':
            n = x['name']
            if ('E', n) in S:
                return 'C'
            if ('En', n) in S:
                return 'Cn'
            if ('P1', n) in S:
                return 'P1'
            if ('M1', n) in S:
                return 'M1'
            return None
        if k == 'member' and last_member(x) == COUNTER:
            return 'C'
        if k == 'incdec' and x.get('op') in ('++', '--') and x.get('prefix') and last_member(x['e']) == COUNTER:
            return 'C'          # the increment itself is a separate, earlier store event
        if k == 'bin' and x.get('op') in ('+', '-'):
            # the counter stepped by one, in either direction: a round number no stamp of the previous round equals
            for a, b in ((x['l'], x['r']), (x['r'], x['l'])):
                if x['op'] == '-' and a is not x['l']:
                    continue
                d = int_value(b)
                if d in (1, -1) and self.val(a, S) == 'C':
                    return 'P1' if (d if x['op'] == '+' else -d) == 1 else 'M1'
            return None
        if k == 'cond':
            res = []
            for pol, arm in ((True, x['a']), (False, x['b'])):
                if no_state_atoms(norm_cond(x['c'], pol)):
                    continue
                res.append(self.val(arm, S))
            if len(res) == 2 and all(r == 'C' for r in res):
                return 'C'
            if all(r in ('C', 'Cn') for r in res):
                return 'Cn'
        return None

    def token_of(self, name, S):
        for x in S:
            if x[0] == 'env' and x[1] == name:
                return x[2]
        if name is not None and name in self.params and name not in self.redefined:
            return ('p', name)          # a parameter of the root that is never assigned: the caller's object
        return None

    def handler_token(self, e, S):
        """token of the task whose handler an indirect call invokes, 'unknown' when it is a task handler of an
        object the analysis lost track of, None when the call is not a task handler call"""
        if e['ev'] != 'call' or 'fnexpr' not in e:
            return None
        fe = fn_target(e['fnexpr'])
        if last_member(fe) == HANDLER:
            r = object_root(fe)
            return self.token_of(r, S) or 'unknown'
        n = local_name(fe)
        if n is not None:
            for x in S:
                if x[0] == 'H' and x[1] == n:
                    return x[2]
            if n in self.handler_locals():
                return 'unknown'
        return None

    def handler_locals(self):
        if not hasattr(self, '_hl'):
            self._hl = set()
            for e in self.g.events():
                if e['ev'] == 'store' and e.get('op') == '=' and 'rhs' in e and last_member(e['rhs']) == HANDLER:
                    n = local_name(e['lhs'])
                    if n:
                        self._hl.add(n)
        return self._hl

    # -- transfer ----------------------------------------------------------
    @staticmethod
    def _kill_var(S, v):
        phi = ('phi', v)
        if ('env', v, phi) in S:
            # v stops denoting the merged object: another pointer local that denotes it takes the name over, else it is forgotten
            others = sorted(x[1] for x in S if x[0] == 'env' and x[2] == phi and x[1] != v)
            if others:
                movers = {x[1] for x in S if x[0] in ('env', 'H') and x[2] == phi}
                S = TaskFlow._retarget(S - {('env', v, phi)}, {phi: [(('phi', others[0]), movers)]})
                S = frozenset(x for x in S if not (x[0] in ('unl', 'stamp', 'alias') and x[1] == phi))
            else:
                S = TaskFlow._kill_tok(S, phi)
        return frozenset(x for x in S if not ((x[0] in ('env', 'E', 'En', 'P1', 'M1', 'H', 'nostate', 'gone') and x[1] == v) or (x[0] == 'alias' and x[2] == v)))

    @staticmethod
    def _kill_tok(S, t):
        return frozenset(x for x in S if not ((x[0] in ('env', 'H') and x[2] == t) or (x[0] in ('unl', 'stamp', 'alias') and x[1] == t)))

    @staticmethod
    def _kill_paths(S):
        return frozenset(x for x in S if not (x[0] == 'alias' and not _SIMPLE.match(x[2])))

    def transfer(self, e, S):
        ev = e['ev']
        if ev == 'decl':
            return self._kill_var(S, e['name'])
        if ev == 'store':
            v = local_name(e['lhs'])
            if v is not None:
                return self._def_local(e, v, S)
            return self._store_mem(e, S)
        if ev == 'call':
            return self._call(e, S)
        return S

    def _def_local(self, e, v, S):
        rhs = e.get('rhs') if e.get('op') == '=' else None
        r = strip(rhs) if rhs is not None else None
        add = set()
        if isinstance(r, dict):
            w = local_name(r)
            if w is not None and w != v:
                for x in S:
                    if x[0] in ('env', 'H') and x[1] == w:
                        add.add((x[0], v, x[2]))
                    elif x[0] in ('E', 'En', 'P1', 'M1') and x[1] == w:
                        add.add((x[0], v))
            else:
                val = self.val(rhs, S)
                if val == 'C':
                    add.add(('E', v))
                elif val == 'Cn':
                    add.add(('En', v))
                elif val in ('P1', 'M1'):
                    add.add((val, v))
                if last_member(r) == HANDLER:
                    t = self.token_of(object_root(r), S)
                    if t is not None:
                        add.add(('H', v, t))
                if addr_of_member(r) == LINK:
                    t = self.token_of(object_root(r['e']), S)
                    if t is not None:
                        add.add(('alias', t, v))     # v holds the address of T's list node
        if self.no_state(S) and not any(x[0] in ('E', 'En') for x in add):
            add.add(('En', v))          # vacuously so on a path on which no loop state exists
        S = self._kill_var(S, v)
        if not any(x[0] == 'env' for x in add):
            # any definition other than a pointer copy makes v denote a new object
            T = ('t', e['_b'], e['_i'])
            S = self._kill_tok(S, T)
            add.add(('env', v, T))
            if isinstance(r, dict) and r.get('k') == 'container_of' and (r.get('record'), r.get('member')) == LINK:
                for n in names_of(r['e']) | {canon(r['e'])}:
                    if n != v:
                        add.add(('alias', T, n))
                        if ('gone', n) in S:
                            add.add(('unl', T))      # the node was already removed through the local that holds it
        return S | frozenset(add)

    def _store_mem(self, e, S):
        lm = last_member(e['lhs'])
        steps = lvalue_steps(e['lhs'])
        op = e.get('op')
        if lm == COUNTER:
            r = e.get('rhs')
            loc_eq = frozenset(x for x in S if x[0] in ('E', 'En', 'P1', 'M1'))
            if step_of(e, COUNTER) is not None:
                return (S - loc_eq) | {('adv',)}
            if op == '=' and r is not None:
                w = local_name(r)
                val = self.val(r, S)
                if val in ('P1', 'M1'):
                    S = (S - loc_eq) | {('adv',)}
                    return S | ({('E', w)} if w else frozenset())
                if val == 'C':
                    return S
                S = (S - loc_eq) - {('adv',)}
                return S | ({('E', w)} if w else frozenset())
            return (S - loc_eq) - {('adv',)}
        if lm == STAMP:
            t = self.token_of(object_root(e['lhs']), S)
            good = op == '=' and (self.val(e.get('rhs'), S) in ('C', 'Cn') or self.no_state(S))
            if t is not None:
                return (S | {('stamp', t)}) if good else (S - {('stamp', t)})
            if not good:
                return frozenset(x for x in S if x[0] != 'stamp')
            return S
        if lm == NUMOBJS:
            if step_of(e, NUMOBJS) == -1:
                return S | {('counted',)}
            return S
        if any(s_[0] == 'iv_list_head' for s_ in steps) or strip(e['lhs']).get('k') in ('deref', 'index'):
            return self._kill_paths(S)
        return S

    def _call(self, e, S):
        if 'fnexpr' in e:
            if self.handler_token(e, S) is not None:
                S = S - {('counted',)}
            return self._kill_paths(S)
        c = e.get('callee')
        args = e.get('args', [])
        if c in LIST_DEL and args:
            hit = set()
            if addr_of_member(args[0]) == LINK:
                t = self.token_of(object_root(strip(args[0])['e']), S)
                if t is not None:
                    hit.add(t)
            else:
                names = names_of(args[0]) | {canon(args[0])}
                for x in S:
                    if x[0] == 'alias' and x[2] in names:
                        hit.add(x[1])
                # the node a local points to is removed before the task pointer is computed from that local
                S = S | frozenset(('gone', n) for n in names if _SIMPLE.match(n))
            S = self._kill_paths(S)
            return S | frozenset(('unl', t) for t in hit)
        if c in LIST_ADD:
            S = frozenset(x for x in S if x[0] != 'gone')
        if c in LIST_ADD and args and addr_of_member(args[0]) == LINK:
            t = self.token_of(object_root(strip(args[0])['e']), S)
            S = self._kill_paths(S)
            if t is not None:
                return S - {('unl', t)}
            return frozenset(x for x in S if x[0] != 'unl')
        # the address of a local handed to a callee: the local may change
        for a in args:
            n = addr_of_local(a)
            if n is not None and c not in PURE_CALLS:
                S = self._kill_var(S, n)
        if c not in PURE_CALLS:
            S = self._kill_paths(S)
        return S


# --------------------------------------------------------------------------
# disjunctive forward analysis
# --------------------------------------------------------------------------

def disjunctive(g, init, transfer, edge, limit=3000):
    """forward() over sets of states: transfer(e, s) -> state | [states] | None, edge(blk, si, s) -> state | None.
    Returns {(block, index): frozenset(states)}."""
    def tr(e, SS):
        out = set()
        for s in SS:
            r = transfer(e, s)
            if r is None:
                continue
            if isinstance(r, list):
                out.update(r)
            else:
                out.add(r)
        if len(out) > limit:
            raise AnalysisBroken('state explosion in the path-sensitive analysis of %s' % g.name)
        return frozenset(out)

    def ed(blk, si, SS):
        out = set()
        for s in SS:
            r = edge(blk, si, s)
            if r is not None:
                out.add(r)
        return frozenset(out) if out else None

    _, ev_in = forward(g, frozenset([init]), tr, lambda a, b: a | b, edge=ed)
    return ev_in


def _switch_atoms(blk, si):
    """facts on the edge of a switch: `switch (C)` with C a truth value behaves like a branch on C; a switch on a
    plain value yields value == case"""
    c = blk.term.get('cond')
    cases = blk.term.get('cases') or []
    if c is None or si >= len(cases):
        return []
    cv = cases[si]
    x = strip(c)
    truth = isinstance(x, dict) and ((x.get('k') == 'bin' and x.get('op') in ('==', '!=', '<', '>', '<=', '>=', '&&', '||'))
                                     or (x.get('k') == 'un' and x.get('op') == '!'))
    if truth:
        if cv == 'default':
            rest = {0, 1} - {v for v in cases if v != 'default'}
            if not rest:
                return [('const', 'False', '', c, c)]       # both truth values have a case of their own
            return norm_cond(c, rest == {1}) if len(rest) == 1 else []
        return norm_cond(c, cv == 1) if cv in (0, 1) else [('const', 'False', '', c, c)]
    if cv != 'default' and isinstance(cv, int):
        return [('==', canon(c), str(cv), c, {'k': 'int', 'v': cv})]
    return []


def _cond_atoms(blk, si):
    if not blk.term or blk.term.get('cls') == 'MethodDispatch':
        return []
    if blk.term.get('cls') == 'SwitchStmt':
        return _switch_atoms(blk, si)
    if len(blk.succ) != 2:
        return []
    c = blk.term.get('cond')
    if c is None:
        return []
    return norm_cond(c, si == 0)


def _env_get(env, v):
    for (n, val) in env:
        if n == v:
            return val
    return None


def _env_set(env, v, val):
    env = frozenset(x for x in env if x[0] != v)
    return env | {(v, val)} if val is not None else env


# --------------------------------------------------------------------------
# link_alts: where does registration link a task, under which tests
# --------------------------------------------------------------------------

def _sem_atoms(atoms, env):
    """branch facts that matter for the choice of the list: ('differs', bool) round stamp vs round counter,
    ('running', bool) a batch is being run"""
    out = []
    for (op, lc, rc, l, r) in atoms:
        if op not in ('==', '!='):
            continue
        # a local that holds the value the round counter has now (env 'C': set by `v = <counter>`, dropped when the counter is
        # written or user code runs) stands for the counter
        kl = COUNTER if _env_get(env, local_name(l) or '') == 'C' else last_member(l)
        kr = COUNTER if _env_get(env, local_name(r) or '') == 'C' else last_member(r)
        if {kl, kr} == {STAMP, COUNTER}:
            out.append(('differs', op == '!='))
        elif rc == '0' and (last_member(l) == CURRENT or _env_get(env, local_name(l) or '') == 'R'):
            out.append(('running', op == '!='))
        elif rc == '0':
            # an int local that holds the truth value of such tests
            b = _env_get(env, local_name(l) or '')
            if isinstance(b, tuple) and b[0] == 'b':
                out += list(b[1] if op == '!=' else b[2])
    return out


def _is_truth_expr(x):
    x = strip(x)
    return isinstance(x, dict) and ((x.get('k') == 'bin' and x.get('op') in ('==', '!=', '&&', '||')) or (x.get('k') == 'un' and x.get('op') == '!'))


def _truth_value(x, env):
    """('b', facts when true, facts when false) for an expression that is the truth value of tests that matter"""
    if not _is_truth_expr(x):
        return None
    T = frozenset(_sem_atoms(norm_cond(x, True), env))
    F = frozenset(_sem_atoms(norm_cond(x, False), env))
    return ('b', T, F) if (T or F) else None


def _array_slot(x):
    """'A[i]' when x is element i (a constant) of the local array A"""
    x = strip(x)
    if isinstance(x, dict) and x.get('k') == 'index':
        a, i = local_name(strip_load(x['base'])), int_value(x.get('idx'))
        if a is not None and i is not None:
            return '%s[%d]' % (a, i)
    return None


def _index_alts(x, env, atoms):
    """[(index value, facts)] for the index expression of a table look-up: a constant, or a truth value (0 / 1)"""
    v = int_value(x)
    if v is not None:
        return [(v, frozenset())]
    b = _env_get(env, local_name(x) or '')
    if not (isinstance(b, tuple) and b[0] == 'b'):
        b = _truth_value(x, env)
    if b is None:
        return None
    out = []
    for val, facts in ((1, b[1]), (0, b[2])):
        if not any((k, not v_) in atoms for (k, v_) in facts):
            out.append((val, frozenset(facts)))
    return out


def _target_alts(x, env, atoms):
    """[(abstract list, extra facts)]: 'P' the pending list, 'R' the running batch, '?' anything else"""
    x = strip(x)
    if isinstance(x, dict) and x.get('k') == 'cond':
        out = []
        for pol, arm in ((True, x['a']), (False, x['b'])):
            extra = _sem_atoms(norm_cond(x['c'], pol), env)
            if any((k, not v) in atoms for (k, v) in extra):
                continue
            for (val, more) in _target_alts(arm, env, atoms | frozenset(extra)):
                out.append((val, frozenset(extra) | more))
        return out
    if addr_of_member(x) == PENDING:
        return [('P', frozenset())]
    if last_member(x) == CURRENT:
        return [('R', frozenset())]
    if isinstance(x, dict) and x.get('k') == 'index' and local_name(strip_load(x['base'])) is not None:
        # a table of list pointers held in a local array, indexed by a constant or by the truth value of the tests
        ia = _index_alts(x.get('idx'), env, atoms)
        if ia is not None:
            out = []
            for (i, facts) in ia:
                val = _env_get(env, '%s[%d]' % (local_name(strip_load(x['base'])), i))
                out.append((val if val in ('P', 'R') else '?', facts))
            return out
    if last_member(x) == COUNTER and isinstance(x, dict) and x.get('k') == 'member':
        return [('C', frozenset())]           # (not a list) the value the round counter has now: a local may cache it
    n = local_name(x)
    if n is not None and _env_get(env, n) in ('P', 'R', 'C'):
        return [(_env_get(env, n), frozenset())]
    return [('?', frozenset())]


def is_task_link(e):
    return e['ev'] == 'call' and e.get('callee') in LIST_ADD and len(e.get('args', [])) == 2 and addr_of_member(e['args'][0]) == LINK


def link_alts(g):
    """Returns (sites, exits): sites {loc: [(list, facts)]} for every call linking a task into a list (all paths, all
    copies of the site), exits: set of link counts with which the function can return."""
    def transfer(e, s):
        env, atoms, n = s
        ev = e['ev']
        if ev == 'decl':
            env = frozenset(x for x in env if not x[0].startswith(e['name'] + '['))
            return (_env_set(env, e['name'], None), atoms, n)
        if ev == 'store':
            v = local_name(e['lhs'])
            if v is not None:
                env = frozenset(x for x in env if not x[0].startswith(v + '['))
                if e.get('op') != '=' or 'rhs' not in e:
                    return (_env_set(env, v, None), atoms, n)
                r = strip(e['rhs'])
                if isinstance(r, dict) and r.get('k') == 'init' and r.get('elems'):
                    # `T *q[] = { a, b }`
                    outs = [(_env_set(env, v, None), atoms, n)]
                    for i, el in enumerate(r['elems']):
                        nxt = []
                        for (env_, atoms_, n_) in outs:
                            for (val, extra) in _target_alts(el, env_, atoms_):
                                nxt.append((_env_set(env_, '%s[%d]' % (v, i), val if val != '?' else None), atoms_ | extra, n_))
                        outs = nxt
                    return outs
                b = _truth_value(e['rhs'], env)
                if b is not None:
                    return (_env_set(env, v, b), atoms, n)
                outs = []
                for (val, extra) in _target_alts(e['rhs'], env, atoms):
                    outs.append((_env_set(env, v, val if val != '?' else None), atoms | extra, n))
                return outs
            slot = _array_slot(e['lhs'])
            if slot is not None:
                if e.get('op') != '=' or 'rhs' not in e:
                    return (_env_set(env, slot, None), atoms, n)
                return [(_env_set(env, slot, val if val != '?' else None), atoms | extra, n)
                        for (val, extra) in _target_alts(e['rhs'], env, atoms)]
            lx = strip(e['lhs'])
            if isinstance(lx, dict) and lx.get('k') == 'index' and local_name(strip_load(lx['base'])) is not None:
                a = local_name(strip_load(lx['base']))        # element with an unknown index: the whole table is unknown
                return (frozenset(x for x in env if not x[0].startswith(a + '[')), atoms, n)
            keys = set(lvalue_steps(e['lhs'])) | {last_member(e['lhs'])}
            if STAMP in keys or COUNTER in keys:
                atoms = frozenset(a for a in atoms if a[0] != 'differs')
                env = frozenset(x for x in env if not (isinstance(x[1], tuple) and x[1][0] == 'b'))
            if COUNTER in keys:
                env = frozenset(x for x in env if x[1] != 'C')
            if CURRENT in keys:
                atoms = frozenset(a for a in atoms if a[0] != 'running')
                env = frozenset(x for x in env if x[1] != 'R' and not (isinstance(x[1], tuple) and x[1][0] == 'b'))
            return (env, atoms, n)
        if ev == 'call':
            if 'fnexpr' in e:
                return (frozenset(x for x in env if x[1] not in ('R', 'C') and not (isinstance(x[1], tuple) and x[1][0] == 'b')), frozenset(), n)
            if is_task_link(e):
                return (env, atoms, min(n + 1, 2))
            for a in e.get('args', []):
                m = addr_of_local(a)
                if m is not None:
                    env = _env_set(env, m, None)
        return (env, atoms, n)

    def edge(blk, si, s):
        env, atoms, n = s
        ca = _cond_atoms(blk, si)
        if any(a[0] == 'const' and a[1] == 'False' for a in ca):
            return None
        new = _sem_atoms(ca, env)
        if any((k, not v) in atoms for (k, v) in new):
            return None
        return (env, atoms | frozenset(new), n)

    at = disjunctive(g, (frozenset(), frozenset(), 0), transfer, edge)
    sites = {}
    for b, blk in g.blocks.items():
        for i, e in enumerate(blk.events):
            if is_task_link(e):
                for (env, atoms, n) in at.get((b, i), ()):
                    for (val, extra) in _target_alts(e['args'][1], env, atoms):
                        sites.setdefault(e['loc'], []).append((val, atoms | extra, e))
    # every returning path of the root ends in its single exit block
    exits = {s_[2] for s_ in at.get((g.exit, 0), ())}
    return sites, exits


# --------------------------------------------------------------------------
# WaitFlow: the main loop between two kernel waits
# --------------------------------------------------------------------------

def empty_test(atom):
    """(head address expression, True when the atom says the list is empty / False when not empty) for a branch fact that
    is an emptiness test of a list head, however it is written: `iv_list_empty(H)` tested for truth, or a link field of the
    head compared with the head's own address (`H->next == H`, `&X == X.prev`, either operand order)."""
    (op, lc, rc, l, r) = atom
    if op not in ('==', '!='):
        return None
    c = strip(l)
    if isinstance(c, dict) and c.get('k') == 'call' and c.get('callee') == 'iv_list_empty' and rc == '0' and c.get('args'):
        return (c['args'][0], op == '!=')
    for a, b in ((l, r), (r, l)):
        if isinstance(a, dict) and isinstance(b, dict) and _lh_field(a):
            head = _lh_of(a)
            if canon(head) == canon(b):
                return (head, op == '==')
    return None


def _pending_test(atom, env, summ=None):
    """'E' / 'N' when the atom says that the pending-task list is empty / not empty.  summ: call expression -> polarity for
    callees whose result is that truth value (read at their return)"""
    if summ is not None and atom[0] in ('==', '!=') and atom[2] == '0':
        p = summ(atom[3])
        if p is not None:
            return 'N' if (atom[0] == '!=') == p else 'E'
    t = empty_test(atom)
    if t is not None:
        a = t[0]
        if addr_of_member(a) == PENDING or _env_get(env, local_name(a) or '') == 'PEND':
            return 'E' if t[1] else 'N'
    return None


def _truth_of_pending(x, env, summ=None):
    """polarity p such that (x != 0) <=> (tasks are pending) == p, when x is such a truth value"""
    if summ is not None and summ(x) is not None:
        return summ(x)
    atoms = norm_cond(x, True)
    if len(atoms) == 1:
        t = _pending_test(atoms[0], env, summ)
        if t is not None:
            return t == 'N'
    return None


class WaitFlow:
    """state = (pend, env, zeros, ran)
         pend  '?' unknown, 'E' the pending-task list was found empty, 'N' found non-empty (nothing since can have changed it)
         env   {(local, value)}: ('addr', L) address of local L, 'PEND' address of the pending list, ('c', n) constant,
               ('pb', p) truth value of "tasks are pending" (== p), 'TH' a task handler pointer
         zeros {(L, field)}: field of local timespec L was stored 0 and not written since
         ran   tasks were run since the previous kernel wait (or entry)"""

    def __init__(self, prog, g, is_taskrun, is_wait, touches, summaries=None, track=()):
        self.prog, self.g = prog, g
        self.is_taskrun, self.is_wait, self.touches = is_taskrun, is_wait, touches
        self.summ = summaries
        # integer constants are tracked only for locals that some branch / conditional expression tests (and those asked for)
        self.tested = set(track)
        for blk in g.blocks.values():
            if blk.term and blk.term.get('cond') is not None:
                self.tested |= {x['name'] for x in walk(blk.term['cond']) if x.get('k') == 'var'}
        for e in g.events():
            for x in walk(e):
                if x.get('k') == 'cond':
                    self.tested |= {y['name'] for y in walk(x['c']) if y.get('k') == 'var'}
        changed = True
        while changed:                       # ... and for the locals copied into them
            changed = False
            for e in g.events():
                if e['ev'] == 'store' and local_name(e['lhs']) in self.tested and local_name(e.get('rhs')) not in (None,) + tuple(self.tested):
                    self.tested.add(local_name(e['rhs']))
                    changed = True
        self.at = disjunctive(g, ('?', frozenset(), frozenset(), False), self.transfer, self.edge)

    def value(self, x, env, pend):
        x = strip(x)
        if not isinstance(x, dict):
            return None
        n = addr_of_local(x)
        if n is not None:
            return ('addr', n)
        if self.zero_object(x):
            return ('zaddr', canon(x))
        if addr_of_member(x) == PENDING:
            return 'PEND'
        if x.get('k') == 'int':
            return ('c', x['v'])
        if x.get('k') == 'null':
            return ('c', 0)
        if last_member(x) == HANDLER:
            return 'TH'
        v = local_name(x)
        if v is not None:
            return _env_get(env, v)
        p = _truth_of_pending(x, env, self.summ)
        if p is not None:
            if pend in ('E', 'N'):
                return ('c', int((pend == 'N') == p))
            return ('pb', p)
        return None

    def arm_values(self, x, s):
        """[(value, outcome of the pending test)] the expression can have in state s.  A `c ? a : b` contributes the arms
        whose condition the state allows (its condition was evaluated at the branch before the arms: it only filters).
        A look-up `table[i]` in a local array contributes the slots the index can select; an index that is the truth
        value of the pending test is evaluated with the expression itself, so each slot comes with its outcome."""
        r = strip(x)
        if isinstance(r, dict) and r.get('k') == 'cond':
            out = []
            for pol, arm in ((True, r['a']), (False, r['b'])):
                s2 = self._refine(norm_cond(r['c'], pol), s, learn=False)
                if s2 is not None:
                    out += self.arm_values(arm, s2)
            return out
        if isinstance(r, dict) and r.get('k') == 'index' and local_name(strip_load(r['base'])) is not None:
            a = local_name(strip_load(r['base']))
            pend, env = s[0], s[1]
            iv = self.value(r.get('idx'), env, pend)
            if isinstance(iv, tuple) and iv[0] == 'c':
                return [(_env_get(env, '%s[%d]' % (a, iv[1])), pend)]
            p = iv[1] if isinstance(iv, tuple) and iv[0] == 'pb' else None
            if p is not None:           # pend is '?' here (value() folds a known outcome into a constant)
                return [(_env_get(env, '%s[%d]' % (a, int(p))), 'N'), (_env_get(env, '%s[%d]' % (a, int(not p))), 'E')]
            return [(None, pend)]
        return [(self.value(x, s[1], s[0]), s[0])]

    def zero_object(self, x):
        """x is &G with G a file-scope / static timespec that is zero-initialised and never written anywhere"""
        x = strip(x)
        if not (isinstance(x, dict) and x.get('k') == 'addr'):
            return False
        v = var_of(x['e'])
        if v is None or v.get('vk') not in ('global', 'staticlocal') or v.get('record') != 'timespec' or v.get('ptr'):
            return False
        if v.get('vk') == 'staticlocal':
            # a function-scope static: const-qualified, zero-initialised (no initialiser, or zeros) and never assigned
            if 'const' not in v.get('type', ''):
                return False
            ds = [e for e in self.g.events() if e['ev'] == 'decl' and e['name'] == v['name']]
            if not ds or any(not e.get('static') or ('init' in e and not zero_init(e['init'])) for e in ds):
                return False
            for e in self.g.events():
                if e['ev'] == 'store' and var_of(strip_dots(e['lhs'])) is not None and var_of(strip_dots(e['lhs']))['name'] == v['name'] \
                        and not (e.get('op') == '=' and zero_init(e.get('rhs'))):
                    return False
            return True
        if self.prog.global_writers(v['name']):
            return False
        unit = self.prog.unit_of(getattr(self.g, 'inlined_from', None) or self.g)
        gl = self.prog.global_for(unit, v['name'])
        if not isinstance(gl, dict) or gl.get('extern_decl') or 'const' not in gl.get('type', ''):
            return False
        return 'init' not in gl or zero_init(gl['init'])

    def _refine(self, atoms, s, learn=True):
        """the state restricted by branch facts; None when they contradict it.  learn=False (the condition of a `?:`
        re-read at the join, after the arms ran): a direct test of the list only filters by what is still known, it
        does not establish an outcome that a call in an arm may have invalidated"""
        pend, env, zeros, ran = s
        for atom in atoms:
            (op, lc, rc, l, r) = atom
            if op == 'const':
                if lc == 'False':
                    return None
                continue
            t = _pending_test(atom, env, self.summ)
            if t is not None and not learn and pend == '?':
                continue
            v = local_name(l)
            if t is None and v is not None and rc.lstrip('-').isdigit():
                val = _env_get(env, v)
                n = int(rc)
                if isinstance(val, tuple) and val[0] == 'c':
                    if not eval('%d %s %d' % (val[1], op, n)):
                        return None
                elif isinstance(val, tuple) and val[0] == 'pb' and n == 0 and op in ('==', '!='):
                    t = 'N' if (op == '!=') == val[1] else 'E'
                    env = _env_set(env, v, ('c', int(op == '!='))) if op == '==' else env
                elif val is None and op == '==' and v in self.tested:
                    env = _env_set(env, v, ('c', n))
            if t is not None:
                if pend in ('E', 'N') and pend != t:
                    return None
                pend = t
        return (pend, env, zeros, ran)

    def edge(self, blk, si, s):
        return self._refine(_cond_atoms(blk, si), s)

    def _assign(self, v, rhs, s):
        """states after `v = rhs` (conditional expressions split the state)"""
        r = strip(rhs)
        if isinstance(r, dict) and r.get('k') == 'cond':
            out = []
            for pol, arm in ((True, r['a']), (False, r['b'])):
                s2 = self._refine(norm_cond(r['c'], pol), s, learn=False)
                if s2 is not None:
                    out += self._assign(v, arm, s2)
            return out
        pend, env, zeros, ran = s
        if isinstance(r, dict) and r.get('k') == 'index' and local_name(strip_load(r['base'])) is not None:
            out = []
            for (val, pn) in self.arm_values(rhs, s):       # a table look-up: one state per slot the index can select
                if isinstance(val, tuple) and val[0] in ('c', 'pb') and v not in self.tested:
                    val = None
                out.append((pn, _env_set(env, v, val), zeros, ran))
            return out
        val = self.value(rhs, env, pend)
        if isinstance(val, tuple) and val[0] in ('c', 'pb') and v not in self.tested:
            val = None
        return [(pend, _env_set(env, v, val), zeros, ran)]

    def _timespec_field(self, lhs, env):
        """(L, field) when the store goes to a field of the local timespec L (directly or through a pointer known to hold &L)"""
        m = strip(lhs)
        if not (isinstance(m, dict) and m.get('k') == 'member' and m.get('record') == 'timespec'):
            return None
        b = strip(m['base'])
        if m.get('arrow'):
            val = _env_get(env, local_name(b) or '')
            if isinstance(val, tuple) and val[0] == 'addr':
                return (val[1], m['field'])
            return None
        v = var_of(b)
        if v is not None and v.get('vk') == 'local':
            return (v['name'], m['field'])
        return None

    def transfer(self, e, s):
        pend, env, zeros, ran = s
        ev = e['ev']
        if ev == 'store' and self.is_taskrun(e):
            ran = True                       # the round counter is stepped: a round of tasks begins
            s = (pend, env, zeros, ran)
        if ev == 'decl':
            nm = e['name']
            zeros = frozenset(z for z in zeros if z[0] != nm)
            env = frozenset(x for x in env if x[0] != nm and x[1] != ('addr', nm) and not x[0].startswith(nm + '['))
            if e.get('record') == 'timespec' and not e.get('ptr') and 'init' in e and zero_init(e['init']):
                zeros = zeros | {(nm, 'tv_sec'), (nm, 'tv_nsec')}
            return (pend, env, zeros, ran)
        if ev == 'store':
            v = local_name(e['lhs'])
            if v is not None:
                zeros = frozenset(z for z in zeros if z[0] != v)
                if e.get('op') == '=' and 'rhs' in e:
                    lv = var_of(e['lhs'])
                    if lv.get('record') == 'timespec' and not lv.get('ptr') and zero_init(e['rhs']):
                        return (pend, env, zeros | {(v, 'tv_sec'), (v, 'tv_nsec')}, ran)
                    src = var_of(e['rhs'])
                    if lv.get('record') == 'timespec' and not lv.get('ptr') and src is not None and src.get('record') == 'timespec' \
                            and not src.get('ptr'):
                        # structure assignment: the copy has the zero fields of its source
                        if src.get('vk') == 'local':
                            zs = {(v, f) for (L, f) in zeros if L == src['name']}
                        else:
                            zs = {(v, 'tv_sec'), (v, 'tv_nsec')} if self.zero_object({'k': 'addr', 'e': src}) else set()
                        return (pend, _env_set(env, v, None), zeros | zs, ran)
                    return self._assign(v, e['rhs'], (pend, env, zeros, ran))
                return (pend, _env_set(env, v, None), zeros, ran)
            slot = _array_slot(e['lhs'])
            lx = strip(e['lhs'])
            if isinstance(lx, dict) and lx.get('k') == 'index' and local_name(strip_load(lx['base'])) is not None \
                    and strip_load(lx['base']).get('record') != 'timespec':
                # an element of a local table (of pointers / integers): not a timespec object
                a = local_name(strip_load(lx['base']))
                if slot is None or e.get('op') != '=' or 'rhs' not in e:
                    return (pend, frozenset(x for x in env if not x[0].startswith(a + '[')), zeros, ran)
                outs = []
                for (val, pn) in self.arm_values(e['rhs'], s):
                    if isinstance(val, tuple) and val[0] in ('c', 'pb'):
                        val = None
                    outs.append((pend, _env_set(env, slot, val), zeros, ran))
                return outs
            tf = self._timespec_field(e['lhs'], env)
            if tf is not None:
                if e.get('op') == '=' and is_int(e.get('rhs'), 0):
                    zeros = zeros | {tf}
                else:
                    zeros = zeros - {tf}
            elif (last_member(e['lhs']) or ('', ''))[0] == 'timespec' or strip(e['lhs']).get('k') in ('deref', 'index'):
                zeros = frozenset()          # a store to some timespec through an unknown pointer
            if PENDING in lvalue_steps(e['lhs']):
                pend = '?'
            return (pend, env, zeros, ran)
        if ev == 'call':
            if self.is_taskrun(e) or ('fnexpr' in e and _env_get(env, local_name(e['fnexpr']) or '') == 'TH'):
                ran = True
            if self.is_wait(e):
                ran = False
            if self.touches(e):
                pend = '?'
                env = frozenset(x for x in env if not (isinstance(x[1], tuple) and x[1][0] == 'pb'))
            c = e.get('callee')
            args = e.get('args', [])
            if c == 'memset' and len(args) >= 2 and addr_of_local(args[0]) and is_int(args[1], 0):
                L = addr_of_local(args[0])
                return (pend, env, zeros | {(L, 'tv_sec'), (L, 'tv_nsec')}, ran)
            if c not in PURE_CALLS:
                t = callee_of(self.prog, self.g, e) if c else None
                for i, a in enumerate(args):
                    konst = t is not None and i < len(t.params) and 'const' in t.params[i].get('type', '')
                    if local_name(a) is not None and not konst:
                        env = frozenset(x for x in env if not x[0].startswith(local_name(a) + '['))     # a table handed to the callee
                    n = addr_of_local(a)
                    if n is not None:
                        # &L handed to the callee: L may change (unless the parameter points to const)
                        if not konst:
                            env = _env_set(env, n, None)
                            zeros = frozenset(z for z in zeros if z[0] != n)
                        continue
                    val = _env_get(env, local_name(a) or '')
                    if isinstance(val, tuple) and val[0] == 'addr' and not konst:
                        zeros = frozenset(z for z in zeros if z[0] != val[1])
            return (pend, env, zeros, ran)
        return s


# --------------------------------------------------------------------------
# small must-analyses on an inlined root
# --------------------------------------------------------------------------

def deadline_params(t):
    """indices of the parameters of t that are pointers to a timespec"""
    return [i for i, p in enumerate(t.params) if p.get('record') == 'timespec' and p.get('ptr')]


def always_begins_round(prog, t):
    """every path through t (helpers and callees inlined) to its return advances the round counter (in whatever way
    TaskFlow accepts: in place, or through a local that holds the stepped value)"""
    memo = prog.__dict__.setdefault('_h06_always', {})
    if t.q not in memo:
        g = inlined(prog, t)
        at = TaskFlow(prog, g).at
        pts = [p for p in exit_points(g) if p in at]
        memo[t.q] = bool(pts) and all(('adv',) in at[p] for p in pts)
    return memo[t.q]


def advancing_stores(prog, g):
    """program points (block, index) of the stores in g that advance the round counter"""
    tf = TaskFlow(prog, g)
    out = set()
    for e in g.events():
        if e['ev'] == 'store' and last_member(e['lhs']) == COUNTER:
            S = tf.at.get((e['_b'], e['_i']))
            if S is not None and ('adv',) in tf.transfer(e, S - {('adv',)}):
                out.add((e['_b'], e['_i']))
    return out


def exit_points(g):
    """program points at which the root returns: its own return statements and the fall-through into the exit block"""
    pts = []
    for b, blk in g.blocks.items():
        for i, e in enumerate(blk.events):
            if e['ev'] == 'ret' and not e.get('chain'):
                pts.append((b, i))
    pts.append((g.exit, 0))
    return pts


# --------------------------------------------------------------------------
# R-C06g: the slot that arms a kernel timer for the poll deadline
# --------------------------------------------------------------------------

COPY_CALLS = ('memcpy', 'memmove', '__builtin_memcpy', '__builtin_memmove')


class ArmFlow:
    """Path-sensitive analysis of a function that is asked to arm a kernel timer for the deadline it is handed and answers
    whether it did.  state = (armed, res, env, taint)
         armed  since entry the deadline was handed to the kernel: a function that is not part of the program was called with
                an argument that is the deadline pointer or (the address of) a local into which deadline data was copied,
                and no branch since established that this call failed
         res    ('x', signature) just after that call / ('v', local) the local that holds its result
         env    {(local, n)}: integer locals with a known constant value
         taint  locals (scalars, structs) that hold data copied from the deadline"""

    FAILED = {('<', '0'), ('==', '-1'), ('!=', '0'), ('<=', '-1')}

    def __init__(self, prog, g, deadline):
        self.prog, self.g, self.deadline = prog, g, deadline
        self.at = disjunctive(g, (False, None, frozenset(), frozenset()), self.transfer, self.edge)

    def derives(self, x, taint):
        return any(y.get('k') == 'var' and (y.get('name') == self.deadline or y.get('name') in taint) for y in walk(x))

    @staticmethod
    def _sig(x):
        return (x.get('callee'), tuple(canon(a) for a in x.get('args', [])))

    def const(self, x, env):
        """the integer the expression evaluates to in this state, None when unknown"""
        x = strip(x)
        if not isinstance(x, dict):
            return None
        n = int_value(x)
        if n is not None:
            return n
        if x.get('k') == 'null':
            return 0
        v = local_name(x)
        if v is not None:
            val = _env_get(env, v)
            return val if isinstance(val, int) else None
        if x.get('k') == 'un' and x.get('op') == '!':
            a = self.const(x['e'], env)
            return None if a is None else int(not a)
        if x.get('k') == 'bin' and x.get('op') in ('==', '!=', '<', '>', '<=', '>=', '&&', '||'):
            a, b = self.const(x['l'], env), self.const(x['r'], env)
            if x['op'] == '&&' and (a == 0 or b == 0):
                return 0
            if x['op'] == '||' and ((a is not None and a != 0) or (b is not None and b != 0)):
                return 1
            if a is None or b is None:
                return None
            return int({'==': a == b, '!=': a != b, '<': a < b, '>': a > b, '<=': a <= b, '>=': a >= b,
                        '&&': bool(a and b), '||': bool(a or b)}[x['op']])
        if x.get('k') == 'cond':
            c = self.const(x['c'], env)
            if c is not None:
                return self.const(x['a'] if c else x['b'], env)
            a, b = self.const(x['a'], env), self.const(x['b'], env)
            return a if a == b else None
        return None

    def edge(self, blk, si, s):
        armed, res, env, taint = s
        for (op, lc, rc, l, r) in _cond_atoms(blk, si):
            if op == 'const':
                if lc == 'False':
                    return None
                continue
            v = local_name(l)
            if v is None or not rc.lstrip('-').isdigit():
                continue
            n = int(rc)
            val = _env_get(env, v)
            if isinstance(val, int):
                if not eval('%d %s %d' % (val, op, n)):
                    return None
            elif op == '==':
                env = _env_set(env, v, n)
            if res == ('v', v) and (op, rc) in self.FAILED:
                armed = False                    # the call that handed the deadline to the kernel reported failure
        return (armed, res, env, taint)

    def transfer(self, e, s):
        armed, res, env, taint = s
        ev = e['ev']
        if ev == 'decl':
            nm = e['name']
            return (armed, None if res == ('v', nm) else res, frozenset(x for x in env if x[0] != nm), taint - {nm})
        if ev == 'store':
            v = local_name(e['lhs'])
            rhs = e.get('rhs')
            tainted = rhs is not None and self.derives(rhs, taint)
            if v is not None:
                r = strip(rhs) if rhs is not None else None
                n = self.const(rhs, env) if (e.get('op') == '=' and rhs is not None) else None
                env = _env_set(env, v, n)
                if e.get('op') == '=':
                    taint = (taint | {v}) if tainted else (taint - {v})
                elif tainted:
                    taint = taint | {v}
                if isinstance(r, dict) and r.get('k') == 'call' and res == ('x', self._sig(r)):
                    res = ('v', v)
                elif res == ('v', v):
                    res = None
                return (armed, res, env, taint)
            root = var_of(strip_dots(e['lhs']))
            if root is not None and root.get('vk') in ('local', 'param') and tainted:
                taint = taint | {root['name']}
            return (armed, res, env, taint)
        if ev == 'call':
            if 'fnexpr' in e:
                return s
            c, args = e.get('callee'), e.get('args', [])
            if c in COPY_CALLS and len(args) >= 2:
                if self.derives(args[1], taint):
                    dst = var_of(strip_dots(strip(args[0])['e'])) if isinstance(strip(args[0]), dict) and strip(args[0]).get('k') == 'addr' else var_of(args[0])
                    if dst is not None:
                        taint = taint | {dst['name']}
                return (armed, res, env, taint)
            if c in PURE_CALLS or c in LIST_PRIMS or callee_of(self.prog, self.g, e) is not None:
                return (armed, res, env, taint)
            if any(self.derives(a, taint) for a in args):
                return (True, ('x', self._sig(e)), env, taint)
            if res is not None and res[0] == 'x':
                res = None
            return (armed, res, env, taint)
        return s


# --------------------------------------------------------------------------
# R-C06h: integer types of round values (stamp, counter and what carries a round from one to the other)
# --------------------------------------------------------------------------

_QUALS = ('const', 'volatile', 'register', 'restrict', '__restrict', '_Atomic', 'static', 'extern')
_FIXED = re.compile(r'^(?:(u)_?int|(__u)|(__s)|int)(?:_least)?(8|16|32|64)(?:_t)?$')
_NAMED = {'size_t': (64, False), 'ssize_t': (64, True), 'uintptr_t': (64, False), 'intptr_t': (64, True), 'ptrdiff_t': (64, True),
          'uintmax_t': (64, False), 'intmax_t': (64, True), 'off_t': (64, True), 'time_t': (64, True),
          'u_char': (8, False), 'u_short': (16, False), 'u_int': (32, False), 'u_long': (64, False),
          'uchar': (8, False), 'ushort': (16, False), 'uint': (32, False), 'ulong': (64, False)}


def _basic_int(toks):
    """(bits, signed) of a type spelled with the C keywords only (`unsigned short int`, `long unsigned`, `signed`), LP64"""
    if not toks or any(t not in ('unsigned', 'signed', 'char', 'short', 'int', 'long', '__signed__', '__signed') for t in toks):
        return None
    signed = 'unsigned' not in toks
    if 'char' in toks:
        return (8, signed)
    if 'short' in toks:
        return (16, signed)
    if 'long' in toks:
        return (64, signed)
    return (32, signed)


def _typedefs(prog):
    """alias name -> spelled definition, for the integer type aliases the library itself declares (`typedef uint32_t iv_round_t;`).
    The facts give the type of an expression as it is spelled; what an alias stands for is not in them (wanted core change), so the
    declarations are read from the headers and sources of the tree."""
    cached = prog.__dict__.get('_h06_typedefs')
    if cached is not None:
        return cached
    import os
    from .. import core as _core
    out = {}
    src = os.path.join(_core.REPO, 'src')
    for base, _dirs, files in os.walk(src):
        for fn in files:
            if not fn.endswith(('.h', '.c')):
                continue
            try:
                text = open(os.path.join(base, fn), errors='replace').read()
            except OSError:
                continue
            if 'typedef' not in text:
                continue
            for m in re.finditer(r'\btypedef\s+([A-Za-z_][\w\s]*?)\s+([A-Za-z_]\w*)\s*;', text):
                out.setdefault(m.group(2), set()).add(' '.join(m.group(1).split()))
    prog.__dict__['_h06_typedefs'] = out
    return out


def int_ctype(prog, name, size=None, depth=0):
    """canonical integer type of a spelled type: ('i', bits, signed) when the spelling resolves to a C integer type (keywords, the
    <stdint.h>/<sys/types.h> names, an alias declared in the tree); ('n', spelling) for anything else (compared by spelling only).
    `size` (bytes, from the record layout) overrides the width of a resolved type: the layout is what the compiler laid out."""
    if not name:
        return ('n', '?')
    toks = [t for t in str(name).replace('*', ' * ').split() if t not in _QUALS]
    sp = ' '.join(toks)
    r = None
    if '*' not in toks and '[' not in sp and '(' not in sp:
        r = _basic_int(toks)
        if r is None and len(toks) == 1:
            m = _FIXED.match(toks[0])
            if m:
                r = (int(m.group(4)), not (m.group(1) or m.group(2)))
            elif toks[0] in _NAMED:
                r = _NAMED[toks[0]]
            elif depth < 6:
                defs = _typedefs(prog).get(toks[0]) or ()
                rs = {int_ctype(prog, d, None, depth + 1) for d in defs}
                if len(rs) == 1 and list(rs)[0][0] == 'i':
                    r = list(rs)[0][1:]
    if r is None:
        return ('n', sp) if size is None else ('n', sp, size * 8)
    return ('i', size * 8 if size else r[0], r[1])


def ctype_text(c):
    if c[0] == 'i':
        return '%s %d-bit integer' % ('signed' if c[2] else 'unsigned', c[1])
    return '`%s`' % c[1]


def field_ctype(prog, key):
    fd = _member_type(prog, key)
    if not fd:
        raise AnalysisBroken('no layout facts for %s.%s' % key)
    return int_ctype(prog, fd.get('type'), fd.get('size'))


def field_whole(prog, key):
    """the member occupies a whole object of its type: no other member of its (non-union) record starts inside it (two bit-fields
    that share a storage unit do)"""
    rec = prog.records.get(key[0]) or {}
    fd = _member_type(prog, key)
    if rec.get('union') or not fd or fd.get('offset') is None or not fd.get('size'):
        return True
    lo, hi = fd['offset'], fd['offset'] + fd['size']
    return not any(o is not fd and o.get('offset') is not None and lo <= o['offset'] < hi for o in rec.get('fields') or ())


_VALUE_OPS = ('+', '-')
_CMP_OPS = ('==', '!=', '<', '<=', '>', '>=')


def value_nodes(x):
    """the typed nodes through which the *value* of expression x flows unchanged (up to +-constant): variables, member reads, casts to a
    non-pointer type, results of calls; through loads, parentheses, `?:` arms, ++/--, nested assignments and + / -.  Comparisons,
    logical operators, call arguments and array indices do not carry the value."""
    while isinstance(x, dict) and x.get('k') in ('load', 'paren', 'stmtexpr') and 'e' in x:
        x = x['e']
    if not isinstance(x, dict):
        return
    k = x.get('k')
    if k == 'cast':
        if '*' in str(x.get('to', '')):
            return
        yield x
        yield from value_nodes(x.get('e'))
    elif k in ('var', 'member', 'call', 'deref', 'index'):
        yield x
    elif k == 'incdec':
        yield from value_nodes(x.get('e'))
    elif k == 'assign':
        yield from value_nodes(x.get('l'))
        yield from value_nodes(x.get('r'))
    elif k == 'cond':
        yield from value_nodes(x.get('a'))
        yield from value_nodes(x.get('b'))
    elif k == 'bin' and x.get('op') in _VALUE_OPS:
        yield from value_nodes(x.get('l'))
        yield from value_nodes(x.get('r'))


def node_type(n):
    k = n.get('k')
    if k == 'cast':
        return n.get('to')
    return n.get('type')


def describe_node(n):
    k = n.get('k')
    if k == 'cast':
        return 'cast (%s) of %s' % (n.get('to'), canon(n.get('e')))
    if k == 'call':
        return 'result of %s()' % (n.get('callee') or canon(n.get('fnexpr')))
    if k == 'var' and str(n.get('name', '')).startswith('$ret'):
        return 'result of an inlined helper'
    return canon(n)


class RoundTypes:
    """Flow-insensitive classification of the round values of one inlined root: a *carrier* is a local (also: a parameter of an
    inlined helper, the result temporary of one) that is assigned an expression whose value comes from a task's round stamp ('S'),
    from the round counter ('C') or from another carrier."""

    def __init__(self, prog, g):
        self.prog, self.g = prog, g
        self.carriers = {}           # name -> set of 'S' / 'C'
        self.defs = {}               # name -> [(store event, lhs var node)]
        stores = [e for e in g.events() if e['ev'] == 'store' and e.get('op') == '=' and 'rhs' in e and local_name_exact(e['lhs'])]
        changed = True
        while changed:
            changed = False
            for e in stores:
                n = local_name_exact(e['lhs'])
                t = self.tags(e['rhs'])
                if t - self.carriers.get(n, set()):
                    self.carriers[n] = self.carriers.get(n, set()) | t
                    changed = True
        for e in stores:
            n = local_name_exact(e['lhs'])
            if n in self.carriers and self.tags(e['rhs']):
                self.defs.setdefault(n, []).append(e)

    def tags(self, x):
        out = set()
        for n in value_nodes(x):
            if n.get('k') == 'member':
                key = (n.get('record'), n.get('field'))
                if key == STAMP:
                    out.add('S')
                elif key == COUNTER:
                    out.add('C')
            elif n.get('k') == 'var':
                out |= self.carriers.get(n.get('name'), set())
        return out

    def comparisons(self):
        """[(bin node, loc, origin event or None)] of the comparisons one side of which is a stamp value and the other a counter value"""
        out = []

        def scan(x, loc, e):
            for n in walk(x):
                if n.get('k') == 'bin' and n.get('op') in _CMP_OPS:
                    a, b = self.tags(n.get('l')), self.tags(n.get('r'))
                    if ('S' in a and 'C' in b) or ('C' in a and 'S' in b):
                        out.append((n, n.get('loc') or loc, e))
        for blk in self.g.blocks.values():
            for e in blk.events:
                if e['ev'] in ('store', 'call', 'ret'):
                    for key in ('rhs', 'args', 'value', 'fnexpr'):
                        if key in e and isinstance(e[key], (dict, list)):
                            scan(e[key], e.get('loc'), e)
            if blk.term and isinstance(blk.term.get('cond'), dict):
                scan(blk.term['cond'], blk.term.get('loc') or (blk.events[-1].get('loc') if blk.events else None), None)
        return out


def local_name_exact(x):
    """name of the local / parameter when x is that variable itself (no cast, no load in between), else None"""
    while isinstance(x, dict) and x.get('k') == 'paren':
        x = x.get('e')
    if isinstance(x, dict) and x.get('k') == 'var' and x.get('vk') in ('local', 'param'):
        return x['name']
    return None
