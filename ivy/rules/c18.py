"""C18 — memory/descriptor hygiene.

Decided statically: ownership / pairing / bounds clauses (see DESIGN §3 C18).
Not decided: global memory safety and leak-freedom over histories.
"""
from ..core import (names_of, same_value, AnalysisBroken, Inliner, canon, strip, strip_load, last_member, must_pass, relpath,
                    norm_cond, walk, forward, lvalue_steps, lvalue_root, evloc)
from .. import generic
from ..analyses import (is_call, holding, atoms_imply, atoms_reading, path_to, describe, exits_of,
                        delta_analysis, is_fail)
from .c11 import null_rule

ANCHOR_FILES = ('iv_main_posix.c', 'iv_fd.c', 'iv_fd_epoll.c', 'iv_fd_poll.c', 'iv_timer.c', 'iv_tls.c',
                'iv_event_raw_posix.c', 'iv_fd_pump.c', 'iv_thread_posix.c', 'iv_event.c', 'iv_popen.c',
                'iv_work.c', 'iv_task.c')

ACQUIRE = {'malloc': 'mem', 'calloc': 'mem', 'epollfd_grab': 'fd', 'epoll_create': 'fd', 'epoll_create1': 'fd',
           'timerfd_create': 'fd', 'eventfd_grab': 'fd', 'inotify_init': 'fd'}
RELEASE = {'mem': ('free',), 'fd': ('close',)}

MODULE_PAIRS = {
    'iv_fd_init': ('iv_fd_deinit', None),
    'iv_timer_init': ('iv_timer_deinit', None),
    'iv_event_init': ('iv_event_deinit', None),
    'iv_tls_thread_init': ('iv_tls_thread_deinit', None),
    'iv_task_init': (None, 'initialises an empty list head; acquires nothing'),
}


def is_fd_index(x):
    x = strip(x)
    if isinstance(x, dict) and x.get('k') == 'member' and x['field'] == 'index':
        b = strip(x['base'])
        return isinstance(b, dict) and b.get('k') == 'member' and (b.get('record'), b['field']) == ('iv_fd_', 'u')
    return False


def subscripts(e):
    """index nodes evaluated by the event itself (load path / store lvalue)."""
    roots = []
    if e['ev'] == 'load':
        roots.append(e['e'])
    elif e['ev'] == 'store':
        roots.append(e['lhs'])
    out = []
    for r in roots:
        x = r
        # walk the access path only (not nested loads: they are their own events)
        while isinstance(x, dict):
            k = x.get('k')
            if k == 'index':
                out.append(x)
                x = strip_load(x['base']) if strip_load(x['base']).get('k') in ('member', 'index') else None
            elif k == 'member':
                x = x['base'] if not x['arrow'] else None
            elif k in ('cast',):
                x = x['e']
            else:
                break
    return out


def run(ctx):
    prog = ctx.prog
    ctx.rule('R-C18a.method', 'per poll method: every resource (memory, descriptor) stored into the method state is '
                              'released by deinit; init failure paths release what they acquired', floor=5)
    ctx.rule('R-C18a.module', 'every per-thread module initialiser called by iv_init has its de-initialiser called by '
                              'the thread tear-down on every path; the state block is freed last, after the TLS slot is cleared', floor=6)
    ctx.rule('R-C18a.refcnt', 'shared kick descriptor: reference count balanced on every path incl. failure paths; '
                              'descriptor created on 0->1 and closed on 1->0 under the mutex', floor=3)
    ctx.rule('R-C18b', 'INDEX-GUARD: every subscript by a descriptor\'s poll-array index is on a path that implies '
                       'index != -1 (or directly follows its assignment from the slot counter)', floor=6)
    ctx.rule('R-C18d', 'registered descriptors are made close-on-exec and non-blocking on every success path', floor=4)
    ctx.rule('R-C18e', 'public/private twin structs agree on the user-visible prefix (names, types, offsets) and the '
                       'private struct fits in the public one', floor=3)
    ctx.rule('R-C18f', 'no pointer to a dead frame: an address of a local stored into heap/TLS state is cleared on every exit', floor=2)
    ctx.rule('R-C18g', 'NULL-CONTRADICTION in the anchored files', floor=8)
    ctx.rule('R-C18h', 'INIT-COMPLETE: every private field a library function may read is written by registration or the INIT function', floor=30)

    ctx.section(index_guard)
    ctx.section(fd_modes)
    ctx.section(twins)
    ctx.section(dead_frames)
    ctx.section(lambda c: null_rule(c, 'R-C18g', ANCHOR_FILES))
    ctx.section(lambda c: generic.init_complete(c, 'R-C18h', kinds={k['rec'] for k in generic.OBJECT_KINDS} - {'iv_inotify', 'iv_inotify_watch'}))
    ctx.section(method_resources, prog)
    ctx.section(module_pairs, prog)
    ctx.section(refcount, prog)
    ctx.rule('R-C18c', 'ARRAY-BOUND: every subscript with a non-constant index carries a proof: dominating range test against the constant '
                       'bound, mask below the bound, loop index below the occupied/returned count, or the per-descriptor slot guard', floor=12)
    ctx.rule('R-C18c.k', 'kernel/libc writes are bounded by the array they target: read lengths, (v)snprintf sizes, sscanf widths, and the '
                         'epoll batch capacity is ARRAY_SIZE of the very array passed', floor=8)
    ctx.rule('R-C18i', 'per-thread module state that owns library-allocated records has a tear-down hook visiting them; thread init and '
                       'tear-down walk the same registration list', floor=6)
    ctx.rule('R-C18a.radix', 'timer radix tree tear-down frees exactly the library\'s own nodes: a level is removed with the depth already '
                             'lowered, the recursion passes depth - 1 and only descends while depth is non-zero', floor=3)
    ctx.section(radix)
    ctx.section(array_bounds)
    ctx.section(kernel_writes)
    ctx.section(tls_hooks)


def index_guard(ctx):
    prog = ctx.prog
    for f in sorted(prog.all_funcs(), key=lambda f: f.q):
        sites = []
        for e in f.events():
            for ix in subscripts(e):
                if is_fd_index(ix['idx']):
                    sites.append((e, ix))
        if not sites:
            continue
        hd = holding(f)
        for (e, ix) in sites:
            A = hd.get((e['_b'], e['_i']), frozenset())
            lc = canon(ix['idx'])
            ok = atoms_imply(A, '!=', lc, '-1') or atoms_imply(A, '>=', lc, '0') \
                or any(a[0] == 'from++' and a[1] == lc for a in A)
            ctx.ob('R-C18b', '%s:%s' % (f.name, canon(ix)), ok, loc=e['loc'],
                   detail='facts holding here: %s' % (sorted('%s %s %s' % (a[1], a[0], a[2]) for a in A if a[1] == lc) or 'none about the index'),
                   path=None if ok else path_to(f, e), fn=f.q)



def fd_modes(ctx):
    prog = ctx.prog
    for r in ('iv_fd_register', 'iv_fd_register_try'):
        f = prog.fn(r)
        g = Inliner(prog, expand_methods=True, stop=lambda t: t.name in ('iv_fd_set_cloexec', 'iv_fd_set_nonblock')).inline(f)
        res = delta_analysis(g, [])
        okrets = [e for (e, d, rc, p) in res.rets if e is not None and not is_fail(rc)]
        pts = [(e['_b'], e['_i']) for e in okrets]
        if g.ret == 'void':
            pts.append((g.exit, 0))
        if not pts:
            raise AnalysisBroken('%s: no success exit' % r)
        for setter in ('iv_fd_set_cloexec', 'iv_fd_set_nonblock'):
            mp = must_pass(g, lambda e, s=setter: is_call(e, s) and last_member(e['args'][0]) in (('iv_fd_', 'fd'), ('iv_fd', 'fd')))
            ok = all(mp.get(p, False) for p in pts)
            ctx.ob('R-C18d', '%s:%s' % (r, setter), ok, loc=f.loc,
                   detail='%s(fd->fd) on every path to a success return' % setter, fn=f.q)



def twins(ctx):
    prog = ctx.prog
    for pub, priv in (('iv_fd', 'iv_fd_'), ('iv_task', 'iv_task_'), ('iv_timer', 'iv_timer_')):
        rp, rq = prog.records.get(pub), prog.records.get(priv)
        if not rp or not rq or 'fields' not in rp or 'fields' not in rq:
            raise AnalysisBroken('twin records %s/%s not found' % (pub, priv))
        user = [x for x in rp['fields'] if x['name'] != 'pad']
        bad = []
        for i, x in enumerate(user):
            if i >= len(rq['fields']):
                bad.append('%s missing in %s' % (x['name'], priv))
                continue
            y = rq['fields'][i]
            if (x['name'], x['type'], x['offset']) != (y['name'], y['type'], y['offset']):
                bad.append('%s %s@%d vs %s %s@%d' % (x['type'], x['name'], x['offset'], y['type'], y['name'], y['offset']))
        if rq['size'] > rp['size']:
            bad.append('sizeof(%s)=%d > sizeof(%s)=%d' % (priv, rq['size'], pub, rp['size']))
        ctx.ob('R-C18e', '%s/%s' % (pub, priv), not bad, loc=rq['loc'],
               detail='; '.join(bad) or '%d user fields agree; %d <= %d bytes' % (len(user), rq['size'], rp['size']))



def dead_frames(ctx):
    prog = ctx.prog
    for f in sorted(prog.all_funcs(), key=lambda f: f.q):
        for e in list(f.events()):
            if e['ev'] != 'store' or e.get('op') != '=':
                continue
            r = strip(e['rhs'])
            if not (isinstance(r, dict) and r.get('k') == 'addr'):
                continue
            v = strip(r['e'])
            if not (isinstance(v, dict) and v.get('k') == 'var' and v.get('vk') == 'local'):
                continue
            l = strip(e['lhs'])
            if not (isinstance(l, dict) and l.get('k') == 'member'):
                continue
            root = lvalue_root(e['lhs'])
            if root is not None and root.get('vk') in ('local', 'param'):
                continue   # a field of another local
            lc = canon(e['lhs'])
            base = strip(l['base'])
            basevar = base['name'] if isinstance(base, dict) and base.get('k') == 'var' else None
            def tr(x, s, lc=lc, e=e):
                if x is e:
                    return False
                if s is None:
                    return None
                if x['ev'] == 'store' and canon(x['lhs']) == lc:
                    rr = strip(x.get('rhs')) if 'rhs' in x else None
                    return not (isinstance(rr, dict) and rr.get('k') == 'addr')
                return s
            def edge(blk, si, s, basevar=basevar):
                if s is False and basevar and blk.term and blk.term.get('cond') is not None and len(blk.succ) == 2:
                    for (op, a, b, _, _) in norm_cond(blk.term['cond'], si == 0):
                        if op == '==' and a == basevar and b == '0':
                            return True      # the holder object itself is gone (unregistered)
                return s
            def jn(a, b):
                if a is None:
                    return b
                if b is None:
                    return a
                return a and b
            _, ev_in = forward(f, None, tr, jn, edge=edge, start=e['_b'])
            pts = [(pb, pi) for (pb, pi, _) in exits_of(f)] + [(f.exit, 0)]
            bad = [p for p in pts if ev_in.get(p) is False]
            ctx.ob('R-C18f', '%s:%s' % (f.name, lc), not bad, loc=e['loc'],
                   detail='%s = &%s (a local) is overwritten with a non-stack value on every path to return' % (lc, v['name']), fn=f.q)


def _acq_kind(expr, tainted):
    for x in walk(expr):
        if x.get('k') == 'call' and x.get('callee') in ACQUIRE:
            return ACQUIRE[x['callee']]
    v = strip(expr)
    if isinstance(v, dict) and v.get('k') == 'var' and v['name'] in tainted:
        return tainted[v['name']]
    return None


def method_resources(ctx, prog):
    tables = prog.method_tables()
    done = set()
    for t, slots in sorted(tables.items()):
        if not slots.get('init') or not slots.get('deinit'):
            ctx.ob('R-C18a.method', '%s:init/deinit' % t, False, loc=prog.globals[t]['loc'], detail='init and deinit slots are mandatory')
            continue
        # functions of this method (slot closure) + lazily acquiring helpers
        fns = []
        for slot, v in slots.items():
            if v and v[0] != 'str':
                f = prog.resolve(v[0], v[1])
                if f is not None:
                    fns.append(f)
        resources = {}   # canon of state field -> (kind, store event, fn)
        inl = Inliner(prog, stop=lambda t: t.name in ACQUIRE)
        for f in fns:
            g = inl.inline(f)
            tainted = {}
            # flow-insensitive: a variable that is ever assigned an acquirer's result
            changed = True
            while changed:
                changed = False
                for e in g.events():
                    nm = k = None
                    if e['ev'] == 'store' and e.get('op') == '=' and strip(e['lhs']).get('k') == 'var':
                        nm, k = strip(e['lhs'])['name'], _acq_kind(e['rhs'], tainted)
                    elif e['ev'] == 'decl' and 'init' in e:
                        nm, k = e['name'], _acq_kind(e['init'], tainted)
                    if nm and k and tainted.get(nm) != k:
                        tainted[nm] = k
                        changed = True
            for e in g.events():
                if e['ev'] == 'store' and e.get('op') == '=' and strip(e['lhs']).get('k') != 'var':
                    k = _acq_kind(e['rhs'], tainted)
                    st_ = lvalue_steps(e['lhs'])
                    if k and st_ and st_[-1][0] == 'iv_state':
                        resources.setdefault(canon(e['lhs']), (k, e, f))
        if not resources:
            raise AnalysisBroken('method %s: no acquired resource found in its state' % t)
        fde = prog.resolve(*slots['deinit'])
        gde = inl.inline(fde)
        for lc, (kind, se, sf) in sorted(resources.items()):
            key = (fde.q, lc)
            def released(e, lc=lc, kind=kind):
                return is_call(e, RELEASE[kind]) and canon(e['args'][0]) == lc
            def tr(e, s):
                return True if released(e) else s
            def edge(blk, si, s, lc=lc):
                if blk.term and blk.term.get('cond') is not None and len(blk.succ) == 2:
                    for (op, a, b, _, _) in norm_cond(blk.term['cond'], si == 0):
                        if a == lc and ((op == '==' and b in ('-1', '0')) or (op == '<' and b == '0')):
                            return True     # nothing was acquired
                return s
            _, ev_in = forward(gde, False, tr, lambda a, b: a and b, edge=edge)
            ok = bool(ev_in.get((gde.exit, 0)))
            ctx.ob('R-C18a.method', '%s:%s released by deinit' % (t.replace('iv_fd_poll_method_', ''), lc), ok, loc=se['loc'],
                   detail='%s acquired in %s is passed to %s in %s on every path (or tested as never acquired)'
                          % (lc, sf.name, '/'.join(RELEASE[kind]), fde.name), fn=fde.q)
        # init failure paths
        fi = prog.resolve(*slots['init'])
        if fi.q in done:
            continue
        done.add(fi.q)
        gi = inl.inline(fi)
        def tr2(e, S):
            if e['ev'] == 'store' and e.get('op') == '=':
                lc = canon(e['lhs'])
                if lc in resources:
                    return S | {lc}
            if e['ev'] == 'call':
                for lc, (kind, _, _) in resources.items():
                    if is_call(e, RELEASE[kind]) and canon(e['args'][0]) == lc:
                        S = S - {lc}
            return S
        def edge2(blk, si, S):
            if blk.term and blk.term.get('cond') is not None and len(blk.succ) == 2:
                for (op, a, b, _, _) in norm_cond(blk.term['cond'], si == 0):
                    if a in S and ((op == '==' and b in ('0', '-1')) or (op == '<' and b == '0')):
                        S = S - {a}
            return S
        # local descriptor variables acquired but not yet stored are tracked the same way
        _, ev_in = forward(gi, frozenset(), tr2, lambda a, b: a | b, edge=edge2)
        nfail = 0
        for (pb, pi, e) in exits_of(gi):
            v = strip(e.get('value')) if 'value' in e else None
            if isinstance(v, dict) and v.get('k') == 'int' and v['v'] != 0:
                nfail += 1
                S = ev_in.get((pb, pi), frozenset())
                ctx.ob('R-C18a.method', '%s:failure return releases' % fi.name, not S, loc=e['loc'],
                       detail='still held at this failing return: %s' % (sorted(S) or 'nothing'), fn=fi.q)
        if nfail == 0:
            raise AnalysisBroken('%s: no failing return found' % fi.name)


def module_pairs(ctx, prog):
    fi = prog.fn('iv_init')
    fd = prog.fn('__iv_deinit')
    gd = Inliner(prog, depth=0).inline(fd)
    state = None
    for e in fi.events():
        if e['ev'] == 'store' and any(c.get('callee') in ('calloc', 'malloc') for c in walk(e.get('rhs', {})) if c.get('k') == 'call'):
            state = canon(e['lhs'])
    if state is None:
        raise AnalysisBroken('iv_init: allocation of the state block not found')
    for e in fi.events():
        if e['ev'] != 'call' or 'callee' not in e:
            continue
        if not e['args'] or canon(e['args'][0]) != state:
            continue
        nm = e['callee']
        if nm not in MODULE_PAIRS:
            ctx.ob('R-C18a.module', 'iv_init:%s' % nm, False, loc=e['loc'],
                   detail='module initialiser without an entry in the init/deinit table (does it acquire per-thread resources?)', fn=fi.q)
            continue
        partner, reason = MODULE_PAIRS[nm]
        if partner is None:
            ctx.exempt('R-C18a.module', nm, reason)
            ctx.ob('R-C18a.module', 'iv_init:%s' % nm, True, loc=e['loc'], detail='no tear-down needed: ' + reason, fn=fi.q)
            continue
        mp = must_pass(gd, lambda x, p=partner: is_call(x, p))
        ctx.ob('R-C18a.module', 'iv_init:%s' % nm, bool(mp.get((gd.exit, 0))), loc=e['loc'],
               detail='%s is called by __iv_deinit on every path' % partner, fn=fd.q)
    # free last, slot cleared first
    frees = [e for e in fd.events() if is_call(e, 'free')]
    if len(frees) != 1:
        raise AnalysisBroken('__iv_deinit: expected exactly one free')
    fr = frees[0]
    later = [e for e in fd.events() if e['ev'] == 'call' and e is not fr and (e['_b'], e['_i']) > (fr['_b'], fr['_i']) and e['_b'] == fr['_b']]
    after = must_pass(fd, lambda x: x['ev'] in ('call', 'store', 'load') and x is not fr, start_event=fr)
    used_after = [x for x in fd.events() if x is not fr and after.get((x['_b'], x['_i'])) is not None and x['ev'] in ('call', 'store', 'load')]
    ctx.ob('R-C18a.module', '__iv_deinit:free-last', not used_after, loc=fr['loc'],
           detail='nothing is executed after the state block is freed', fn=fd.q)
    mp = must_pass(fd, lambda x: is_call(x, 'pthr_setspecific') and canon(x['args'][1]) in ('NULL', '0'))
    ctx.ob('R-C18a.module', '__iv_deinit:slot-cleared-before-free', bool(mp.get((fr['_b'], fr['_i']))), loc=fr['loc'],
           detail='the TLS slot is cleared before the state block is freed', fn=fd.q)
    # the thread-exit destructor runs the same tear-down
    fdes = prog.fn('iv_state_destructor')
    mp = must_pass(fdes, lambda x: is_call(x, '__iv_deinit'))
    ctx.ob('R-C18a.module', 'iv_state_destructor:runs-deinit', bool(mp.get((fdes.exit, 0))), loc=fdes.loc,
           detail='the TLS destructor runs __iv_deinit', fn=fdes.q)
    # ... and is the destructor registered for the key
    reg = [e for e in fi.events() if is_call(e, 'pthr_key_create')]
    ok = bool(reg) and all(canon(e['args'][1]) == 'iv_state_destructor' for e in reg)
    ctx.ob('R-C18a.module', 'iv_init:destructor-registered', ok, loc=reg[0]['loc'] if reg else fi.loc,
           detail='iv_state_destructor is the TLS key destructor', fn=fi.q)


def refcount(ctx, prog):
    ctr = ('global', 'iv_active_fd_refcount')
    tables = prog.method_tables()
    seen = set()
    for t, slots in sorted(tables.items()):
        on, off = slots.get('event_rx_on'), slots.get('event_rx_off')
        if not on or not off:
            continue
        fon, foff = prog.resolve(*on), prog.resolve(*off)
        if fon.q in seen:
            continue
        seen.add(fon.q)
        inl = Inliner(prog)
        gon, goff = inl.inline(fon), inl.inline(foff)
        ron = delta_analysis(gon, [ctr])
        roff = delta_analysis(goff, [ctr])
        if not any(d[0] for (_, d, _, _) in ron.rets):
            raise AnalysisBroken('%s does not touch the shared descriptor reference count' % fon.name)
        fails = [(e, d) for (e, d, rc, p) in ron.rets if is_fail(rc)]
        succ = {d for (e, d, rc, p) in ron.rets if not is_fail(rc)}
        offd = {d for (e, d, rc, p) in roff.rets} | {d for (d, _, _) in roff.exit_states}
        bad = [(e, d) for (e, d) in fails if any(d)]
        e0 = bad[0][0] if bad else (fails[0][0] if fails else None)
        ctx.ob('R-C18a.refcnt', '%s:failure-return' % fon.name, not bad, loc=e0['loc'] if e0 else fon.loc,
               detail='net reference count change on the failing return: %s' % sorted({d[0] for e, d in fails}),
               path=path_to(gon, e0) if bad else None, fn=fon.q)
        ctx.ob('R-C18a.refcnt', '%s/%s:balance' % (fon.name, foff.name), succ == {(1,)} and offd == {(-1,)}, loc=foff.loc,
               detail='enable %s, disable %s' % (sorted(succ), sorted(offd)), fn=foff.q)
        # every access to the count and to the descriptor creation/close is under the mutex
        from ..analyses import locksets, held
        for g in (gon, goff):
            ls = locksets(g)
            for e in g.events():
                if e['ev'] == 'store' and lvalue_root(e['lhs']) is not None and lvalue_root(e['lhs'])['name'] == 'iv_active_fd_refcount':
                    ctx.ob('R-C18a.refcnt', '%s:count-under-mutex' % g.name, 'iv_fd_epoll_active_fd_mutex' in held(ls.get((e['_b'], e['_i']))),
                           loc=e['loc'], detail='reference count changed with the mutex held', fn=g.name)


# --------------------------------------------------------------------------
# R-C18c / R-C18c' : bounds of subscripts and of kernel/libc writes
# --------------------------------------------------------------------------

TYPE_SIZE = {'char': 1, 'unsigned char': 1, 'uint8_t': 1, 'int': 4, 'unsigned int': 4, 'uint32_t': 4, 'uint64_t': 8, 'long': 8}
BOUND_EXEMPT = {
    ('iv_fd_poll_notify_fd', 'st->u.poll.pfds[st->u.poll.num_regd_fds]'):
        'slot count: one slot per registered descriptor with a handler; registration is fatal for fd >= IV_FD_POLL_MAXFD, and distinct registered '
        'descriptors have distinct numbers, so num_regd_fds < MAXFD (stated assumption, DESIGN R-C18b)',
    ('iv_fd_poll_notify_fd', 'st->u.poll.fds[st->u.poll.num_regd_fds]'): 'same slot-count argument',
}


def _local_bounds(f):
    out = {}
    for e in f.events():
        if e['ev'] == 'decl' and 'bound' in e:
            out[e['name']] = (e['bound'], TYPE_SIZE.get(e['type'].split('[')[0].strip(), None))
    return out


def array_bounds(ctx):
    prog = ctx.prog
    n = 0
    for f in sorted(prog.all_funcs(), key=lambda f: f.q):
        sites = []
        for e in f.events():
            if e['ev'] not in ('load', 'store'):
                continue
            x = e['e'] if e['ev'] == 'load' else e['lhs']
            y = x
            while isinstance(y, dict):
                k = y.get('k')
                if k == 'index':
                    if strip(y['idx']).get('k') != 'int':
                        sites.append((e, y))
                    y = strip_load(y['base']) if strip_load(y['base']).get('k') in ('member', 'index') else None
                elif k == 'member':
                    y = y['base'] if not y['arrow'] else None
                elif k == 'cast':
                    y = y['e']
                else:
                    break
        if not sites:
            continue
        hd = holding(f)
        seen = set()
        for (e, ix) in sites:
            key = canon(ix)
            if key in seen:
                continue
            seen.add(key)
            n += 1
            inst = '%s:%s' % (f.name, key)
            idx = strip(ix['idx'])
            ic = canon(idx)
            A = hd.get((e['_b'], e['_i']), frozenset())
            bound = ix.get('bound')
            proof = None
            if is_fd_index(idx):
                proof = 'per-descriptor slot index: INDEX-GUARD (R-C18b)'
            elif (f.name, key) in BOUND_EXEMPT:
                ctx.exempt('R-C18c', inst, BOUND_EXEMPT[(f.name, key)])
                proof = 'exempt: ' + BOUND_EXEMPT[(f.name, key)]
            elif bound is not None:
                lo = atoms_imply(A, '>=', ic, '0') or _nonneg_loopvar(f, ic)
                hi = any(a[1] == ic and a[0] == '<' and a[2].lstrip('-').isdigit() and int(a[2]) <= bound for a in A) or \
                    any(a[1] == ic and a[0] == '<=' and a[2].lstrip('-').isdigit() and int(a[2]) < bound for a in A)
                if lo and hi:
                    proof = 'range test against the constant bound %d dominates the access' % bound
                else:
                    m = _masked_def(f, ic, bound)
                    if m:
                        proof = m
            else:
                # heap / VLA array: loop variable bounded by the element count the array was sized or filled with
                cnts = [a[2] for a in A if a[1] == ic and a[0] == '<']
                base = canon(strip_load(ix['base']))
                for c in cnts:
                    if c.endswith('num_regd_fds'):
                        proof = 'loop index below the number of occupied slots (%s)' % c
                    else:
                        d = _kernel_count(f, c, base)
                        if d:
                            proof = d
            ctx.ob('R-C18c', inst, proof is not None, loc=e['loc'],
                   detail=proof or 'no range test, mask, bounded loop or slot guard found for index `%s` (bound %s); facts here: %s'
                          % (ic, bound, sorted('%s %s %s' % (a[1], a[0], a[2]) for a in A if a[1] == ic)),
                   path=None if proof else path_to(f, e), fn=f.q)
    if n < 12:
        raise AnalysisBroken('variable-index subscripts: %d found, 14 confirmed' % n)


def _nonneg_loopvar(f, name):
    inits = [e for e in f.events() if e['ev'] == 'store' and canon(e['lhs']) == name and e['op'] == '=']
    steps = [e for e in f.events() if e['ev'] == 'store' and canon(e['lhs']) == name and e['op'] != '=']
    return bool(inits) and all(strip(e['rhs']).get('k') == 'int' and strip(e['rhs'])['v'] >= 0 for e in inits) and all(e['op'] in ('++', '+=') for e in steps)


def _masked_def(f, name, bound):
    defs = [e for e in f.events() if e['ev'] == 'store' and canon(e['lhs']) == name]
    if not defs:
        return None
    for e in defs:
        r = strip(e.get('rhs')) if 'rhs' in e else None
        if not (isinstance(r, dict) and r.get('k') == 'bin' and r['op'] == '&'):
            return None
        ms = [strip(x)['v'] for x in (r['l'], r['r']) if strip(x).get('k') == 'int']
        if not ms or not (0 <= ms[0] < bound):
            return None
    return 'index is masked with a constant below the bound %d at every definition' % bound


def _kernel_count(f, cntvar, base):
    """cntvar is the result of the wait call that was given `base` and its element count."""
    for e in f.events():
        if e['ev'] == 'store' and canon(e['lhs']) == cntvar and 'rhs' in e:
            c = strip(e['rhs'])
            if isinstance(c, dict) and c.get('k') == 'call' and len(c.get('args', [])) >= 3:
                a1, a2 = c['args'][1], strip(c['args'][2])
                if canon(a1) == base and _is_array_size(a2, base):
                    return 'loop index below the count returned by %s for this very array, which was told its element count' % (c.get('callee'))
    return None


def _is_array_size(x, base):
    if isinstance(x, dict) and x.get('k') == 'bin' and x['op'] == '/':
        l = strip(x['l'])
        if isinstance(l, dict) and l.get('k') == 'sizeof':
            a = l.get('arg', {})
            return 'expr' in a and canon(a['expr']) == base
    return False


def kernel_writes(ctx):
    prog = ctx.prog
    n = 0
    for f in sorted(prog.all_funcs(), key=lambda f: f.q):
        lb = _local_bounds(f)
        for e in f.events():
            if e['ev'] != 'call':
                continue
            nm = e.get('callee')
            if nm == 'read':
                dst, ln = strip(e['args'][1]), strip(e['args'][2])
                if dst.get('k') == 'bin':
                    continue          # offset form: checked by C17 R-C17d
                n += 1
                ok, det = False, ''
                if dst.get('k') == 'var' and dst['name'] in lb:
                    bound, esz = lb[dst['name']]
                    cap = bound * (esz or 1)
                    vals = _possible_values(f, ln)
                    ok = vals is not None and all(v <= cap for v in vals)
                    det = 'length %s <= %d bytes of %s' % (vals, cap, dst['name'])
                elif dst.get('k') == 'addr' and strip(dst['e']).get('k') == 'var':
                    t = strip(dst['e']).get('type', '')
                    sz = TYPE_SIZE.get(t)
                    ok = sz is not None and ln.get('k') == 'int' and ln['v'] <= sz
                    det = 'length %s <= sizeof(%s) = %s' % (canon(ln), t, sz)
                ctx.ob('R-C18c.k', '%s:read(%s)' % (f.name, canon(e['args'][1])), ok, loc=e['loc'], detail=det or 'destination size not established', fn=f.q)
            elif nm in ('snprintf', 'vsnprintf'):
                n += 1
                dst, ln = strip(e['args'][0]), strip(e['args'][1])
                ok = dst.get('k') == 'var' and dst['name'] in lb and ln.get('k') == 'int' and ln['v'] <= lb[dst['name']][0]
                ctx.ob('R-C18c.k', '%s:%s(%s)' % (f.name, nm, canon(e['args'][0])), ok, loc=e['loc'],
                       detail='size argument %s <= array size %s' % (canon(ln), lb.get(dst.get('name'), ('?',))[0]), fn=f.q)
            elif nm == 'sscanf':
                n += 1
                import re as _re
                fmt = strip(e['args'][1])
                widths = [int(w) for w in _re.findall(r'%(\d+)s', fmt.get('v', ''))] if fmt.get('k') == 'str' else None
                unbounded = _re.findall(r'%s', fmt.get('v', '')) if fmt.get('k') == 'str' else ['?']
                dsts = [strip(a) for a in e['args'][2:] if strip(a).get('k') == 'var' and strip(a)['name'] in lb]
                ok = widths is not None and not unbounded and len(dsts) == len(widths) and all(w + 1 <= lb[d['name']][0] for w, d in zip(widths, dsts))
                ctx.ob('R-C18c.k', '%s:sscanf' % f.name, ok, loc=e['loc'], detail='string conversion widths %s fit their destination arrays' % widths, fn=f.q)
    # the epoll wait is told the element count of the array it is given
    for t, slots in sorted(prog.method_tables().items()):
        pf = prog.resolve(*slots['poll'])
        for e in pf.events():
            if e['ev'] == 'call' and e.get('callee') and prog.has_fn(e['callee']):
                callee = prog.fn(e['callee'])
                if any(is_call(x, ('epoll_wait', 'epoll_pwait2')) for x in callee.events()):
                    n += 1
                    base = canon(e['args'][1])
                    ok = _is_array_size(strip(e['args'][2]), base)
                    # and the callee passes both through unchanged
                    for x in callee.events():
                        if is_call(x, ('epoll_wait', 'epoll_pwait2')):
                            ok = ok and canon(x['args'][1]) == callee.params[1]['name'] and canon(x['args'][2]) == callee.params[2]['name']
                    ctx.ob('R-C18c.k', '%s:epoll-batch-size' % pf.name, ok, loc=e['loc'],
                           detail='the kernel is given ARRAY_SIZE(%s) as the capacity of %s' % (base, base), fn=pf.q)
    if n < 8:
        raise AnalysisBroken('sized kernel/libc writes: %d found' % n)


def _possible_values(f, x):
    x = strip(x)
    if x.get('k') == 'int':
        return [x['v']]
    if x.get('k') == 'var':
        vals = []
        for e in f.events():
            if e['ev'] == 'store' and canon(e['lhs']) == x['name'] and 'rhs' in e:
                r = strip(e['rhs'])
                if r.get('k') == 'int':
                    vals.append(r['v'])
                elif r.get('k') == 'cond' and strip(r['a']).get('k') == 'int' and strip(r['b']).get('k') == 'int':
                    vals += [strip(r['a'])['v'], strip(r['b'])['v']]
                else:
                    return None
        return vals or None
    return None


def tls_hooks(ctx):
    """R-C18i: a per-thread module area into which library-allocated records are
    linked must have a deinit_thread hook that visits that field."""
    prog = ctx.prog
    malloced = set()
    for f in prog.all_funcs():
        for e in f.events():
            if e['ev'] in ('store', 'decl'):
                rhs = e.get('rhs') if e['ev'] == 'store' else e.get('init')
                if rhs is not None and any(c.get('callee') in ('malloc', 'calloc') for c in walk(rhs) if c.get('k') == 'call'):
                    lhs = strip(e['lhs']) if e['ev'] == 'store' else e
                    r = lhs.get('record')
                    if r:
                        malloced.add(r)
    users = {}
    for key, g in prog.globals.items():
        if g.get('record') == 'iv_tls_user' and not g.get('ptr') and g.get('init', {}).get('k') == 'init':
            flds = g['init'].get('fields', {})
            users[g['name']] = {k: (canon(v) if v is not None else None) for k, v in flds.items()}
            users[g['name']]['_loc'] = g['loc']
            users[g['name']]['_unit'] = g.get('unit')
    if len(users) < 5:
        raise AnalysisBroken('iv_tls_user instances: %d found, 5 confirmed' % len(users))
    # area record of each user: the record its init_thread hook casts its argument to
    for name, u in sorted(users.items()):
        init = u.get('init_thread')
        area = None
        if init and init not in ('NULL', '0') and prog.has_fn(init):
            fi = prog.fn(init)
            for e in fi.events():
                if e['ev'] == 'decl' and e.get('record') and e.get('ptr'):
                    area = e['record']
        linked = []
        if area:
            for f in prog.all_funcs():
                for e in f.events():
                    if is_call(e, ('iv_list_add', 'iv_list_add_tail')):
                        a0 = strip(e['args'][0])
                        a1 = strip(e['args'][1])
                        lm1 = last_member(a1['e']) if a1.get('k') == 'addr' else None
                        lm0 = last_member(a0['e']) if a0.get('k') == 'addr' else None
                        if lm1 and lm1[0] == area and lm0 and lm0[0] in malloced:
                            linked.append((lm1[1], lm0[0], f, e))
        de = u.get('deinit_thread')
        has_hook = bool(de) and de not in ('NULL', '0', '?') and prog.has_fn(de)
        if not linked:
            ctx.ob('R-C18i', '%s:no-owned-memory' % name, True, loc=u['_loc'],
                   detail='no library-allocated record is linked into this module\'s per-thread area (%s)' % (area or 'no area record'))
            continue
        fld = linked[0][0]
        ok = has_hook
        if ok:
            g = Inliner(prog).inline(prog.fn(de))
            ok = any(x.get('k') == 'member' and last_member(x) == (area, fld) for e in g.events() for x in walk(e))
        ctx.ob('R-C18i', '%s:%s.%s' % (name, area, fld), ok, loc=u['_loc'],
               detail='%s records are linked into %s.%s (%s); the module must have a deinit_thread hook that visits that list: %s'
                      % (linked[0][1], area, fld, linked[0][2].name, de if has_hook else 'MISSING'))
    td = prog.fn('iv_tls_thread_deinit')
    ti = prog.fn('iv_tls_thread_init')
    def walks(f, hook):
        return any(e['ev'] == 'call' and last_member(e.get('fnexpr')) == ('iv_tls_user', hook) for e in f.events()) and \
            any(x.get('k') == 'var' and x['name'] == 'iv_tls_users' for e in f.events() for x in walk(e))
    ctx.ob('R-C18i', 'iv_tls_thread_deinit:visits-every-user', walks(td, 'deinit_thread') and walks(ti, 'init_thread'), loc=td.loc,
           detail='thread init and tear-down both walk the list registration appends to (iv_tls_users)', fn=td.q)


def radix(ctx):
    prog = ctx.prog
    r = prog.fn('iv_timer_radix_tree_remove_level')
    dec = [e for e in r.events() if e['ev'] == 'store' and last_member(e['lhs']) == ('iv_state', 'rat_depth') and e['op'] in ('--', '-=')]
    frees = [e for e in r.events() if is_call(e, 'iv_timer_free_ratnode')]
    if not frees:
        raise AnalysisBroken('remove_level: subtree release not found')
    mp = must_pass(r, lambda e: e in dec)
    ok = bool(dec) and all(mp.get((e['_b'], e['_i'])) for e in frees) and all(last_member(e['args'][1]) == ('iv_state', 'rat_depth') for e in frees)
    ctx.ob('R-C18a.radix', 'remove_level:depth-lowered-before-subtrees-freed', ok, loc=frees[0]['loc'],
           detail='the children of the root being removed are at depth rat_depth - 1: rat_depth-- precedes iv_timer_free_ratnode(child, st->rat_depth) '
                  '(with the old depth the leaves\' slots, which hold user timers, would be freed as nodes)', fn=r.q)
    f = prog.fn('iv_timer_free_ratnode')
    hd = holding(f)
    rec = [e for e in f.events() if is_call(e, 'iv_timer_free_ratnode')]
    dp = f.params[1]['name']
    okr = bool(rec)
    for e in rec:
        A = hd.get((e['_b'], e['_i']), frozenset())
        okr = okr and canon(e['args'][1]) == '(%s - 1)' % dp and any(a[0] == '!=' and a[1] == dp and a[2] == '0' for a in A)
    ctx.ob('R-C18a.radix', 'free_ratnode:descends-only-above-leaves', okr, loc=f.loc,
           detail='recursion into child[i] only on the edge depth != 0 and with depth - 1', fn=f.q)
    own = must_pass(f, lambda e: is_call(e, 'free') and canon(e['args'][0]) == f.params[0]['name'])
    ctx.ob('R-C18a.radix', 'free_ratnode:frees-the-node', bool(own.get((f.exit, 0))), loc=f.loc, detail='the node itself is freed on every path', fn=f.q)
    d = prog.fn('iv_timer_deinit')
    lp = [e for e in d.events() if is_call(e, 'iv_timer_radix_tree_remove_level')]
    hdd = holding(d)
    A = hdd.get((d.exit, 0), frozenset())
    ctx.ob('R-C18a.radix', 'timer_deinit:all-levels-removed', bool(lp) and any(a[0] == '==' and a[1].endswith('rat_depth') and a[2] == '0' for a in A), loc=d.loc,
           detail='levels are removed until rat_depth == 0', fn=d.q)
