"""C19 — iv_popen: child wired to the descriptor, always terminated and reaped."""
from ..core import (names_of, same_value, AnalysisBroken, Inliner, canon, strip, last_member, must_pass, relpath, norm_cond, walk, forward)
from ..analyses import (is_call, holding, path_to, describe, exits_of, callback_kind, must_pass_from_block)
from .. import interp
from . import c13


def run(ctx):
    ctx.rule('R-C19a', 'wiring table: for type r the child gets the data pipe\'s write end on stdout and the null device on the other two '
                       'streams (type w: read end on stdin), each standard descriptor dup2\'ed once, inherited ends closed; the parent '
                       'returns the opposite end and closes the child\'s', floor=6)
    ctx.rule('R-C19b', 'signalling stops when the kill helper says the child is gone: that edge unregisters, frees and re-arms nothing; '
                       'otherwise the timer is re-registered; TERM first then KILL', floor=4)
    ctx.rule('R-C19c', 'CONTAINER-FREE for the running-child record and release of everything on submit failure paths', floor=4)
    ctx.rule('R-C19d', 'close detaches the request before arming the kill timer, only while the child is still running; the exit '
                       'notification clears the request\'s child pointer when still attached, else cancels the timer', floor=4)
    ctx.rule('R-C19e', 'no signal after the child ended: the wait module recognises exited and signalled children as terminated (shared with C11)', floor=6)
    ctx.section(lambda c: __import__('ivy.rules.c11', fromlist=['x']).status_table(c, 'R-C19e'))
    ctx.section(wiring)
    ctx.section(escalation)
    ctx.section(container)
    ctx.section(detach)


def _run_mode(f, mode_atoms):
    pairs, bools = interp.atoms_of(f)
    b = {x: False for x in bools}
    b.update(mode_atoms)
    trace = []
    res = interp.run(f, interp.Assignment(orders={}, bools=b))
    return res


def wiring(ctx):
    prog = ctx.prog
    c = prog.fn('iv_popen_child')
    s = prog.fn('iv_popen_request_submit')
    info = c.params[0]['name']
    pairs, bools = interp.atoms_of(c)
    fr = [x for x in bools if x.endswith('for_read')]
    if len(fr) != 1:
        raise AnalysisBroken('iv_popen_child: direction test not found (%s)' % bools)
    pairs2, bools2 = interp.atoms_of(s)
    fr2 = [x for x in bools2 if x.endswith('for_read')]
    sr = [x for x in bools2 if x.startswith('strcmp(') and '"r"' in x]
    sw_ = [x for x in bools2 if x.startswith('strcmp(') and '"w"' in x]
    if len(fr2) != 1 or len(sr) != 1 or len(sw_) != 1:
        raise AnalysisBroken('iv_popen_request_submit: type/direction tests not found (%s)' % bools2)
    for mode in ('r', 'w'):
        rd = (mode == 'r')
        res = _run_mode(c, {fr[0]: rd, 'devnull': True})
        dups = [(canon(e['args'][0]), canon(e['args'][1])) for e in res['trace'] if is_call(e, 'dup2')]
        closes = [canon(e['args'][0]) for e in res['trace'] if is_call(e, 'close')]
        targets = sorted(t for (_, t) in dups)
        data = [(src, t) for (src, t) in dups if 'data_pipe' in src]
        nulls = [(src, t) for (src, t) in dups if src == 'devnull']
        want = ('data_pipe[1]', '1') if rd else ('data_pipe[0]', '0')
        ok = targets == ['0', '1', '2'] and len(data) == 1 and data[0][0].endswith(want[0]) and data[0][1] == want[1] and len(nulls) == 2
        ctx.ob('R-C19a', 'child:type-%s' % mode, ok, loc=c.loc,
               detail='dup2 calls %s; expected data pipe end %s on descriptor %s and the null device on the other two' % (dups, want[0], want[1]), fn=c.q)
        okc = sum(1 for x in closes if 'data_pipe[0]' in x) == 1 and sum(1 for x in closes if 'data_pipe[1]' in x) == 1 and closes.count('devnull') == 1
        ctx.ob('R-C19a', 'child:type-%s:inherited-ends-closed' % mode, okc, loc=c.loc, detail='closes: %s' % closes, fn=c.q)
        ex = [e for e in res['trace'] if is_call(e, 'execvp')]
        okx = bool(ex) and all(res['trace'].index(e) > max(res['trace'].index(d) for d in res['trace'] if is_call(d, ('dup2', 'close'))) for e in ex)
        ctx.ob('R-C19a', 'child:type-%s:exec-after-wiring' % mode, okx, loc=c.loc, detail='execvp runs after all descriptors are wired', fn=c.q)
        # parent
        resp = _run_mode(s, {sr[0]: not rd, sw_[0]: rd, fr2[0]: rd, 'ch': True})
        fds = [canon(e['rhs']) for e in resp['trace'] if e['ev'] == 'store' and canon(e['lhs']) == 'fd']
        pcl = [canon(e['args'][0]) for e in resp['trace'] if is_call(e, 'close')]
        wantp = 'info.data_pipe[0]' if rd else 'info.data_pipe[1]'
        other = 'info.data_pipe[1]' if rd else 'info.data_pipe[0]'
        okp = fds == [wantp] and pcl == [other] and resp['end'] == 'ret' and resp['ret'] == 'fd'
        ctx.ob('R-C19a', 'parent:type-%s' % mode, okp, loc=s.loc,
               detail='returns %s (%s), closes %s; expected to return %s and close %s (the end the child uses)' % (fds, resp['ret'], pcl, wantp, other), fn=s.q)
        # the direction flag the child sees is what the type string selected
        fs = [canon(e['rhs']) for e in resp['trace'] if e['ev'] == 'store' and canon(e['lhs']).endswith('for_read')]
        ctx.ob('R-C19a', 'parent:type-%s:direction-flag' % mode, fs == ['1' if rd else '0'], loc=s.loc,
               detail='for_read stored %s for type "%s"' % (fs, mode), fn=s.q)


def escalation(ctx):
    prog = ctx.prog
    f = prog.fn('iv_popen_running_child_timer')
    hd = holding(f)
    kills = [e for e in f.events() if is_call(e, 'iv_wait_interest_kill')]
    if not kills:
        raise AnalysisBroken('kill timer: kill helper call not found')
    rv = None
    for s in f.events():
        if s['ev'] == 'store' and strip(s.get('rhs', {})).get('k') == 'call' and strip(s['rhs']).get('callee') == 'iv_wait_interest_kill':
            rv = canon(s['lhs'])
    regs = [e for e in f.events() if is_call(e, 'iv_timer_register')]
    gone_ok, alive_ok = False, False
    for b, blk in f.blocks.items():
        if blk.term and blk.term.get('cond') is not None and len(blk.succ) == 2:
            for si in (0, 1):
                for (op, lc, rc, l, r) in norm_cond(blk.term['cond'], si == 0):
                    if lc == rv and rc == '0' and op == '<':
                        un = must_pass_from_block(f, blk.succ[si], lambda e: is_call(e, 'iv_wait_interest_unregister'))
                        fr = must_pass_from_block(f, blk.succ[si], lambda e: is_call(e, 'free'))
                        reach = set()
                        st = [blk.succ[si]]
                        while st:
                            x = st.pop()
                            if x in reach or x is None:
                                continue
                            reach.add(x)
                            st.extend(f.blocks[x].succ)
                        pts = [(pb, pi) for (pb, pi, e) in exits_of(f) if pb in reach]
                        gone_ok = bool(pts) and all(un.get(p) and fr.get(p) for p in pts) and not any(e['_b'] in reach for e in regs + kills)
                    if lc == rv and rc == '0' and op == '>=':
                        rg = must_pass_from_block(f, blk.succ[si], lambda e: e in regs)
                        reach = set()
                        st = [blk.succ[si]]
                        while st:
                            x = st.pop()
                            if x in reach or x is None:
                                continue
                            reach.add(x)
                            st.extend(f.blocks[x].succ)
                        pts = [(pb, pi) for (pb, pi, e) in exits_of(f) if pb in reach] + ([(f.exit, 0)] if f.exit in reach else [])
                        alive_ok = bool(pts) and all(rg.get(p, True) for p in pts) and bool(regs)
    ctx.ob('R-C19b', 'timer:gone-stops-signalling', gone_ok, loc=f.loc,
           detail='on the edge kill-helper < 0 the interest is unregistered, the record freed, and neither kill nor timer registration is reachable', fn=f.q)
    ctx.ob('R-C19b', 'timer:alive-rearms', alive_ok, loc=f.loc, detail='otherwise the timer is registered again on every path', fn=f.q)
    # TERM first, then KILL: the signal is a function of num_kills vs a constant, incremented each time
    sg = [e for e in f.events() if e['ev'] == 'store' and canon(e['lhs']) == 'signum']
    oks = False
    for e in sg:
        v = strip(e['rhs'])
        if v.get('k') == 'cond' and 'num_kills' in canon(v['c']) and strip(v['a']).get('v') == 15 and strip(v['b']).get('v') == 9 and '++' in canon(v['c']) and ' < ' in canon(v['c']):
            oks = True
    ctx.ob('R-C19b', 'timer:term-then-kill', oks, loc=sg[0]['loc'] if sg else f.loc,
           detail='SIGTERM while the attempt counter is below the limit, SIGKILL afterwards; the counter advances every time', fn=f.q)
    ctx.ob('R-C19b', 'timer:signals-through-helper', all(canon(e['args'][1]) == 'signum' and canon(e['args'][0]).endswith('->wait') for e in kills), loc=kills[0]['loc'],
           detail='the child is signalled only through iv_wait_interest_kill on its own interest (which refuses reaped pids: C11 R-C11c)', fn=f.q)
    cl = prog.fn('iv_popen_request_close')
    z = [e for e in cl.events() if e['ev'] == 'store' and last_member(e['lhs']) == ('iv_popen_running_child', 'num_kills') and canon(e.get('rhs')) == '0']
    ctx.ob('R-C19b', 'close:attempt-counter-reset', bool(z), loc=z[0]['loc'] if z else cl.loc, detail='num_kills = 0 when the escalation is armed', fn=cl.q)


def container(ctx):
    prog = ctx.prog
    # the running-child record: wait interest must be unregistered at every free; the timer is state-discriminated
    c13.EMBEDDED_BACKUP = dict(c13.EMBEDDED)
    n = 0
    for fn in ('iv_popen_running_child_wait', 'iv_popen_running_child_timer', 'iv_popen_request_submit'):
        f = prog.fn(fn)
        hd = holding(f)
        for fr in [e for e in f.events() if is_call(e, 'free') and strip(e['args'][0]).get('record') == 'iv_popen_running_child']:
            n += 1
            obj = canon(fr['args'][0])
            if fn == 'iv_popen_request_submit':
                # before / after failed registration: nothing registered
                spawn = [e for e in f.events() if is_call(e, 'iv_wait_interest_register_spawn')]
                A = hd.get((fr['_b'], fr['_i']), frozenset())
                before = not must_pass(f, lambda e: e in spawn).get((fr['_b'], fr['_i']))
                failed = any(a[0] == '<' and a[2] == '0' and all(k[0] == 'var' for k in a[3]) for a in A)
                ctx.ob('R-C19c', '%s:free:not-registered' % fn, before or failed, loc=fr['loc'],
                       detail='the record is freed only before the spawn-registration or on its failure edge (which undoes it: C07 wait kind)', fn=f.q)
                if failed:
                    cl = must_pass(f, lambda e: is_call(e, 'close') and 'data_pipe[0]' in canon(e['args'][0]))
                    cl2 = must_pass(f, lambda e: is_call(e, 'close') and 'data_pipe[1]' in canon(e['args'][0]))
                    ctx.ob('R-C19c', '%s:spawn-failure-closes-pipe' % fn, bool(cl.get((fr['_b'], fr['_i']))) and bool(cl2.get((fr['_b'], fr['_i']))), loc=fr['loc'],
                           detail='both pipe ends are closed when the spawn failed', fn=f.q)
                continue
            mp = must_pass(f, lambda e, obj=obj: is_call(e, 'iv_wait_interest_unregister') and canon(e['args'][0]) == '&%s->wait' % obj)
            ctx.ob('R-C19c', '%s:free:wait-unregistered' % fn, bool(mp.get((fr['_b'], fr['_i']))), loc=fr['loc'],
                   detail='iv_wait_interest_unregister(&%s->wait) on every path to free(%s)' % (obj, obj), fn=f.q)
            if fn == 'iv_popen_running_child_wait':
                # timer registered iff parent == NULL: on that edge it must be unregistered
                okt = False
                for b, blk in f.blocks.items():
                    if blk.term and blk.term.get('cond') is not None and len(blk.succ) == 2:
                        for si in (0, 1):
                            for (op, lc, rc, l, r) in norm_cond(blk.term['cond'], si == 0):
                                if last_member(l) == ('iv_popen_running_child', 'parent') and op == '==' and rc == '0':
                                    mt = must_pass_from_block(f, blk.succ[si], lambda e: is_call(e, 'iv_timer_unregister') and canon(e['args'][0]).endswith('->signal_timer'))
                                    okt = bool(mt.get((fr['_b'], fr['_i'])))
                ctx.ob('R-C19c', '%s:free:timer-cancelled-when-armed' % fn, okt, loc=fr['loc'],
                       detail='the kill timer is armed iff the request was closed (parent == NULL); on that edge it is unregistered before the free', fn=f.q)
            else:
                ctx.exempt('R-C19c', '%s:free:signal_timer' % fn, 'freed from inside the one-shot timer\'s own handler: the timer is already unregistered (C01 R-C01b)')
                regs_after = [e for e in f.events() if is_call(e, 'iv_timer_register')]
                mpf = must_pass(f, lambda e: e is fr)
                ok = not any(mpf.get((e['_b'], e['_i'])) for e in regs_after)
                ctx.ob('R-C19c', '%s:free:no-rearm-after-free' % fn, ok, loc=fr['loc'], detail='no timer registration follows the free', fn=f.q)
    if n < 4:
        raise AnalysisBroken('free sites of the running-child record: %d found' % n)


def detach(ctx):
    prog = ctx.prog
    f = prog.fn('iv_popen_request_close')
    hd = holding(f)
    det = [e for e in f.events() if e['ev'] == 'store' and last_member(e['lhs']) == ('iv_popen_running_child', 'parent') and canon(e.get('rhs')) in ('NULL', '0')]
    arm = [e for e in f.events() if is_call(e, 'iv_timer_register')]
    if not arm:
        raise AnalysisBroken('close: arming of the kill timer not found')
    if not det:
        ctx.ob('R-C19d', 'close:detach-before-arm', False, loc=arm[0]['loc'],
               detail='the request is never detached (parent = NULL) although the kill timer is armed: the exit notification '
                      'would write into a request the caller may already have released', fn=f.q)
        return
    for e in det + arm:
        A = hd.get((e['_b'], e['_i']), frozenset())
        ok = any(a[0] == '!=' and a[2] == '0' and (all(k[0] == 'var' for k in a[3]) or ('iv_popen_request', 'child') in a[3]) for a in A)
        ctx.ob('R-C19d', 'close:%s-only-if-child-running' % ('detach' if e in det else 'arm'), ok, loc=e['loc'],
               detail='%s is on the edge this->child != NULL' % describe(e), fn=f.q)
    mp = must_pass(f, lambda e: e in det)
    ctx.ob('R-C19d', 'close:detach-before-arm', all(mp.get((e['_b'], e['_i'])) for e in arm), loc=arm[0]['loc'],
           detail='parent = NULL precedes the timer registration (the exit notification must not touch a closed request)', fn=f.q)
    hs = [e for e in f.events() if e['ev'] == 'store' and canon(e['lhs']).endswith('signal_timer.handler')]
    ctx.ob('R-C19d', 'close:timer-handler', bool(hs) and all(canon(e['rhs']) == 'iv_popen_running_child_timer' for e in hs), loc=f.loc,
           detail='the armed timer runs the escalation handler with the record as cookie', fn=f.q)
    w = prog.fn('iv_popen_running_child_wait')
    hdw = holding(w)
    cl = [e for e in w.events() if e['ev'] == 'store' and last_member(e['lhs']) == ('iv_popen_request', 'child') and canon(e.get('rhs')) in ('NULL', '0')]
    ok = bool(cl)
    for e in cl:
        A = hdw.get((e['_b'], e['_i']), frozenset())
        ok = ok and any(a[0] == '!=' and a[2] == '0' and ('iv_popen_running_child', 'parent') in a[3] for a in A)
    ctx.ob('R-C19d', 'exit:clears-request-when-attached', ok, loc=cl[0]['loc'] if cl else w.loc,
           detail='parent->child = NULL only on the parent != NULL edge', fn=w.q)
    un = [e for e in w.events() if is_call(e, 'iv_wait_interest_unregister')]
    A = hdw.get((un[0]['_b'], un[0]['_i']), frozenset()) if un else frozenset()
    term = bool(un) and not any(a[0] == '==' and a[2] == '0' and 'status' in a[1] for a in A)
    ctx.ob('R-C19d', 'exit:only-on-termination', bool(un), loc=un[0]['loc'] if un else w.loc,
           detail='the interest is released (so the loop can exit) when a terminating status arrives', fn=w.q)
