"""C06 — tasks run exactly once before the loop sleeps and cannot starve polling.

All rules are formulated on *sites* (the indirect call through a task's handler field, the call that links a
task into a list, the stores to a task's round stamp / the round counter / the running-batch pointer, the call
that enters the kernel wait) evaluated in the smallest exported calling context that reaches them with every
internal helper inlined (h06.minimal_roots + core.Inliner), never on names of static functions, locals or
parameters, expression text or the loop form.  See h06.py for the analyses.
"""
from ..core import AnalysisBroken, strip, last_member, relpath, forward, norm_cond, is_null, is_int
from ..analyses import path_to, describe, callback_kind
from .. import roles
from . import c18
from . import h06 as h


def run(ctx):
    ctx.rule('R-C06a', 'a task is unlinked, counted out and stamped with the current round before its handler is called; '
                       'the round counter is advanced before the first handler of a round and written by nobody else; '
                       'the runner returns only when the detached batch is empty', floor=6)
    ctx.rule('R-C06b', 'with tasks pending the poll deadline is the address of a local timespec whose both fields were stored 0', floor=1)
    ctx.rule('R-C06c', 'on every path to the kernel wait a round of tasks was begun (round counter advanced / runner called) since the previous wait', floor=1)
    ctx.rule('R-C06d', 'a task is linked exactly once, into the running batch only on the edge where its round stamp differs from the '
                       'current round (a task that already ran this round is deferred to the next); every store to a round stamp '
                       'stores the current round', floor=5)
    ctx.rule('R-C06e', 'the running-batch pointer (address of a local) is cleared on every exit of the runner', floor=1)
    ctx.rule('R-C06f', 'the zero deadline reaches the kernel wait: the poll gets the caller\'s deadline unless a kernel timer is armed for a '
                       'deadline that is not later (shared with C04 R-C04f)', floor=3)
    ctx.rule('R-C06g', 'a "kernel timer armed" answer is true: a slot that is asked to arm a kernel timer for the poll deadline answers '
                       'non-zero only on paths on which the deadline was handed to the kernel (and that call did not fail); on every '
                       'other path it answers 0, so that the caller waits with the (zero) deadline itself', floor=1)
    ctx.rule('R-C06h', 'the test that defers a re-registration is exact: the per-task round stamp and the round counter have one and the same '
                       'integer type (width and signedness), and so has everything that carries a round value from one to the other or into '
                       'their comparison (local, parameter or result of a helper, cast): no store or comparison truncates or changes sign', floor=4)
    ctx.section(lambda c: __import__('ivy.rules.c04', fromlist=['x']).keep_armed(c, 'R-C06f'))
    ctx.section(armed_answer)
    ctx.section(runner)
    ctx.section(zero_timeout)
    ctx.section(register)
    ctx.section(fresh_stamp)
    ctx.section(batch_pointer)
    ctx.section(exact_stamp)


# --------------------------------------------------------------------------
# R-C06a: the task handler call site
# --------------------------------------------------------------------------

def _runner_contexts(prog):
    """[(root, inlined root, TaskFlow, [(call event, facts, token)])] for the smallest exported contexts of the task handler call"""
    out = []
    for r in h.minimal_roots(prog, h.handler_users(prog)):
        g = h.inlined(prog, r)
        tf = h.TaskFlow(prog, g)
        sites = []
        for e in g.events():
            if e['ev'] != 'call' or 'fnexpr' not in e:
                continue
            S = tf.at.get((e['_b'], e['_i']))
            if S is None:
                continue
            t = tf.handler_token(e, S)
            if t is not None:
                sites.append((e, S, t))
        if sites:
            out.append((r, g, tf, sites))
    return out


def runner(ctx):
    prog = ctx.prog
    h.bind(prog)
    cs = _runner_contexts(prog)
    if not cs:
        raise AnalysisBroken('task handler call site not found')
    by_site = {}
    for (r, g, tf, sites) in cs:
        for (e, S, t) in sites:
            by_site.setdefault((h.origin_fn(prog, g, e).name, e['loc']), []).append((r, g, e, S, t))
    for (owner, loc), items in sorted(by_site.items()):
        r, g, e0 = items[0][0], items[0][1], items[0][2]

        def every(fact):
            return all(t != 'unknown' and fact(t) in S for (_, _, _, S, t) in items)
        bad = lambda fact: next(((g_, e) for (_, g_, e, S, t) in items if t == 'unknown' or fact(t) not in S), None)
        ok = every(lambda t: ('unl', t))
        b = bad(lambda t: ('unl', t))
        ctx.ob('R-C06a', '%s:unlinked' % owner, ok, loc=loc,
               detail='between the definition of the task pointer and %s the task\'s list node is removed from its list on every path' % describe(e0),
               path=None if ok else path_to(b[0], b[1]), fn=r.q)
        ctx.ob('R-C06a', '%s:counted-out' % owner, all(('counted',) in S for (_, _, _, S, _) in items), loc=loc,
               detail='numobjs is decremented between the previous task handler call (or entry) and this one: '
                      'the task is unregistered when its handler runs', fn=r.q)
        ctx.ob('R-C06a', '%s:stamped' % owner, every(lambda t: ('stamp', t)), loc=loc,
               detail='the task\'s round stamp is stored a value equal to the round counter before the handler', fn=r.q)
        ctx.ob('R-C06a', '%s:round-advanced' % owner, all(('adv',) in S for (_, _, _, S, _) in items), loc=loc,
               detail='the round counter is advanced by one before the first handler of the round', fn=r.q)
    # the equalities above survive callbacks and calls only if nobody else changes the round counter: any store to it outside
    # the function that runs the handlers (and its helpers) may only be an initialisation with a constant
    seen = set()
    for (r, g, tf, sites) in cs:
        for e in g.events():
            if e['ev'] == 'store' and h.COUNTER in h.lvalue_steps(e['lhs']):
                seen.add(e['loc'])
    # every store to the counter in any exported context of a function that mentions it (also through a cached address)
    ws = []
    for r in h.minimal_roots(prog, h.mentioning(prog, h.COUNTER)):
        g = h.inlined(prog, r)
        for e in g.events():
            if e['ev'] == 'store' and h.COUNTER in h.lvalue_steps(e['lhs']):
                ws.append((h.origin_fn(prog, g, e), e))
    foreign = [(f, e) for (f, e) in ws if e['loc'] not in seen and not (e.get('op') == '=' and h.is_int(e.get('rhs')))]
    r0 = cs[0][0]
    ctx.ob('R-C06a', 'round-counter:changed-only-by-the-runner', not foreign,
           loc=foreign[0][1]['loc'] if foreign else (ws[0][1]['loc'] if ws else r0.loc),
           detail='every store to the round counter other than an initialisation with a constant lies in the function that runs the '
                  'task handlers (or its helpers)%s' % ((': %s in %s' % (describe(foreign[0][1]), foreign[0][0].name)) if foreign else ''), fn=r0.q)


# --------------------------------------------------------------------------
# R-C06b / R-C06c: the kernel wait of the main loop
# --------------------------------------------------------------------------

def _deadline_arg(prog, g, e):
    t = h.callee_of(prog, g, e)
    args = e.get('args', [])
    if t is not None:
        idx = h.deadline_params(t)
        if len(idx) == 1 and idx[0] < len(args):
            return args[idx[0]]
    if t is None and callback_kind(e) == ('method', 'poll'):
        # a call through the poll slot: the deadline is the argument bound to the `timespec *` parameter of the slot's targets
        # (whatever is passed there: a variable, a conditional expression, NULL = "no deadline of its own")
        idx = {tuple(h.deadline_params(x)) for x in prog.slot_targets('poll')}
        if len(idx) == 1 and len(list(idx)[0]) == 1 and list(idx)[0][0] < len(args):
            return args[list(idx)[0][0]]
    idx = [i for i, a in enumerate(args) if any(x.get('record') == 'timespec' for x in h.walk(a))]
    if len(idx) == 1:
        return args[idx[0]]
    raise AnalysisBroken('%s: deadline argument of %s not identified' % (g.name, describe(e)))


def _summary_lookup(prog, g, summ):
    """call expression -> polarity p such that (result != 0) <=> (tasks are pending) == p, for a summarised callee"""
    if not summ:
        return None
    u = prog.unit_of(getattr(g, 'inlined_from', None) or g)

    def look(x):
        x = strip(x)
        if isinstance(x, dict) and x.get('k') == 'call' and x.get('callee'):
            t = prog.resolve(u, x['callee']) if u else prog.funcs.get(x['callee'])
            if t is not None:
                return summ.get(t.q)
        return None
    return look


def _returns_pending(prog, t, rootq, W, always, touch, T):
    """polarity p when every return of the exported function t (helpers inlined) yields the truth value of "the pending-task
    list is not empty" (== p) as it is at that return: the test is made in the return expression itself, or was made
    earlier and nothing since can have changed the list (no callback, no task-list operation: h.may_touch_tasks).  None otherwise."""
    memo = prog.__dict__.setdefault('_c06_retpend', {})
    if t.q in memo:
        return memo[t.q]
    memo[t.q] = None
    stopq = (set(rootq) & (W | always | (touch - T))) - {t.q}
    try:
        g = h.inline_root(prog, t, stop=lambda x: x.q in stopq)
    except AnalysisBroken:
        return None
    rets = [e for e in g.events() if e['ev'] == 'ret' and not e.get('chain')]
    if not rets or any(e.get('value') is None for e in rets):
        return None
    cache = {}

    def target(e):
        if id(e) not in cache:
            x = h.callee_of(prog, g, e)
            cache[id(e)] = x.q if x is not None else None
        return cache[id(e)]

    def touches(e):
        if e['ev'] != 'call':
            return False
        if 'fnexpr' in e:
            k = callback_kind(e)
            if k and k[0] == 'method':
                return any(x.q in touch for x in prog.slot_targets(k[1]))
            return True
        return target(e) in touch
    track = {h.local_name(e['value']) for e in rets} - {None}
    wf = h.WaitFlow(prog, g, lambda e: False, lambda e: False, touches, track=track)
    pols = set()
    for e in rets:
        for s_ in wf.at.get((e['_b'], e['_i']), ()):
            p = h._truth_of_pending(e['value'], s_[1])          # read at the return itself
            if p is None:
                v = wf.value(e['value'], s_[1], s_[0])
                if isinstance(v, tuple) and v[0] == 'pb':
                    p = v[1]
                elif isinstance(v, tuple) and v[0] == 'c' and s_[0] in ('E', 'N'):
                    p = (v[1] != 0) == (s_[0] == 'N')
            pols.add(p)
    if len(pols) == 1 and None not in pols:
        memo[t.q] = pols.pop()
    return memo[t.q]


def zero_timeout(ctx):
    """(also R-C02e)  Root: the exported function from which both a task handler call and the poll slot of the poll
    method are reachable.  It is analysed with static helpers inlined; other exported functions stay calls.
    wait site = call of a function from which the poll slot is reachable."""
    prog = ctx.prog
    h.bind(prog)
    waiters = roles.functions_with(prog, lambda e: callback_kind(e) == ('method', 'poll'))
    if not waiters:
        raise AnalysisBroken('no call through the poll slot of the poll method')
    W = h.closure_q(prog, waiters)
    # functions from which a real task handler call site is reached
    T = h.closure_q(prog, [c[0] for c in _runner_contexts(prog)])
    if not T:
        raise AnalysisBroken('task handler call site not found')
    rootq = {r.q: r for r in roles.roots(prog)}
    mains = [rootq[q] for q in sorted(rootq) if q in W and q in T]
    # the innermost such functions: not those that merely call one (a thread body calling the main loop)
    mains = [m for m in mains if not any(d.q != m.q and m.q in h.closure_q(prog, [d]) for d in mains)]
    if not mains:
        raise AnalysisBroken('no exported function both runs tasks and enters the kernel wait')
    touch = h.may_touch_tasks(prog)
    # exported functions that begin a round of tasks on every path through them (the round counter is advanced): a call of
    # one of them "runs the tasks".  One that does so only conditionally (a merged entry point `run(st, what)`) is not
    # trusted as a call: it is inlined, and the round it begins counts where the counter is stepped.
    always = {q for q in T if q in rootq and q not in W and h.always_begins_round(prog, rootq[q])}
    # deadline keepers: functions (exported or not) that take a deadline, do not wait themselves and from which the slot that
    # arms a kernel timer for the deadline is reachable.  A deadline handed to one of them is *submitted* to the waiting
    # machinery like one handed to the wait itself (whether the machinery honours it is R-C06f); they stay calls.
    armers = roles.functions_with(prog, lambda e: callback_kind(e) == ('method', 'set_poll_timeout'))
    K = h.closure_q(prog, armers) if armers else set()
    keepers = {f.q for f in prog.all_funcs() if f.q in K and f.q not in W and len(h.deadline_params(f)) == 1}
    nsites = 0
    for M in mains:
        # other exported functions that wait, run tasks or may run user code stay calls; the rest is inlined
        stopq = (set(rootq) & (W | always | (touch - T))) - {M.q}
        # ... except a waiting function that chooses the deadline itself (no deadline parameter): its choice is what is checked
        stopq -= {q for q in stopq if q in W and not h.deadline_params(rootq[q])}
        stopq |= keepers - {M.q}
        g = h.inline_root(prog, M, stop=lambda t: t.q in stopq)
        # exported callees that stay calls and whose result is the truth value of "tasks are pending", read at their return
        # with nothing after the test that could change it (`pending = iv_run_tasks(st)`): {qualified name: polarity}
        summ = {}
        for e in g.events():
            if e['ev'] == 'call' and 'callee' in e:
                t = h.callee_of(prog, g, e)
                if t is not None and t.q in stopq and t.q not in summ and t.q in rootq and t.q not in keepers:
                    summ[t.q] = _returns_pending(prog, t, rootq, W, always, touch, T)
        summ = {q: p for q, p in summ.items() if p is not None}
        cache = {}

        def target(e):
            if id(e) not in cache:
                t = h.callee_of(prog, g, e)
                cache[id(e)] = t.q if t is not None else None
            return cache[id(e)]

        def is_wait(e):
            return e['ev'] == 'call' and (callback_kind(e) == ('method', 'poll') or ('callee' in e and target(e) in W))

        adv = h.advancing_stores(prog, g)

        def is_taskrun(e):
            if e['ev'] == 'store':
                return (e['_b'], e['_i']) in adv                     # a round of tasks begins
            return e['ev'] == 'call' and (('fnexpr' in e and last_member(h.fn_target(e['fnexpr'])) == h.HANDLER)
                                          or ('callee' in e and target(e) in always))

        def touches(e):
            if e['ev'] != 'call':
                return False
            if 'fnexpr' in e:
                k = callback_kind(e)
                if k and k[0] == 'method':
                    return any(t.q in touch for t in prog.slot_targets(k[1]))
                return True
            return target(e) in touch

        def is_keeper(e):
            return e['ev'] == 'call' and 'callee' in e and target(e) in keepers

        wf = h.WaitFlow(prog, g, is_taskrun, is_wait, touches, summaries=_summary_lookup(prog, g, summ))
        # on every path to a program point a deadline was submitted to a keeper since the previous wait (or entry)
        _, submitted = forward(g, False, lambda e, s_: True if is_keeper(e) else (False if is_wait(e) else s_), lambda a, b: a and b)
        sites = {}
        for e in g.events():
            if (is_wait(e) or is_keeper(e)) and wf.at.get((e['_b'], e['_i'])):
                sites.setdefault(e['loc'], []).append(e)
        nsites += len([1 for evs in sites.values() if any(is_wait(e) for e in evs)])
        for loc, evs in sorted(sites.items()):
            res = {'deadline-is-local': True, 'tv_sec=0': True, 'tv_nsec=0': True}
            tested, ran = False, True
            for e in evs:
                arg = _deadline_arg(prog, g, e)
                if is_keeper(e):
                    ran = True          # R-C06c is about the wait itself
                # a wait without a deadline of its own (NULL): the deadline in force is the one submitted to the keeper of the
                # kernel timer since the previous wait (checked at that call, which is a site of its own)
                sub = bool(submitted.get((e['_b'], e['_i'])))
                for st_ in wf.at[(e['_b'], e['_i'])]:
                    (pend, env, zeros, rn) = st_
                    ran = ran and rn
                    tested = tested or pend == 'N'
                    if pend == 'E':
                        continue
                    for (dl, pn) in wf.arm_values(arg, st_):      # `c ? a : b` / `table[test]` as the argument: every arm the state allows
                        tested = tested or pn == 'N'
                        if pn == 'E':
                            continue
                        if is_wait(e) and (dl == ('c', 0) or is_null(strip(arg))):
                            for what in res:
                                res[what] = res[what] and sub
                            continue
                        L = dl[1] if isinstance(dl, tuple) and dl[0] == 'addr' else None
                        Z = isinstance(dl, tuple) and dl[0] == 'zaddr'      # a never-written zero-initialised const object
                        res['deadline-is-local'] = res['deadline-is-local'] and (L is not None or Z)
                        res['tv_sec=0'] = res['tv_sec=0'] and (Z or (L is not None and (L, 'tv_sec') in zeros))
                        res['tv_nsec=0'] = res['tv_nsec=0'] and (Z or (L is not None and (L, 'tv_nsec') in zeros))
            for what in ('deadline-is-local', 'tv_sec=0', 'tv_nsec=0'):
                ctx.ob('R-C06b', '%s:pending-tasks:%s' % (M.name, what), res[what], loc=loc,
                       detail='on every path to the kernel wait on which the pending-task list was not found empty '
                              '(with nothing since that could change it): %s' % what, fn=M.q)
            if not tested:
                ctx.ob('R-C06b', '%s:pending-tasks:tested' % M.name, False, loc=loc,
                       detail='the poll deadline does not depend on a test of the pending-task list: with tasks pending the loop may sleep', fn=M.q)
            if not any(is_wait(e) for e in evs):
                continue
            ctx.ob('R-C06c', '%s:tasks-before-poll' % M.name, ran, loc=loc,
                   detail='on every path to the kernel wait a round of tasks was begun (the runner called / the round counter advanced) since the previous wait (or entry)', fn=M.q)
    if not nsites:
        raise AnalysisBroken('%s: call that enters the kernel wait not found' % ', '.join(m.name for m in mains))


# --------------------------------------------------------------------------
# R-C06g: the answer of the slot that arms a kernel timer for the deadline
# --------------------------------------------------------------------------

def armed_answer(ctx):
    """The caller of the `set_poll_timeout` slot waits *without* a deadline when the slot answers non-zero (R-C06f).  With a task
    pending the deadline is zero; it reaches the kernel only through the timer the slot arms.  So for every function installed in
    that slot (helpers inlined): on every path to a return whose value can be non-zero, the deadline parameter (or a local
    it was copied into) was passed to a function outside the program -- the kernel -- and no branch since found that call failed."""
    prog = ctx.prog
    targets = {}
    for t in prog.slot_targets('set_poll_timeout'):
        targets[t.q] = t
    if not targets:
        raise AnalysisBroken('no function is installed in the set_poll_timeout slot of a poll method')
    for q, t in sorted(targets.items()):
        dl = h.deadline_params(t)
        if len(dl) != 1:
            raise AnalysisBroken('%s: deadline parameter (the one struct timespec *) not identified' % t.name)
        g = h.inlined(prog, t)
        af = h.ArmFlow(prog, g, t.params[dl[0]]['name'])
        rets = [e for e in g.events() if e['ev'] == 'ret' and not e.get('chain')]
        if not rets or any(e.get('value') is None for e in rets):
            raise AnalysisBroken('%s: does not return an answer' % t.name)
        bad = []
        for e in rets:
            for s_ in af.at.get((e['_b'], e['_i']), ()):
                if af.const(e['value'], s_[2]) != 0 and not s_[0]:
                    bad.append(e)
                    break
        ctx.ob('R-C06g', '%s:armed-answer-only-after-arming' % t.name, not bad, loc=bad[0]['loc'] if bad else t.loc,
               detail='every path to a return that can answer non-zero ("armed: wait without deadline") handed the deadline to the kernel '
                      'and did not see that call fail%s' % ((': not so at %s' % describe(bad[0])) if bad else ''),
               path=path_to(g, bad[0]) if bad else None, fn=t.q)


# --------------------------------------------------------------------------
# R-C06d: registration
# --------------------------------------------------------------------------

def register(ctx):
    prog = ctx.prog
    h.bind(prog)
    owners = h.mentioning(prog, h.LINK)          # also those that work on a cached address of the node
    n = 0
    for r in h.minimal_roots(prog, owners):
        g = h.inlined(prog, r)
        if not any(h.is_task_link(e) for e in g.events()):
            continue
        n += 1
        sites, exits = h.link_alts(g)
        alts = [a for v in sites.values() for a in v]
        kinds = {a[0] for a in alts}
        ctx.ob('R-C06d', '%s:targets' % r.name, kinds == {'P', 'R'}, loc=r.loc,
               detail='a task is linked either into the pending list of the loop state or into the running batch it publishes '
                      '(lists found: %s)' % sorted(kinds), fn=r.q)
        ctx.ob('R-C06d', '%s:linked-once' % r.name, exits == {1}, loc=r.loc,
               detail='every returning path links the task exactly once (links per path: %s)' % sorted(exits), fn=r.q)
        for loc, v in sorted(sites.items()):
            run_alts = [a for a in v if a[0] == 'R']
            if not run_alts:
                continue
            e = run_alts[0][2]
            differs = all(('differs', True) in a[1] for a in run_alts)
            running = all(('running', True) in a[1] for a in run_alts)
            ctx.ob('R-C06d', '%s:running-batch-only-if-not-run-yet' % r.name, differs, loc=loc,
                   detail='every path that links the task into the running batch took the edge round stamp != round counter',
                   path=None if differs else path_to(g, e), fn=r.q)
            ctx.ob('R-C06d', '%s:running-batch-exists' % r.name, running, loc=loc,
                   detail='... and the edge running-batch pointer != NULL', fn=r.q)
    if not n:
        raise AnalysisBroken('no exported function links a task into a list')


def fresh_stamp(ctx):
    """Every store to a task's round stamp stores the current round counter unless no loop state exists (so a task
    initialised inside a running round is deferred like one that already ran, and a task that ran is deferred)."""
    prog = ctx.prog
    h.bind(prog)
    owners = h.mentioning(prog, h.STAMP)         # also those that write it through a cached address
    by_site = {}
    for r in h.minimal_roots(prog, owners):
        g = h.inlined(prog, r)
        tf = h.TaskFlow(prog, g)
        for e in g.events():
            if e['ev'] != 'store' or last_member(e['lhs']) != h.STAMP:
                continue
            S = tf.at.get((e['_b'], e['_i']))
            if S is None:
                continue
            ok = e.get('op') == '=' and (tf.val(e.get('rhs'), S) in ('C', 'Cn') or tf.no_state(S))
            by_site.setdefault((h.origin_fn(prog, g, e).name, e['loc']), []).append((r, e, ok))
    if not by_site:
        raise AnalysisBroken('no store to the task round stamp found')
    for (owner, loc), items in sorted(by_site.items()):
        r, e = items[0][0], items[0][1]
        ctx.ob('R-C06d', '%s:fresh-task-carries-current-round' % owner, all(x[2] for x in items), loc=loc,
               detail='%s: with a loop state present the stored stamp equals the round counter; a task (re)initialised '
                      'inside a running round is then deferred to the next one' % describe(e), fn=r.q)


# --------------------------------------------------------------------------
# R-C06e (+ batch drained, R-C06a)
# --------------------------------------------------------------------------

def batch_pointer(ctx):
    prog = ctx.prog
    h.bind(prog)
    owners = h.mentioning(prog, h.CURRENT)
    publ = {}
    for r in h.minimal_roots(prog, owners):
        g = h.inlined(prog, r)
        # publishing stores: the pointer is given the address of a list head (normally a local of the frame; the rule is
        # the same for a batch head that lives elsewhere: it must not stay published when the runner is done)
        pubs = [e for e in g.events() if e['ev'] == 'store' and e.get('op') == '=' and last_member(e['lhs']) == h.CURRENT
                and h.batch_address(g, e.get('rhs')) is not None]
        for L in sorted({h.batch_address(g, e['rhs']) for e in pubs}):
            mine = [e for e in pubs if h.batch_address(g, e['rhs']) == L]
            is_L = lambda x, L=L: h.batch_address(g, x) == L
            for e in mine:
                publ[e['loc']] = e
            # (1) on every exit the pointer no longer holds the address of the batch head
            def tr(x, s, is_L=is_L):
                if x['ev'] == 'store' and h.CURRENT in h.lvalue_steps(x['lhs']):
                    return is_L(x.get('rhs')) if x.get('op') == '=' else False
                return s
            _, at = forward(g, False, tr, lambda a, b: a or b)
            dangling = [p for p in h.exit_points(g) if at.get(p)]
            ctx.ob('R-C06e', '%s:batch-pointer-cleared' % r.name, not dangling, loc=mine[0]['loc'],
                   detail='the running-batch pointer is published the address %s; on every path to return it is overwritten '
                          'with a value that is not that address' % L, fn=r.q)
            # (2) the batch that was detached into that list is empty when the runner returns
            def tr2(x, s, L=L, is_L=is_L):
                if x['ev'] == 'decl' and '&' + x['name'] == L:
                    return None
                if x['ev'] != 'call':
                    return s
                if 'fnexpr' in x:
                    return False if s is not None else None      # a handler may register into the running batch
                c, args = x.get('callee'), x.get('args', [])
                if c in h.LIST_MOVE_OUT and len(args) == 2:
                    if is_L(args[1]):
                        return False                               # the batch is detached into L
                    if is_L(args[0]):
                        return True if s is not None else None     # whatever is left is moved to another list
                if c in h.LIST_ADD + ('iv_list_splice', 'iv_list_splice_tail', '__iv_list_splice') and any(is_L(a) for a in args):
                    return False
                if c not in ('iv_list_empty',) + h.LIST_DEL and any(is_L(a) for a in args):
                    return False if s is not None else None
                return s
            def edge2(blk, si, s, is_L=is_L):
                if s is False and blk.term and blk.term.get('cond') is not None and len(blk.succ) == 2:
                    for atom in norm_cond(blk.term['cond'], si == 0):
                        t = h.empty_test(atom)              # however the emptiness test is written
                        if t is not None and t[1] and is_L(t[0]):
                            return True
                return s
            def jn(a, b):
                if a is None or b is None:
                    return a if b is None else b
                return a and b
            _, at2 = forward(g, None, tr2, jn, edge=edge2)
            left = [p for p in h.exit_points(g) if at2.get(p) is False]
            ctx.ob('R-C06a', '%s:batch-drained' % r.name, not left, loc=mine[0]['loc'],
                   detail='after the pending tasks were detached into the list at %s the function returns only on the edge where that list is '
                          'empty (or after moving the rest to another list): no detached task is dropped' % L, fn=r.q)
    if not publ:
        raise AnalysisBroken('no function publishes the address of a batch list in the running-batch pointer any more')
    # the dead-frame rule of C18 (borrowed; owned by C18) restricted to the same publishing stores
    sub = []
    import types
    proxy = types.SimpleNamespace(prog=prog, ob=lambda rid, inst, ok, **kw: sub.append((inst, ok, kw)))
    c18.dead_frames(proxy)
    locs = {relpath(l) for l in publ} | set(publ)
    for inst, ok, kw in sub:
        if kw.get('loc') in locs or relpath(kw.get('loc') or '') in locs:
            ctx.ob('R-C06e', inst, ok, **kw)


# --------------------------------------------------------------------------
# R-C06h: the stamp comparison is exact (integer types of the round values)
# --------------------------------------------------------------------------

def exact_stamp(ctx):
    """`stamp == counter` means "this task already ran in the current round" only if a stamp can hold every value the counter takes
    and the two are compared without conversion: otherwise, once the counter has left the range of the narrower type, a task that
    ran this round is never recognised again and its re-registration joins the running batch (the loop spins without polling).
    Necessary condition, on the types the facts record (layout of the records, type of every variable / member / cast / result):
    T = integer type of the round counter;  the stamp member has type T and is a whole object;  in every exported context
    (helpers inlined) every value node through which a round value flows into a stamp store, into a local that carries it on, or
    into a comparison of a stamp value with a counter value has type T."""
    prog = ctx.prog
    h.bind(prog)
    T = h.field_ctype(prog, h.COUNTER)
    S = h.field_ctype(prog, h.STAMP)
    sfd = h._member_type(prog, h.STAMP)
    rec_loc = (prog.records.get(h.STAMP[0]) or {}).get('loc')
    whole = h.field_whole(prog, h.STAMP) and h.field_whole(prog, h.COUNTER)
    ctx.ob('R-C06h', 'round-stamp:same-integer-type-as-round-counter', T[0] == 'i' and S == T and whole, loc=rec_loc,
           detail='%s.%s is `%s` (%s), %s.%s is %s%s: a stamp holds exactly the values of the round counter'
                  % (h.STAMP[0], h.STAMP[1], sfd.get('type'), h.ctype_text(S), h.COUNTER[0], h.COUNTER[1], h.ctype_text(T),
                     '' if whole else '; one of them shares its storage with another member (bit-field)'))

    def exact(n):
        t = h.node_type(n)
        return t is not None and h.int_ctype(prog, t) == T

    def wrong(x):
        """the value nodes of x that are not of type T"""
        return [n for n in h.value_nodes(x) if not exact(n)]

    def show(ns):
        return ', '.join(sorted({'%s is `%s`' % (h.describe_node(n), h.node_type(n)) for n in ns}))

    # every function that reads or writes one of the two (also in a branch condition only)
    owners = {f.q: f for f in roles.functions_with(prog, lambda e: any(k in (h.STAMP, h.COUNTER) for k in h.members(e)))}
    stores, carried, compared = {}, {}, {}
    for r in h.minimal_roots(prog, list(owners.values())):
        g = h.inlined(prog, r)
        rt = h.RoundTypes(prog, g)
        for e in g.events():
            if e['ev'] == 'store' and 'rhs' in e and last_member(e['lhs']) == h.STAMP:
                lhs_bad = [n for n in h.value_nodes(e['lhs']) if not exact(n)]
                stores.setdefault((h.origin_fn(prog, g, e).name, e['loc']), []).append((r, e, lhs_bad + wrong(e['rhs'])))
            elif e['ev'] == 'enter':
                # a round value bound to a parameter of an inlined helper (the parameter itself is substituted away)
                for q in e.get('targets', ()):
                    t = prog.funcs.get(q)
                    for p, a in zip(t.params if t else (), e.get('args', ())):
                        if rt.tags(a) and '*' not in p.get('type', '') and 'record' not in p:
                            bad = ([{'k': 'var', 'name': '%s (parameter of %s)' % (p['name'], t.name), 'type': p['type']}]
                                   if h.int_ctype(prog, p['type']) != T else []) + wrong(a)
                            carried.setdefault((h.origin_fn(prog, g, e).name, e['loc'], t.name + ':' + p['name']), []).append((r, e, bad))
        for n, evs in rt.defs.items():
            for e in evs:
                bad = [x for x in h.value_nodes(e['lhs']) if not exact(x)] + wrong(e['rhs'])
                carried.setdefault((h.origin_fn(prog, g, e).name, e['loc'], 'result' if n.startswith('$ret') else n.split('@')[0].split('~')[0]), []).append((r, e, bad))
        for (b, loc, e) in rt.comparisons():
            o = h.origin_fn(prog, g, e).name if e is not None else r.name
            compared.setdefault((o, loc), []).append((r, b, wrong(b.get('l')) + wrong(b.get('r'))))
    if not stores:
        raise AnalysisBroken('no store to the task round stamp found')
    if not compared:
        raise AnalysisBroken('no comparison of a task round stamp with the round counter found (the test that defers a re-registration)')
    for (owner, loc), items in sorted(stores.items()):
        bad = [n for it in items for n in it[2]]
        ctx.ob('R-C06h', '%s:stamp-stored-exactly' % owner, not bad, loc=loc,
               detail='%s: the stored value and everything it passes through (variable, cast, helper result) has the type of the round '
                      'counter (%s)%s' % (describe(items[0][1]), h.ctype_text(T), (': ' + show(bad)) if bad else ''), fn=items[0][0].q)
    for (owner, loc, what), items in sorted(carried.items(), key=lambda kv: (kv[0][0], str(kv[0][1]), kv[0][2])):
        bad = [n for it in items for n in it[2]]
        ctx.ob('R-C06h', '%s:round-carried-exactly:%s' % (owner, what), not bad, loc=loc,
               detail='a round value (stamp / round counter) is copied into a local, parameter or helper result of the type of the round '
                      'counter (%s) without conversion%s' % (h.ctype_text(T), (': ' + show(bad)) if bad else ''), fn=items[0][0].q)
    for (owner, loc), items in sorted(compared.items(), key=lambda kv: (kv[0][0], str(kv[0][1]))):
        bad = [n for it in items for n in it[2]]
        ctx.ob('R-C06h', '%s:stamp-compared-exactly' % owner, not bad, loc=loc,
               detail='a stamp value is compared with a round-counter value: both operands, and everything they pass through, have the '
                      'type of the round counter (%s)%s' % (h.ctype_text(T), (': ' + show(bad)) if bad else ''), fn=items[0][0].q)
