"""R-CMP: comparator tables and hand-rolled lookup descents, by finite-ordering
evaluation (ivy.interp)."""
from .core import AnalysisBroken, canon, strip, last_member
from .analyses import loops
from . import interp


def sign(v):
    return (v > 0) - (v < 0) if isinstance(v, int) else None


def key_comparator(ctx, rid, fn, field):
    """Comparator ordering nodes by one scalar key `field` of their container:
    returns <0 / 0 / >0 exactly as the key order."""
    f = ctx.prog.fn(fn)
    pairs, bools = interp.atoms_of(f)
    kp = [p for p in pairs if p[0].endswith('->' + field) and p[1].endswith('->' + field)]
    if len(kp) != 1 or len(pairs) != 1 or bools:
        raise AnalysisBroken('%s is no longer a single-key comparator on %s (pairs %s, flags %s)' % (fn, field, pairs, bools))
    a_first = kp[0][0].split('->')[0]
    # which operand is the comparator's first parameter?
    first_param = None
    for e in f.events():
        if e['ev'] in ('decl', 'store'):
            src = e.get('init') or e.get('rhs')
            nm = e.get('name') or canon(e.get('lhs'))
            if src is not None and strip(src).get('k') == 'container_of' and canon(strip(src)['e']) == f.params[0]['name']:
                first_param = nm
    if first_param is None:
        raise AnalysisBroken('%s: container of the first parameter not found' % fn)
    for o in '<=>':
        r = interp.run(f, interp.Assignment(orders={kp[0]: o}))['ret']
        eff = o if a_first == first_param else {'<': '>', '>': '<', '=': '='}[o]
        want = {'<': -1, '=': 0, '>': 1}[eff]
        ctx.ob(rid, '%s:%s(a)%s%s(b)' % (fn, field, eff, field), sign(r) == want, loc=f.loc,
               detail='returns %s, expected sign %d' % (r, want), fn=f.q)


def descent(ctx, rid, fn, field, on_equal='return', sought=None):
    """Hand-rolled tree lookup: one loop iteration evaluated for the three
    orderings of (sought key, node key): '<' must go left, '>' right, '='
    returns the node (on_equal='return') or records it and keeps going left
    (on_equal='first')."""
    f = ctx.prog.fn(fn)
    lps = loops(f)
    if len(lps) != 1:
        raise AnalysisBroken('%s: expected exactly one loop, found %d' % (fn, len(lps)))
    h = list(lps)[0]
    body = lps[h]
    pairs, bools = interp.atoms_of(f, blocks=body)
    kp = [p for p in pairs if p[0].endswith('->' + field) or p[1].endswith('->' + field)]
    if not kp or any(p not in kp for p in pairs):
        raise AnalysisBroken('%s: loop compares %s, expected only the key %s' % (fn, pairs, field))
    # all comparisons must be between the same two operands
    ops = {frozenset(p) for p in kp}
    if len(ops) != 1:
        raise AnalysisBroken('%s: more than one key pair compared: %s' % (fn, kp))
    a, b = kp[0]
    node_side = a if a.endswith('->' + field) else b
    other = b if node_side == a else a
    for o in '<=>':
        # ordering of (sought, node key)
        orders = {}
        for p in kp:
            orders[p] = o if p[0] == other else {'<': '>', '>': '<', '=': '='}[o]
        asg = interp.Assignment(orders=orders, bools={x: True for x in bools})
        res = interp.run(f, asg, start=h, stop_block=h)
        stores = [(canon(e['lhs']), canon(e['rhs'])) for e in res['trace'] if e['ev'] == 'store' and 'rhs' in e]
        went = None
        for (l, r) in stores:
            if r.endswith('->left'):
                went = 'left'
            elif r.endswith('->right'):
                went = 'right'
        recorded = any(not r.endswith(('->left', '->right')) and '->' not in l and 'container_of' not in r and r in [s[0] for s in stores] + [x for x in bools]
                       for (l, r) in stores)
        if o == '<':
            ok = went == 'left' and res['end'] != 'ret'
            exp = 'descends left'
        elif o == '>':
            ok = went == 'right' and res['end'] != 'ret'
            exp = 'descends right'
        else:
            if on_equal == 'return':
                ok = res['end'] == 'ret' and res['ret'] not in (0, None)
                exp = 'returns the node'
            else:
                best = [(l, r) for (l, r) in stores if not r.endswith(('->left', '->right')) and 'container_of' not in r]
                ok = went == 'left' and bool(best)
                exp = 'records the node and keeps descending left (finds the first of equal keys)'
        ctx.ob(rid, '%s:sought%snode' % (fn, o), ok, loc=f.loc,
               detail='%s: went %s, ended %s; expected: %s' % (stores, went, res['end'], exp), fn=f.q)
    # falling out of the loop (NULL) returns NULL / the recorded best
