"""C05 — timers run in expiry order and are independent at any population size.

Heap order over arbitrary key sequences and the radix arithmetic are value-level
invariants over unbounded histories: not decided.  Claimed: structural clauses.
"""
from ..core import (names_of, same_value, AnalysisBroken, Inliner, canon, strip, last_member, must_pass, relpath, norm_cond, walk, forward)
from ..analyses import (is_call, holding, path_to, describe, exits_of, loops, innermost_loop, must_pass_from_block, edge_dominates)
from .c04 import cmp_tables


def run(ctx):
    ctx.rule('R-C05a', 'removal restores heap order in both directions: after the removed slot was refilled from the last element, every '
                       'path to return sifts that slot, and both sift-up and sift-down are applied; registration sifts the new slot up', floor=4)
    ctx.rule('R-C05a.step', 'sift decisions use the strict order consistently: sift-up stops unless the parent is strictly later; sift-down '
                            'moves to a child only if the current minimum is strictly later than that very child, recording that child\'s index', floor=5)
    ctx.rule('R-C05a.cmp', 'the order the sift steps use is timespec_gt on the expiry (table as in C04)', floor=10)
    ctx.rule('R-C05b', 'slot and back-index move together: every store of a timer into a heap slot is paired with a store of that timer\'s '
                       'index before the step ends; only iv_timer.c writes index / num_timers', floor=7)
    ctx.rule('R-C05c', 'the vacated last slot is cleared before the count drops; a radix level is dropped only at the power-of-split boundary '
                       'and with it the depth', floor=3)
    ctx.section(both_ways)
    ctx.section(steps)
    ctx.section(lambda c: cmp_tables(c, 'R-C05a.cmp'))
    ctx.section(slots)
    ctx.section(vacated)


def both_ways(ctx):
    prog = ctx.prog
    f = prog.fn('iv_timer_unregister')
    fills = [e for e in f.events() if e['ev'] == 'store' and strip(e['lhs']).get('k') == 'deref' and strip(e.get('rhs', {})).get('k') == 'deref']
    if not fills:
        raise AnalysisBroken('iv_timer_unregister: refill of the removed slot from the last slot not found')
    fill = fills[0]
    slot = canon(strip(fill['lhs'])['e'])
    last = canon(strip(fill['rhs'])['e'])
    ups = [e for e in f.events() if is_call(e, 'pull_up')]
    downs = [e for e in f.events() if is_call(e, 'push_down')]
    # after the refill, every path to return sifts the slot, unless it is known to be the last slot itself
    def tr(e, s_, fill=fill):
        if e is fill:
            return False
        if s_ is None:
            return None
        if (e in ups or e in downs) and canon(e['args'][2]) == slot:
            return True
        return s_
    def edge(blk, si, s_):
        if s_ is False and blk.term and blk.term.get('cond') is not None and len(blk.succ) == 2:
            for (op, lc, rc, l, r) in norm_cond(blk.term['cond'], si == 0):
                if op == '==' and {lc, rc} == {slot, last}:
                    return True
        return s_
    def jn(a_, b_):
        if a_ is None:
            return b_
        if b_ is None:
            return a_
        return a_ and b_
    _, ev_in = forward(f, None, tr, jn, edge=edge, start=fill['_b'])
    pts = [(pb, pi) for (pb, pi, _) in exits_of(f)] + [(f.exit, 0)]
    ok = all(ev_in.get(p) is not False for p in pts)
    ctx.ob('R-C05a', 'unregister:refilled-slot-is-sifted', ok, loc=fill['loc'],
           detail='after %s every path to return sifts %s, except where the refilled slot is the last slot itself (%s == %s)' % (describe(fill), slot, slot, last), fn=f.q)
    reach = set()
    st = [fill['_b']]
    while st:
        x = st.pop()
        if x in reach or x is None:
            continue
        reach.add(x)
        st.extend(f.blocks[x].succ)
    ctx.ob('R-C05a', 'unregister:sift-up-present', any(e['_b'] in reach for e in ups), loc=fill['loc'],
           detail='the replacement may be earlier than its new parent: pull_up(%s) is applied' % slot, fn=f.q)
    ctx.ob('R-C05a', 'unregister:sift-down-present', any(e['_b'] in reach for e in downs), loc=fill['loc'],
           detail='the replacement may be later than its new children: push_down(%s) is applied' % slot, fn=f.q)
    r = prog.fn('iv_timer_register')
    mp = must_pass(r, lambda e: is_call(e, 'pull_up'))
    ctx.ob('R-C05a', 'register:new-slot-sifted-up', bool(mp.get((r.exit, 0))), loc=r.loc, detail='pull_up on every path of registration', fn=r.q)


def steps(ctx):
    prog = ctx.prog
    up = prog.fn('pull_up')
    hd = holding(up)
    swaps = [e for e in up.events() if e['ev'] == 'store' and strip(e['lhs']).get('k') == 'deref']
    if not swaps:
        raise AnalysisBroken('pull_up: swap not found')
    pv = [p['name'] for p in up.params]
    cur = pv[2]
    ok = True
    firsts = {}
    for e in swaps:
        if e['_b'] not in firsts or e['_i'] < firsts[e['_b']]['_i']:
            firsts[e['_b']] = e
    for e in firsts.values():      # the first store of each swap sequence (later ones follow a store through a pointer)
        A = hd.get((e['_b'], e['_i']), frozenset())
        # on the edge timer_ptr_gt(*parentslot, *cur) != 0
        if not any(a[0] == '!=' and a[2] == '0' and a[1].startswith('timer_ptr_gt(*') and a[1].endswith(', *%s)' % cur) for a in A):
            ok = False
    ctx.ob('R-C05a.step', 'pull_up:swap-iff-parent-strictly-later', ok, loc=swaps[0]['loc'],
           detail='the swap with the parent is on the edge timer_ptr_gt(*parent, *%s) != 0' % cur, fn=up.q)
    par = [e for e in up.events() if is_call(e, 'iv_timer_get_node')]
    okp = bool(par) and all(canon(e['args'][1]) in ('parent', '(index / 2)') for e in par)
    pdef = [e for e in up.events() if e['ev'] == 'store' and canon(e['lhs']) == 'parent']
    okp = okp and all(canon(e['rhs']) == '(index / 2)' for e in pdef)
    ctx.ob('R-C05a.step', 'pull_up:parent-is-index/2', okp, loc=up.loc, detail='the compared slot is heap[index / 2]', fn=up.q)
    dn = prog.fn('push_down')
    hd = holding(dn)
    sel = [e for e in dn.events() if e['ev'] == 'store' and canon(e['lhs']) == 'imin' and canon(e.get('rhs')) != dn.params[2]['name']]
    if len(sel) < 2:
        raise AnalysisBroken('push_down: child selections not found')
    for e in sel:
        rhs = canon(e['rhs'])
        child = {'p': ('p[0]', '*p', '(2 * index)'), '(p + 1)': ('p[1]', '*(p + 1)', '((2 * index) + 1)')}.get(rhs)
        A = hd.get((e['_b'], e['_i']), frozenset())
        ok = child is not None and any(a[0] == '!=' and a[2] == '0' and a[1] in ('timer_ptr_gt(*imin, %s)' % child[0], 'timer_ptr_gt(*imin, %s)' % child[1]) for a in A)
        ctx.ob('R-C05a.step', 'push_down:select %s only-if-strictly-earlier' % rhs, bool(ok), loc=e['loc'],
               detail='imin = %s is on the edge timer_ptr_gt(*imin, <that child>) != 0' % rhs, fn=dn.q)
        # index_min recorded for the same child in the same block
        idx = [x for x in dn.events() if x['ev'] == 'store' and canon(x['lhs']) == 'index_min' and x['_b'] == e['_b']]
        ctx.ob('R-C05a.step', 'push_down:index of %s' % rhs, child is not None and bool(idx) and all(canon(x['rhs']) == child[2] for x in idx), loc=e['loc'],
               detail='index_min = %s is recorded with the selection of %s' % (child[2] if child else '?', rhs), fn=dn.q)
    # children fetched from slot 2*index, guarded by 2*index <= num_timers
    g = [e for e in dn.events() if is_call(e, 'iv_timer_get_node')]
    okg = bool(g)
    for e in g:
        A = hd.get((e['_b'], e['_i']), frozenset())
        okg = okg and canon(e['args'][1]) == '(2 * index)' and any(a[0] == '<=' and a[1] == '(2 * index)' and 'num_timers' in a[2] for a in A)
    ctx.ob('R-C05a.step', 'push_down:children-within-heap', okg, loc=dn.loc, detail='children are read only when 2*index <= num_timers', fn=dn.q)
    t = prog.fn('timer_ptr_gt')
    rets = [e for (pb, pi, e) in exits_of(t)]
    okt = len(rets) == 1 and canon(rets[0]['value']) == 'timespec_gt(&%s->expires, &%s->expires)' % (t.params[0]['name'], t.params[1]['name'])
    ctx.ob('R-C05a.step', 'timer_ptr_gt:is-expiry-order', okt, loc=t.loc, detail='timer order is timespec_gt on the expires fields, first argument first', fn=t.q)


def slots(ctx):
    prog = ctx.prog
    n = 0
    for fn in ('pull_up', 'push_down', 'iv_timer_register', 'iv_timer_unregister'):
        f = prog.fn(fn)
        lps = loops(f)
        for e in f.events():
            if e['ev'] != 'store' or strip(e['lhs']).get('k') != 'deref':
                continue
            if 'iv_timer_ *' not in strip(e['lhs']).get('type', ''):
                continue
            if canon(e.get('rhs')) in ('NULL', '0'):
                continue
            slotp = canon(strip(e['lhs'])['e'])
            rhs = strip(e['rhs'])
            rv = rhs['name'] if isinstance(rhs, dict) and rhs.get('k') == 'var' else None
            def paired(x, slotp=slotp, rv=rv):
                if x['ev'] != 'store' or last_member(x['lhs']) != ('iv_timer_', 'index'):
                    return False
                b = canon(strip(x['lhs'])['base'])
                return b == '*' + slotp or (rv is not None and b == rv)
            mp = must_pass(f, paired, start_event=e)
            # reassigning the slot pointer before the pairing breaks it
            h = innermost_loop(f, e['_b'], lps)
            bad = False
            pts = [(pb, pi) for (pb, pi, _) in exits_of(f)] + [(f.exit, 0)]
            for p in pts:
                if mp.get(p) is False:
                    bad = True
            if h is not None:
                for b in lps[h]:
                    for si, s_ in enumerate(f.blocks[b].succ):
                        if s_ == h and mp.get((b, len(f.blocks[b].events))) is False:
                            bad = True
            n += 1
            ctx.ob('R-C05b', '%s:%s' % (fn, describe(e)), not bad, loc=e['loc'],
                   detail='the timer stored into the slot gets its index updated before the step / function ends', fn=f.q)
    if n < 6:
        raise AnalysisBroken('heap slot stores: %d found, 6 confirmed' % n)
    for fld in (('iv_timer_', 'index'), ('iv_state', 'num_timers')):
        ws = {relpath(fn.file).split('/')[-1] for (fn, e) in prog.writers_of(*fld)}
        ctx.ob('R-C05b', '%s.%s:writers' % fld, ws <= {'iv_timer.c'}, loc=prog.fn('iv_timer_register').loc, detail='written in: %s' % sorted(ws))


def vacated(ctx):
    prog = ctx.prog
    f = prog.fn('iv_timer_unregister')
    clr = [e for e in f.events() if e['ev'] == 'store' and strip(e['lhs']).get('k') == 'deref' and canon(e.get('rhs')) in ('NULL', '0')]
    dec = [e for e in f.events() if e['ev'] == 'store' and last_member(e['lhs']) == ('iv_state', 'num_timers') and e['op'] == '--']
    if not dec:
        raise AnalysisBroken('iv_timer_unregister: num_timers-- not found')
    mp = must_pass(f, lambda e: e in clr)
    ctx.ob('R-C05c', 'unregister:last-slot-cleared-before-count-drops', bool(clr) and all(mp.get((e['_b'], e['_i'])) for e in dec), loc=dec[0]['loc'],
           detail='*m = NULL precedes num_timers-- (sift-down relies on NULL beyond the end)', fn=f.q)
    # the cleared slot is the last one
    mdef = [e for e in f.events() if e['ev'] == 'store' and clr and canon(e['lhs']) == canon(strip(clr[0]['lhs'])['e'])]
    okm = bool(mdef) and all('num_timers' in canon(e['rhs']) for e in mdef)
    ctx.ob('R-C05c', 'unregister:cleared-slot-is-last', okm, loc=clr[0]['loc'] if clr else f.loc, detail='the cleared slot is heap[num_timers]', fn=f.q)
    rm = [e for e in f.events() if is_call(e, 'iv_timer_radix_tree_remove_level')]
    hd = holding(f)
    ok = bool(rm)
    for e in rm:
        A = hd.get((e['_b'], e['_i']), frozenset())
        ok = ok and any(a[0] == '==' and 'num_timers' in a[1] and '<<' in a[2] and 'rat_depth' in a[2] for a in A) \
            and any(a[0] == '>' and a[1].endswith('rat_depth') and a[2] == '0' for a in A)
    r = prog.fn('iv_timer_radix_tree_remove_level')
    mpd = must_pass(r, lambda e: e['ev'] == 'store' and last_member(e['lhs']) == ('iv_state', 'rat_depth') and e['op'] == '--')
    ctx.ob('R-C05c', 'unregister:level-dropped-at-boundary', ok and bool(mpd.get((r.exit, 0))), loc=rm[0]['loc'] if rm else f.loc,
           detail='remove_level only when num_timers == 1 << (rat_depth * SPLIT_BITS) and rat_depth > 0; it decrements rat_depth', fn=f.q)
