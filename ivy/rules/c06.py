"""C06 — tasks run exactly once before the loop sleeps and cannot starve polling."""
from ..core import (names_of, same_value, AnalysisBroken, Inliner, canon, strip, last_member, must_pass, relpath, norm_cond, walk, forward)
from ..analyses import (is_call, holding, path_to, describe, exits_of, callback_kind, loops, innermost_loop,
                        must_pass_from_block, list_empty_test)
from . import c01, c18


def run(ctx):
    ctx.rule('R-C06a', 'a task is unlinked, counted out and stamped with the current round before its handler is called; '
                       'the round counter is advanced before the first handler of a round', floor=4)
    ctx.rule('R-C06b', 'with tasks pending the poll deadline is the address of a local timespec whose both fields were stored 0', floor=1)
    ctx.rule('R-C06c', 'tasks run in every loop iteration before the poll call', floor=1)
    ctx.rule('R-C06d', 'a task is linked into the running batch only on the edge where its round stamp differs from the '
                       'current round (a task that already ran this round is deferred to the next)', floor=3)
    ctx.rule('R-C06e', 'the running-batch pointer (address of a local) is cleared on every exit of the runner', floor=1)
    ctx.rule('R-C06f', 'the zero deadline reaches the kernel wait: the poll gets the caller\'s deadline unless a kernel timer is armed for a '
                       'deadline that is not later (shared with C04 R-C04f)', floor=3)
    ctx.section(lambda c: __import__('ivy.rules.c04', fromlist=['x']).keep_armed(c, 'R-C06f'))
    ctx.section(runner)
    ctx.section(zero_timeout)
    ctx.section(register)
    ctx.section(fresh_stamp)
    ctx.section(batch_pointer)


def runner(ctx):
    prog = ctx.prog
    f = prog.fn('iv_run_tasks')
    sites = [e for e in f.events() if callback_kind(e) == ('callback', 'task')]
    if not sites:
        raise AnalysisBroken('task handler call site not found')
    lps = loops(f)
    for cs in sites:
        obj = canon(strip(cs['fnexpr'])['base'])
        h = innermost_loop(f, cs['_b'], lps)
        if h is None:
            raise AnalysisBroken('task handler call not in a loop')
        def per_iter(pred):
            def tr(e, s):
                return True if pred(e) else s
            def edge(blk, si, s):
                return False if blk.succ[si] == h else s
            _, ev_in = forward(f, False, tr, lambda a, b: a and b, edge=edge)
            return bool(ev_in.get((cs['_b'], cs['_i'])))
        ok = per_iter(lambda e: is_call(e, ('iv_list_del', 'iv_list_del_init')) and canon(e['args'][0]) == '&%s->list' % obj)
        ctx.ob('R-C06a', 'iv_run_tasks:unlinked', ok, loc=cs['loc'], detail='iv_list_del*(&%s->list) before the handler, every iteration' % obj, fn=f.q)
        ok = per_iter(lambda e: e['ev'] == 'store' and last_member(e['lhs']) == ('iv_state', 'numobjs') and e['op'] == '--')
        ctx.ob('R-C06a', 'iv_run_tasks:counted-out', ok, loc=cs['loc'], detail='numobjs-- before the handler (the task is unregistered when its handler runs)', fn=f.q)
        # stamp: obj->epoch = V where V was assigned from the pre-incremented round counter
        stamps = [e for e in f.events() if e['ev'] == 'store' and last_member(e['lhs']) == ('iv_task_', 'epoch')
                  and canon(strip(e['lhs'])['base']) == obj]
        ok = bool(stamps) and per_iter(lambda e: e in stamps)
        src_ok = False
        for s in stamps:
            v = strip(s['rhs'])
            if last_member(v) == ('iv_state', 'task_epoch'):
                src_ok = True
            elif isinstance(v, dict) and v.get('k') == 'var':
                for d in f.events():
                    if d['ev'] == 'store' and canon(d['lhs']) == v['name'] and any(
                            last_member(x) == ('iv_state', 'task_epoch') for x in walk(d.get('rhs', {})) if x.get('k') == 'member'):
                        src_ok = True
        ctx.ob('R-C06a', 'iv_run_tasks:stamped', ok and src_ok, loc=cs['loc'],
               detail='%s->epoch is stored the current round number before the handler' % obj, fn=f.q)
        adv = must_pass(f, lambda e: e['ev'] == 'store' and last_member(e['lhs']) == ('iv_state', 'task_epoch') and e['op'] in ('++', '+='))
        ctx.ob('R-C06a', 'iv_run_tasks:round-advanced', bool(adv.get((cs['_b'], cs['_i']))), loc=cs['loc'],
               detail='st->task_epoch is advanced before the first handler of the round', fn=f.q)


def zero_timeout(ctx):
    prog = ctx.prog
    f = prog.fn('iv_main')
    g = Inliner(prog, stop=lambda t: t.name in ('iv_fd_poll_and_run', 'iv_run_tasks', 'iv_run_timers', 'iv_get_soonest_timeout')).inline(f)
    polls = [e for e in g.events() if is_call(e, 'iv_fd_poll_and_run')]
    if len(polls) != 1:
        raise AnalysisBroken('iv_main: poll call not found')
    poll = polls[0]
    lps = loops(g)
    h = innermost_loop(g, poll['_b'], lps)
    cut = frozenset((b, si) for b in lps[h] for si, s in enumerate(g.blocks[b].succ) if s == h)
    # the pending-tasks branch
    found = False
    for b, blk in g.blocks.items():
        if not (blk.term and blk.term.get('cond') is not None and len(blk.succ) == 2):
            continue
        for si in (0, 1):
            for atom in norm_cond(blk.term['cond'], si == 0):
                t = list_empty_test(atom, member_key=('iv_state', 'tasks'))
                pend = (t == 'nonempty')
                (op, lc, rc, l, r) = atom
                if not pend and lc.startswith('$ret') and op == '!=' and rc == '0':
                    # inlined iv_pending_tasks(): its return temporary
                    pend = any(e['ev'] == 'store' and canon(e['lhs']) == lc and 'iv_list_empty' in canon(e.get('rhs', {})) for e in g.events())
                if not pend:
                    continue
                found = True
                start = blk.succ[si]
                dl = canon(poll['args'][1])
                asg = [e for e in g.events() if e['ev'] == 'store' and canon(e['lhs']) == dl]
                def zero(field):
                    return lambda e: e['ev'] == 'store' and e.get('op') == '=' and canon(e.get('rhs')) == '0' \
                        and last_member(e['lhs']) == ('timespec', field)
                for what, pred in (('deadline-is-local', lambda e: e in asg and strip(e['rhs']).get('k') == 'addr'
                                    and strip(strip(e['rhs'])['e']).get('vk') == 'local'),
                                   ('tv_sec=0', zero('tv_sec')), ('tv_nsec=0', zero('tv_nsec'))):
                    mp = must_pass_from_block(g, start, pred, cut=cut)
                    ok = bool(mp.get((poll['_b'], poll['_i'])))
                    ctx.ob('R-C06b', 'iv_main:pending-tasks:%s' % what, ok, loc=poll['loc'],
                           detail='on every path from the tasks-pending edge to the poll call: %s' % what, fn=f.q)
    if not found:
        ctx.ob('R-C06b', 'iv_main:pending-tasks:tested', False, loc=poll['loc'],
               detail='the poll deadline does not depend on a test of the pending-task list: with tasks pending the loop may sleep', fn=f.q)
    # R-C06c
    def tr(e, s):
        return True if is_call(e, 'iv_run_tasks') else s
    def edge(blk, si, s):
        return False if blk.succ[si] == h else s
    _, ev_in = forward(g, False, tr, lambda a, b: a and b, edge=edge)
    ctx.ob('R-C06c', 'iv_main:tasks-before-poll', bool(ev_in.get((poll['_b'], poll['_i']))), loc=poll['loc'],
           detail='iv_run_tasks is executed in every iteration before iv_fd_poll_and_run', fn=f.q)


def register(ctx):
    prog = ctx.prog
    f = prog.fn('iv_task_register')
    hd = holding(f)
    adds = [e for e in f.events() if is_call(e, ('iv_list_add', 'iv_list_add_tail')) and c01._list_arg_member(e) == ('iv_task_', 'list')]
    if len(adds) < 2:
        raise AnalysisBroken('iv_task_register: expected adds to the pending list and to the running batch')
    cur = [e for e in adds if last_member(e['args'][1]) == ('iv_state', 'tasks_current')]
    pend = [e for e in adds if last_member(strip(e['args'][1]).get('e') if strip(e['args'][1]).get('k') == 'addr' else None) == ('iv_state', 'tasks')]
    ctx.ob('R-C06d', 'iv_task_register:targets', bool(cur) and bool(pend) and len(cur) + len(pend) == len(adds), loc=f.loc,
           detail='a task is linked either into st->tasks or into the running batch *st->tasks_current', fn=f.q)
    for e in cur:
        A = hd.get((e['_b'], e['_i']), frozenset())
        differs = any(a[0] == '!=' and {('iv_task_', 'epoch'), ('iv_state', 'task_epoch')} <= set(a[3]) for a in A)
        running = any(a[0] == '!=' and a[2] == '0' and ('iv_state', 'tasks_current') in a[3] for a in A)
        ctx.ob('R-C06d', 'iv_task_register:running-batch-only-if-not-run-yet', differs, loc=e['loc'],
               detail='link into the running batch is on the edge t->epoch != st->task_epoch', path=None if differs else path_to(f, e), fn=f.q)
        ctx.ob('R-C06d', 'iv_task_register:running-batch-exists', running, loc=e['loc'],
               detail='... and on the edge st->tasks_current != NULL', fn=f.q)


def fresh_stamp(ctx):
    """Every store to a task's round stamp other than the runner's own is the
    current round counter (so a task initialised inside a running round is
    deferred like one that already ran)."""
    from .. import interp
    prog = ctx.prog
    n = 0
    for (fn, e) in prog.writers_of('iv_task_', 'epoch'):
        if fn.name == 'iv_run_tasks':
            continue
        n += 1
        # evaluate the stored expression with a thread state present
        stv = None
        for x in walk(e['rhs']):
            if x.get('k') == 'member' and last_member(x) == ('iv_state', 'task_epoch'):
                stv = canon(x['base'])
        ok = False
        if stv is not None:
            asg = interp.Assignment(bools={stv: True}, ints={'%s->task_epoch' % stv: 12345})
            try:
                ok = interp.evaluate(e['rhs'], asg, {}) == 12345
            except interp.Undecided:
                ok = False
        ctx.ob('R-C06d', '%s:fresh-task-carries-current-round' % fn.name, ok, loc=e['loc'],
               detail='%s: with a loop state present the stored stamp is the current round (st->task_epoch); a task (re)initialised '
                      'inside a running round is then deferred to the next one' % describe(e), fn=fn.q)
    if n == 0:
        raise AnalysisBroken('no initialiser of the task round stamp found')


def batch_pointer(ctx):
    sub = []
    class Sub:
        pass
    # reuse the dead-frame rule of C18 restricted to the task runner
    import types
    proxy = types.SimpleNamespace(prog=ctx.prog, ob=lambda rid, inst, ok, **kw: sub.append((inst, ok, kw)))
    c18.dead_frames(proxy)
    hit = [x for x in sub if x[0].startswith('iv_run_tasks:')]
    if not hit:
        raise AnalysisBroken('iv_run_tasks does not publish the address of its batch any more')
    for inst, ok, kw in hit:
        ctx.ob('R-C06e', inst, ok, **kw)
