"""C10 — iv_signal: every delivery reaches the interests with documented fan-out.

Fan-out multiplicities over *schedules* are not decided.  What is decided:

  * behaviour of each entry point of iv_signal.c on a finite family of model
    worlds (h10.SigMachine: evaluation of the extracted facts over small trees
    of interests; nothing of the repository is executed): comparator table,
    lookup + wake walk of the signal handler, pid gate, thread-before-process
    order, the raw-event handler, register / unregister (disposition edges,
    counts, tree choice, exclusive hand-off), post-fork reset, atfork hooks;
  * path properties that need no model (must-pass / lockset analyses on the
    public roots with every helper of the file inlined).

Functions are found by role, never by name: the signal handler is what
iv_signal_register passes to sigaction(), the raw-event handler is what it
stores in ev.handler, the comparator is what is installed in the `compare`
slot of the trees, the fork hooks are the arguments of pthr_atfork(); file
scope objects are found by type.  Only the exported API
(iv_signal_register, iv_signal_unregister, iv_signal_child_reset_postfork,
iv_wait_interest_register_spawn) and the library primitives are named.
"""
import functools
import itertools
from ..core import (AnalysisBroken, Inliner, canon, strip, last_member, must_pass, norm_cond, walk, is_int)
from ..analyses import (is_call, describe, callback_kind, locksets, held, SIGBLOCK, lock_id)
from .. import cmprules
from . import h10
from .h10 import SigMachine, Stuck, Fatal, NonTerm, UNK
from .c11 import null_rule
from .c14 import roots_of

EXCL = 1          # IV_SIGNAL_FLAG_EXCLUSIVE
THIS_THREAD = 2   # IV_SIGNAL_FLAG_THIS_THREAD
PID = 4242
S = 5             # the delivered signal in the model worlds


def run(ctx):
    ctx.rule('R-C10.cmp', 'ordering table: the interest comparator is the lexicographic order (signal number, exclusive first, address) over all '
                          '36 abstract cases; in every model world the handler\'s walk starts at the first interest of the delivered '
                          'signal, wakes only that signal, reaches every shared interest and stops after the first exclusive one', floor=42)
    ctx.rule('R-C10a', 'pid gate first: in the process signal handler the owner-pid test dominates every other action; the receiving '
                       'thread\'s interests are served before (and instead of) the process-wide ones, which are walked under the lock', floor=6)
    ctx.rule('R-C10b', 'active is cleared before the user handler, with all signals blocked (process-wide interests: under the signal lock); '
                       'the mask is restored before the handler', floor=7)
    ctx.rule('R-C10c', 'the signal lock is taken only with all signals blocked (outside the handler itself)', floor=4)
    ctx.rule('R-C10d', 'disposition follows the interest count: the library handler is installed on the 0->1 edge, SIG_DFL restored on the '
                       '1->0 edge; count changes are balanced; the exclusive hand-off happens on the other arm inside the lock region', floor=25)
    ctx.rule('R-C10e', 'the forked child is reset before user code runs; the atfork handlers bracket the signal lock', floor=7)
    ctx.rule('R-C10g', 'NULL-CONTRADICTION in iv_signal.c (shared with C11)', floor=0)
    sig = Sig(ctx.prog)
    ctx.section(tables, sig)
    ctx.section(gate, sig)
    ctx.section(event_side, sig)
    ctx.section(lock_blocked, sig)
    ctx.section(disposition, sig)
    ctx.section(fork, sig)
    ctx.section(nulls, sig)
    ctx.section(coverage, sig)


def guarded(fn):
    """a trace the obligations cannot be read from (a mutant posting something that is no interest, ...) is a
    broken analysis of that section, not a crash of the check"""
    @functools.wraps(fn)
    def w(ctx, sig):
        try:
            return fn(ctx, sig)
        except (KeyError, IndexError, TypeError, ValueError, AttributeError) as e:
            raise AnalysisBroken('%s: the model trace cannot be interpreted (%s: %s)' % (fn.__name__, type(e).__name__, e))
    return w


# --------------------------------------------------------------------------
# roles
# --------------------------------------------------------------------------

class Sig:
    """Anchors of iv_signal.c, by role."""

    def __init__(self, prog):
        self.prog = prog
        self.cover = set()
        self.entered = set()
        self.lock_log = []
        self._cache = {}
        self._err = None

    def need(self):
        """static roles (raises AnalysisBroken inside the calling section)"""
        if self._err:
            raise AnalysisBroken(self._err)
        if 'ok' in self._cache:
            return self
        try:
            self._discover()
        except (AnalysisBroken, Stuck) as e:
            self._err = 'roles of the signal code: %s' % e
            raise AnalysisBroken(self._err)
        self._cache['ok'] = True
        return self

    def _discover(self):
        prog = self.prog
        self.reg = prog.fn('iv_signal_register')
        self.unreg = prog.fn('iv_signal_unregister')
        self.unit = prog.unit_of(self.reg)
        self.reset = self.find_reset()
        if self.unit is None or prog.unit_of(self.unreg) != self.unit:
            raise AnalysisBroken('iv_signal_register / iv_signal_unregister are not defined in one unit')
        u = self.unit
        self.g_lock = h10.typed_slot(prog, u, lambda s: s[2] == 'spinlock_t' or h10.plain_type(s[1]) == 'spinlock_t', 'the signal lock')
        self.g_owner = h10.typed_slot(prog, u, lambda s: h10.plain_type(s[1]) in ('pid_t', '__pid_t') and not s[3], 'the owner pid')
        in_unit_rec = lambda r: r is None or str(prog.records.get(r, {}).get('loc', '')).split(':')[0].endswith('/' + u)
        self.g_counts = h10.typed_slot(prog, u, lambda s: s[4] == 'array' and in_unit_rec(s[5]) and h10.plain_type(s[1]).split('[')[0].strip() in
                                       ('int', 'unsigned int', 'unsigned', 'short', 'unsigned short', 'uint16_t', 'uint32_t', 'int32_t'),
                                       'the per-signal interest counts')
        self.g_tree = h10.typed_slot(prog, u, lambda s: s[2] == 'iv_avl_tree', 'the process-wide interest tree')
        self.g_tls = h10.typed_slot(prog, u, lambda s: s[2] == 'iv_tls_user', 'the tls user')
        lay = h10.Layout(prog)
        self.nsig = int(h10.plain_type(self.g_counts[2][1]).split('[')[1].split(']')[0])
        self.count_es = lay.size_of(h10.plain_type(self.g_counts[2][1]).split('[')[0].strip())
        # per-thread state: the record whose size the tls user announces, else the record of this file holding a tree
        rec = None
        init = self.g_tls[0].get('init') or {}
        so = (init.get('fields') or {}).get('sizeof_state') or {}
        if isinstance(so.get('sizeof'), dict) and so['sizeof'].get('record') in prog.records:
            rec = so['sizeof']['record']
        if rec is None:
            c = [r for r in prog.records.values() if str(r.get('loc', '')).split(':')[0].endswith('/' + u)
                 and any(s[2] == 'iv_avl_tree' for s in lay.slots('', r['name']))]
            if len(c) != 1:
                raise AnalysisBroken('per-thread signal state: %d candidate records' % len(c))
            rec = c[0]['name']
        ts = [s for s in lay.slots('', rec) if s[2] == 'iv_avl_tree']
        if len(ts) != 1:
            raise AnalysisBroken('per-thread signal state %s: %d trees' % (rec, len(ts)))
        self.thr_rec, self.thr_off = rec, ts[0][0]
        self.thr_field = [f['name'] for f in prog.records[rec]['fields'] if f['offset'] == self.thr_off and f.get('record') == 'iv_avl_tree']
        self.lock_name = self.slot_lockid(self.g_lock)
        self.owner_canon = self.slot_canon(self.g_owner)
        self.counts_root = self.g_counts[0]['name']
        # comparators: what is installed in the compare slot of a tree by this unit
        cmps = []
        for f in self.unit_funcs():
            for e in f.events():
                if e['ev'] == 'store' and last_member(e['lhs']) == ('iv_avl_tree', 'compare'):
                    r = strip(e.get('rhs'))
                    if isinstance(r, dict) and r.get('k') == 'var' and r.get('vk') == 'func':
                        g = prog.resolve(u, r['name'])
                        if g is not None and g not in cmps:
                            cmps.append(g)
        for g_ in h10.unit_globals(prog, u):
            for x in walk(g_.get('init') or {}):
                if x.get('k') == 'init' and x.get('record') == 'iv_avl_tree':
                    r = strip((x.get('fields') or {}).get('compare') or {})
                    if isinstance(r, dict) and r.get('k') == 'var' and r.get('vk') == 'func':
                        g = prog.resolve(u, r['name'])
                        if g is not None and g not in cmps:
                            cmps.append(g)
        self.cmps = cmps
        # fork hooks: the arguments of pthr_atfork
        hooks = []
        for f in self.unit_funcs():
            for e in f.events():
                if is_call(e, 'pthr_atfork') and e['ev'] == 'call':
                    hooks.append((f, e))
        self.atfork = hooks
        # handler and raw-event handler: what registration installs (model run; if registration installs nothing the
        # functions whose address the unit stores into a sa_handler / raw-event handler field, so that the rules about
        # registration report the defect rather than the analysis breaking)
        m, x, r = self.run_register(flags=0, count0=0, owner=0)
        sa = {t['handler'][1] for t in m.trace if t['t'] == 'sigaction' and t['sig'] == S and h10.is_fn(t['handler'])}
        er = {t['evh'][1] for t in m.trace if t['t'] == 'ev-register' and t['obj'] == x and not t['misaligned'] and h10.is_fn(t['evh'])}
        if len(sa) != 1:
            sa = self.stored_functions(lambda lm: lm is not None and lm[1] == 'sa_handler')
        if len(er) != 1:
            er = self.stored_functions(lambda lm: lm == ('iv_event_raw', 'handler'))
        if len(sa) != 1 or len(er) != 1:
            raise AnalysisBroken('iv_signal_register installs %d signal handlers and %d raw-event handlers' % (len(sa), len(er)))
        self.handler = prog.funcs.get(list(sa)[0])
        self.eventfn = prog.funcs.get(list(er)[0])
        if self.handler is None or self.eventfn is None or not self.handler.blocks or not self.eventfn.blocks:
            raise AnalysisBroken('installed handlers are not functions of the program: %s / %s' % (sorted(sa), sorted(er)))

    def stored_functions(self, pred):
        out = set()
        for f in self.unit_funcs():
            for e in f.events():
                if e['ev'] == 'store' and pred(last_member(e['lhs'])):
                    r = strip(e.get('rhs'))
                    if isinstance(r, dict) and r.get('k') == 'var' and r.get('vk') == 'func':
                        g = self.prog.resolve(self.unit, r['name'])
                        if g is not None:
                            out.add(g.q)
        return out

    def find_reset(self):
        """the post-fork reset entry point: by its exported name, else the only other parameterless external function of the unit"""
        prog = self.prog
        if prog.has_fn('iv_signal_child_reset_postfork'):
            return prog.fn('iv_signal_child_reset_postfork')
        unit = prog.unit_of(prog.fn('iv_signal_register'))
        c = [f for f in prog.all_funcs() if prog.unit_of(f) == unit and not f.static and not f.params and f.blocks
             and f.name not in ('iv_signal_register', 'iv_signal_unregister')]
        if len(c) != 1:
            raise AnalysisBroken('post-fork reset entry point of the signal code: %d candidates' % len(c))
        return c[0]

    def unit_funcs(self):
        return [f for f in sorted(self.prog.all_funcs(), key=lambda f: f.q) if self.prog.unit_of(f) == self.unit]

    def slot_steps(self, slot):
        """[(record, field)] leading from the file-scope object to the slot"""
        g, off, s = slot
        def find(rec, base, want_rec, want_typ):
            for f in self.prog.records.get(rec, {}).get('fields', []):
                o = base + f['offset']
                if o == off and not f.get('ptr') and ((want_rec and f.get('record') == want_rec) or
                                                      (not want_rec and h10.plain_type(f.get('type')) == want_typ)):
                    return [(rec, f['name'])]
                if f.get('record') and not f.get('ptr') and o <= off:
                    r = find(f['record'], o, want_rec, want_typ)
                    if r is not None:
                        return [(rec, f['name'])] + r
            return None
        if off == 0 and (g.get('record') or None) == s[2] and h10.plain_type(g.get('type')).split('[')[0] == h10.plain_type(s[1]).split('[')[0]:
            return []
        if not g.get('record'):
            return []
        r = find(g['record'], 0, s[2], h10.plain_type(s[1]))
        if r is None:
            raise AnalysisBroken('cannot name the sub-object of %s at offset %d' % (g['name'], off))
        return r

    def slot_canon(self, slot):
        return slot[0]['name'] + ''.join('.' + f for (_, f) in self.slot_steps(slot))

    def slot_lockid(self, slot):
        """identity of the lock as analyses.lock_id names it"""
        st = self.slot_steps(slot)
        return '%s.%s' % st[-1] if st else slot[0]['name']

    def in_unit(self, q):
        f = self.prog.funcs.get(q)
        return f is not None and (self.prog.unit_of(f) == self.unit or not f.file.endswith('.c'))

    def inline(self, f):
        key = ('inl', f.q)
        if key not in self._cache:
            unit = self.unit
            prog = self.prog
            self._cache[key] = Inliner(prog, stop=lambda t: prog.unit_of(t) != unit and t.file.endswith('.c')).inline(f)
        return self._cache[key]

    # -- model worlds ----------------------------------------------------------
    def machine(self, owner=PID, blocked='NONE', thr=True):
        m = SigMachine(self.prog, self.unit, pid=PID, blocked=blocked)
        m.a_lock = (m.global_obj(self.g_lock[0]['name']), self.g_lock[1])
        m.a_owner = (m.global_obj(self.g_owner[0]['name']), self.g_owner[1])
        m.a_counts = (m.global_obj(self.g_counts[0]['name']), self.g_counts[1])
        m.a_ptree = (m.global_obj(self.g_tree[0]['name']), self.g_tree[1])
        m.write(m.a_owner[0], m.a_owner[1], owner, quiet=True)
        m.link(m.a_ptree, [])
        m.a_ttree = None
        if thr:
            o = m.alloc(self.prog.records[self.thr_rec]['size'], 'thread-state')
            m.tinfo = ('p', o, 0)
            m.a_ttree = (o, self.thr_off)
            m.link(m.a_ttree, [])
        return m

    def count_cell(self, m, sig):
        return (m.a_counts[0], m.a_counts[1] + sig * self.count_es)

    def set_count(self, m, sig, n):
        c = self.count_cell(m, sig)
        m.write(c[0], c[1], n, quiet=True)

    def get_count(self, m, sig):
        c = self.count_cell(m, sig)
        return m.read(c[0], c[1])

    def finish(self, m):
        self.cover |= m.cover
        self.entered |= m.entered
        for t in m.trace:
            if t['t'] == 'lock' and t['lock'] == m.a_lock:
                self.lock_log.append(t)

    def execute(self, m, f, args, what):
        """run f on the world; returns ('ret', value) | ('fatal', None) | ('loop', msg)"""
        try:
            return ('ret', m.run(f, args))
        except Fatal:
            return ('fatal', None)
        except NonTerm as e:
            return ('loop', str(e))
        except Stuck as e:
            raise AnalysisBroken('%s: the model world does not decide the execution: %s' % (what, e))
        except RecursionError:
            raise AnalysisBroken('%s: recursion too deep in the model' % what)
        finally:
            self.finish(m)

    def run_register(self, flags, count0, owner, thr=True, signum=S):
        m = self.machine(owner=owner, thr=thr)
        y = m.interest(S, 0, name='P(%d)' % S)
        m.link(m.a_ptree, [y])
        if thr:
            z = m.interest(S, THIS_THREAD, name='T(%d)' % S)
            m.link(m.a_ttree, [z])
        if 0 <= S < self.nsig:
            self.set_count(m, S, count0)
        self.set_count(m, 3, 1)
        x = m.interest(signum, flags, active=UNK, name='X')
        r = self.execute(m, self.reg, [('p', x, 0)], 'iv_signal_register')
        return m, x, r


def name_of(m, o):
    s = m.mem.get((o, m.o_signum))
    fl = m.mem.get((o, m.o_flags), 0)
    return '%s%s%s' % (s, 'x' if isinstance(fl, int) and fl & EXCL else '', 't' if isinstance(fl, int) and fl & THIS_THREAD else '')


def names(m, os_):
    return '[' + ' '.join(name_of(m, o) for o in os_) + ']'


class Agg:
    """one obligation per aspect, holding iff it holds in every model world"""

    def __init__(self, ctx, rid, loc, fn=None):
        self.ctx, self.rid, self.loc, self.fn = ctx, rid, loc, fn
        self.seen = {}
        self.order = []

    def check(self, inst, ok, world='', detail='', loc=None):
        if inst not in self.seen:
            self.seen[inst] = [0, None, None]
            self.order.append(inst)
        s = self.seen[inst]
        s[0] += 1
        if not ok and s[1] is None:
            s[1] = '%s: %s' % (world, detail) if world else detail
            s[2] = loc

    def emit(self, texts=None):
        for inst in self.order:
            n, bad, loc = self.seen[inst]
            t = (texts or {}).get(inst, '')
            self.ctx.ob(self.rid, inst, bad is None, loc=loc or self.loc,
                        detail=('%s; holds in all %d model worlds' % (t, n)) if bad is None else ('%s; fails in the world %s' % (t, bad)), fn=self.fn)


# --------------------------------------------------------------------------
# R-C10.cmp: comparator table; lookup and wake walk of the handler
# --------------------------------------------------------------------------

@guarded
def tables(ctx, sig):
    sig.need()
    if not sig.cmps:
        raise AnalysisBroken('no comparator is installed in an interest tree of %s' % sig.unit)
    flip = {'<': '>', '>': '<', '=': '='}
    for f in sig.cmps:
        table = {}
        for so, ea, eb, ao in itertools.product('<=>', (False, True), (False, True), '<=>'):
            if so != '=':
                want = -1 if so == '<' else 1
            elif ea != eb:
                want = -1 if ea else 1
            else:
                want = {'<': -1, '=': 0, '>': 1}[ao]
            got = set()
            for ta, tb in itertools.product((0, THIS_THREAD), repeat=2):
                m = sig.machine()
                sa, sb = {'<': (3, 7), '=': (5, 5), '>': (7, 3)}[so]
                ba, bb = {'<': (0x5000, 0x9000), '=': (0x7000, 0x7000), '>': (0x9000, 0x5000)}[ao]
                a = m.interest(sa, (EXCL if ea else 0) | ta, base=ba)
                b = m.interest(sb, (EXCL if eb else 0) | tb, base=bb)
                r = sig.execute(m, f, [('p', a, m.o_an), ('p', b, m.o_an)], 'comparator %s' % f.name)
                if r[0] != 'ret' or not isinstance(r[1], int):
                    raise AnalysisBroken('comparator %s: no integer result (%s)' % (f.name, r,))
                got.add(cmprules.sign(r[1]))
            table[(so, ea, eb, ao)] = got
            ctx.ob('R-C10.cmp', 'compare:signum%s,excl(a)=%d,excl(b)=%d,addr%s' % (so, ea, eb, ao), got == {want}, loc=f.loc,
                   detail='returns sign %s, lexicographic (signum, exclusive first, address) requires sign %d (whatever the other flag bits)'
                          % (sorted(got), want), fn=f.q)
        anti = all(len(v) == 1 and table[(flip[k[0]], k[2], k[1], flip[k[3]])] == {-list(v)[0]} for k, v in table.items())
        ctx.ob('R-C10.cmp', 'compare:antisymmetric', anti, loc=f.loc, detail='cmp(a,b) == -cmp(b,a) for all 36 cases', fn=f.q)
    res = handler_worlds(sig)
    ag = Agg(ctx, 'R-C10.cmp', sig.handler.loc, sig.handler.q)
    for w in res:
        if not w['gate_open']:
            continue
        m, d = w['m'], w['desc']
        for tname, order, exp, posted in w['walks']:
            key = lambda o: (m.mem[(o, m.o_signum)], m.mem[(o, m.o_flags)])
            ag.check('wake:terminates', w['end'][0] != 'loop', d, w['end'][1] or '')
            if w['end'][0] == 'loop':
                continue
            ag.check('lookup:first-of-signal', not exp or (bool(posted) and posted[0] == exp[0]), d,
                     '%s tree %s: first woken %s, the first interest of signal %d is %s' % (tname, names(m, order), names(m, posted[:1]), S, names(m, exp[:1])))
            ag.check('wake:only-same-signal', all(key(o)[0] == S for o in posted), d,
                     '%s tree %s: woken %s for a delivery of signal %d' % (tname, names(m, order), names(m, posted), S))
            ag.check('wake:reaches-all-shared', set(exp) <= set(posted), d,
                     '%s tree %s: woken %s, must wake %s' % (tname, names(m, order), names(m, posted), names(m, exp)))
            first_x = [i for i, o in enumerate(posted) if key(o)[1] & EXCL]
            ag.check('wake:stops-after-exclusive', not first_x or first_x[0] == len(posted) - 1, d,
                     '%s tree %s: woken %s, dispatch stops at the first exclusive interest (%s)' % (tname, names(m, order), names(m, posted), names(m, exp)))
            idx = [order.index(o) for o in posted if o in order]
            ag.check('wake:in-order-once', idx == sorted(set(idx)), d, '%s tree %s: woken %s' % (tname, names(m, order), names(m, posted)))
        for t in w['posts']:
            ag.check('wake:marks-active-before-post', isinstance(t.get('active'), int) and t['active'] != 0, d,
                     'active is %r when the raw event of %s is posted' % (t.get('active'), name_of(m, t['obj'])), loc=t['loc'])
    ag.emit({'lookup:first-of-signal': 'the walk starts at the first interest (in tree order) of the delivered signal',
             'wake:only-same-signal': 'only interests of the delivered signal are woken',
             'wake:reaches-all-shared': 'every shared interest up to the first exclusive one is woken',
             'wake:stops-after-exclusive': 'nothing is woken after the first exclusive interest',
             'wake:in-order-once': 'interests are woken in tree order, each once',
             'wake:terminates': 'the walk terminates',
             'wake:marks-active-before-post': 'active = 1 is stored before the raw event is posted, per interest'})


def process_keys():
    return [(S - 1, EXCL), (S - 1, 0), (S, EXCL), (S, 0), (S + 1, EXCL), (S + 1, 0)]


def handler_world_list():
    """(process tree keys, shape, thread tree keys or None, owner pid)"""
    out = []
    keys = process_keys()
    for n in range(0, 4):
        for combo in itertools.combinations_with_replacement(range(len(keys)), n):
            ks = [keys[i] for i in combo]
            for sh in h10.shapes(n):
                out.append((ks, sh, None, PID))
    for ks in ([(S, 0)] * 4, [(S, EXCL), (S, 0), (S, 0), (S, 0)], [(S - 1, 0), (S, 0), (S, 0), (S + 1, 0)], [(S - 1, EXCL), (S, EXCL), (S, EXCL), (S, 0)]):
        for sh in h10.shapes(4):
            out.append((ks, sh, None, PID))
    for sh in h10.shapes(5):
        out.append(([(S - 1, 0), (S, 0), (S, 0), (S, 0), (S + 1, 0)], sh, None, PID))
    out.append(([(S - 1, EXCL), (S - 1, 0), (S, EXCL), (S, EXCL), (S, 0), (S, 0), (S + 1, 0)], None, None, PID))
    T = THIS_THREAD
    for lt in ([], [(S, T)], [(S, T | EXCL)], [(S - 1, T)], [(S + 1, T | EXCL)], [(S, T | EXCL), (S, T)], [(S, T), (S, T)],
               [(S - 1, T | EXCL), (S, T), (S + 1, T)], [(S - 1, T), (S + 1, T)]):
        for lp in ([], [(S, 0)], [(S, EXCL), (S, 0)], [(S - 1, 0), (S + 1, 0)]):
            out.append((lp, None, lt, PID))
    for owner in (0, PID + 1):
        for lt in (None, [(S, T)]):
            out.append(([(S, 0)], None, lt, owner))
    return out


def handler_worlds(sig):
    if 'hw' in sig._cache:
        return sig._cache['hw']
    out = []
    for (lp, sh, lt, owner) in handler_world_list():
        m = sig.machine(owner=owner, blocked='ALL', thr=lt is not None)
        po = [m.interest(s, fl) for (s, fl) in lp]
        m.link(m.a_ptree, po, sh)
        to = []
        if lt is not None:
            to = [m.interest(s, fl) for (s, fl) in lt]
            m.link(m.a_ttree, to)
        m.watch = {o: None for o in po}
        m.watch[m.a_ptree[0]] = (m.a_ptree[1], m.a_ptree[1] + sig.prog.records['iv_avl_tree']['size'])
        end = sig.execute(m, sig.handler, [S], 'signal handler')
        posts = [t for t in m.trace if t['t'] == 'post']
        key = lambda o: (m.mem[(o, m.o_signum)], m.mem[(o, m.o_flags)])
        texp = h10.dispatch_spec(to, key, S)
        pexp = h10.dispatch_spec(po, key, S) if not texp else []
        walks = []
        if lt is not None:
            walks.append(('thread', to, texp, [t['obj'] for t in posts if t['obj'] in to]))
        walks.append(('process', po, pexp, [t['obj'] for t in posts if t['obj'] in po]))
        desc = 'process tree %s%s%s, owner pid %s, signal %d delivered' % (
            names(m, po), (' shape %s' % shape_str(sh)) if sh is not None and len(lp) > 1 else '',
            (', thread tree %s' % names(m, to)) if lt is not None else ', no thread state', 'matches' if owner == PID else owner, S)
        out.append({'m': m, 'desc': desc, 'gate_open': owner == PID, 'walks': walks, 'posts': posts, 'end': end, 'po': po, 'to': to,
                    'texp': texp, 'pexp': pexp, 'thr': lt is not None})
    sig._cache['hw'] = out
    return out


def shape_str(sh):
    if not sh:
        return '.'
    return '(%s %s)' % (shape_str(sh[0]), shape_str(sh[1]))


# --------------------------------------------------------------------------
# R-C10a: the handler
# --------------------------------------------------------------------------

@guarded
def gate(ctx, sig):
    sig.need()
    f = sig.handler
    g = sig.inline(f)
    hd = holding_exprs(g)
    acts = [e for e in g.events() if e['ev'] == 'call' and e.get('callee') not in h10.LOOKUPS]
    if not acts:
        raise AnalysisBroken('signal handler: no actions found')
    owner = sig.owner_canon

    def leaves(x, depth=0):
        """{'owner', 'pid'} parts an expression is computed from, None if it depends on anything else"""
        x = strip(x)
        if not isinstance(x, dict) or depth > 6:
            return None
        k = x.get('k')
        if k in ('int', 'null'):
            return set()
        if k == 'call':
            return {'pid'} if x.get('callee') == 'getpid' and not x.get('args') else None
        if k in ('var', 'member'):
            if canon(x) == owner:
                return {'owner'}
            if k == 'var' and x.get('vk') in ('local', 'param'):
                ds = h10.defs_of(g, x['name'])
                if not ds or any(d is None for d in ds):
                    return None
                out = set()
                for d in ds:
                    r = leaves(d, depth + 1)
                    if r is None:
                        return None
                    out |= r
                return out
            return None
        if k in ('bin', 'un', 'cond'):
            out = set()
            for key in ('l', 'r', 'e', 'c', 'a', 'b'):
                if key in x:
                    r = leaves(x[key], depth)
                    if r is None:
                        return None
                    out |= r
            return out
        return None
    bad = []
    for e in acts:
        ok = False
        for (op, lc, rc, l, r) in hd.get((e['_b'], e['_i']), ()):
            a, b = leaves(l), leaves(r) if isinstance(r, dict) else set()
            if a is not None and b is not None and (a | b) == {'owner', 'pid'}:
                ok = True
        if not ok:
            bad.append(e)
    byloc = by_loc(acts)
    e0 = bad[0] if bad else acts[0]
    ctx.ob('R-C10a', 'handler:pid-gate-dominates', not bad, loc=e0['loc'],
           detail=('%s is reachable without a test of the owner pid against getpid()' % describe(e0)) if bad else
                  '%d actions of the handler (helpers inlined), each dominated by a branch on a value computed only from %s and getpid() '
                  '(what that branch decides: handler:pid-gate-closed, over the three cases unset / this process / another process)' % (len(byloc), owner), fn=f.q)
    res = handler_worlds(sig)
    ag = Agg(ctx, 'R-C10a', f.loc, f.q)
    for w in res:
        m, d = w['m'], w['desc']
        if w['end'][0] == 'loop':
            continue
        eff = [t for t in m.trace if t['t'] in ('post', 'lock', 'unlock', 'store', 'insert', 'delete', 'sigaction', 'user', 'extern')]
        if not w['gate_open']:
            ag.check('handler:pid-gate-closed', not eff, d, 'the handler acts (%s) although the owner pid is not this process'
                     % ', '.join(sorted({t['t'] for t in eff})))
            continue
        tposted = [t['obj'] for t in w['posts'] if t['obj'] in w['to']]
        pposted = [t['obj'] for t in w['posts'] if t['obj'] in w['po']]
        ok = (not w['texp'] or bool(tposted)) and not (tposted and pposted)
        if tposted and pposted:
            first_p = min(t['seq'] for t in w['posts'] if t['obj'] in w['po'])
            first_t = min(t['seq'] for t in w['posts'] if t['obj'] in w['to'])
            msg = 'process-wide interests %s woken %s the thread\'s own %s' % (names(m, pposted), 'before' if first_p < first_t else 'in addition to', names(m, tposted))
        else:
            msg = 'thread tree %s has an interest for the signal, woken: thread %s process %s' % (names(m, w['to']), names(m, tposted), names(m, pposted))
        ag.check('handler:thread-interests-first', ok, d, msg)
        if not w['texp']:
            ag.check('handler:falls-back-to-process-tree', set(w['pexp']) <= set(pposted), d,
                     'no interest of the receiving thread took the signal, process-wide %s must be woken, woken %s' % (names(m, w['pexp']), names(m, pposted)))
        def watched(t):
            r = m.watch.get(t.get('oid'), False)
            return r is None or (r is not False and r[0] <= t['off'] < r[1])
        unl = [t for t in m.trace if t['t'] in ('read', 'store') and watched(t) and m.a_lock not in t['held']] + \
              [t for t in w['posts'] if t['obj'] in w['po'] and m.a_lock not in t['held']]
        ag.check('handler:process-tree-under-lock', not unl, d,
                 'the process-wide tree is accessed without the signal lock at %s' % (', '.join(sorted({str(t['loc']).split('/')[-1] for t in unl})[:4])),
                 loc=unl[0]['loc'] if unl else None)
        ag.check('handler:lock-released-at-return', not m.held and m.blocked == 'ALL' and w['end'][0] == 'ret', d,
                 'at return the handler holds %d locks, signal mask %s' % (len(m.held), m.blocked))
    ag.emit({'handler:pid-gate-closed': 'with an owner pid that is 0 or another process the handler does nothing',
             'handler:thread-interests-first': 'the receiving thread\'s own interests are consulted first; process-wide ones only if none of them took the signal',
             'handler:falls-back-to-process-tree': 'a delivery no thread interest took is dispatched in the process-wide tree',
             'handler:process-tree-under-lock': 'the process-wide tree is walked under the signal lock',
             'handler:lock-released-at-return': 'the handler returns with the lock released and the mask untouched'})


# --------------------------------------------------------------------------
# R-C10b: the raw-event handler
# --------------------------------------------------------------------------

@guarded
def event_side(ctx, sig):
    sig.need()
    f = sig.eventfn
    ag = Agg(ctx, 'R-C10b', f.loc, f.q)
    for fl in (0, EXCL, THIS_THREAD, THIS_THREAD | EXCL):
        # the raw event as registration leaves it: its handler is entered with its cookie, whatever these are
        m, x, end = sig.run_register(fl, 1, PID, True)
        er = [t for t in m.trace if t['t'] == 'ev-register' and t['obj'] == x and not t['misaligned']]
        if end != ('ret', 0) or len(er) != 1 or not h10.is_fn(er[0]['evh']) or er[0]['evh'][1] not in sig.prog.funcs or m.held or m.blocked != 'NONE':
            raise AnalysisBroken('raw-event handler: registration does not leave a registered raw event to run (%r)' % (end,))
        m.write(x, m.o_active, 1, quiet=True)
        m.trace = []
        end = sig.execute(m, sig.prog.funcs[er[0]['evh'][1]], [er[0]['evc']], 'raw-event handler')
        d = 'pending interest with flags %d' % fl
        users = [t for t in m.trace if t['t'] == 'user']
        stores = [t for t in m.trace if t['t'] == 'store' and t['oid'] == x and t['off'] == m.o_active]
        zero = [t for t in stores if t['val'] == 0]
        inst = 'event:active-cleared-under-lock(%s)' % ('this-thread' if fl & THIS_THREAD else 'process-wide')
        ag.check(inst, bool(zero) and all(t['blocked'] == 'ALL' and (fl & THIS_THREAD or m.a_lock in t['held']) for t in zero), d,
                 'active = 0 stored %d times; signal mask %s, lock held %s' % (len(zero), [t['blocked'] for t in zero], [m.a_lock in t['held'] for t in zero]))
        ok_before = bool(users) and all(any(s['seq'] < u['seq'] for s in stores) and
                                        [s for s in stores if s['seq'] < u['seq']][-1]['val'] == 0 for u in users)
        ag.check('event:active-is-0-at-handler', ok_before, d, 'the user handler is entered with active still set (a delivery during the handler would be lost)')
        ag.check('event:handler-runs-unmasked', bool(users) and all(not u['held'] and u['blocked'] == 'NONE' for u in users), d,
                 'handler entered with mask %s, %d locks held' % ([u['blocked'] for u in users], max([len(u['held']) for u in users] or [0])))
        ag.check('event:handler-invoked-once', end[0] == 'ret' and len(users) == 1 and users[0]['who'] == x and users[0]['args'] == [('cookie', x)], d,
                 'the interest\'s handler is called %d times (args %s)' % (len(users), [u['args'] for u in users][:2]))
        ag.check('event:lock-region-closed', end[0] == 'ret' and not m.held and m.blocked == 'NONE', d, 'returns holding %d locks, mask %s' % (len(m.held), m.blocked))
    ag.emit({'event:active-cleared-under-lock(process-wide)': 'active = 0 with all signals blocked and under the signal lock (process-wide interest)',
             'event:active-cleared-under-lock(this-thread)': 'active = 0 with all signals blocked (this-thread interest)',
             'event:active-is-0-at-handler': 'active is 0 when the user handler is entered',
             'event:handler-runs-unmasked': 'the handler runs with the signal mask restored and no lock held',
             'event:handler-invoked-once': 'the interest\'s handler is called once with its cookie',
             'event:lock-region-closed': 'lock released and mask restored at return'})
    # ---- path properties: every path, every context (floor: these three anchors must exist)
    g = sig.inline(f)
    ls = locksets(g)
    sites = [e for e in g.events() if callback_kind(e) == ('callback', 'signal')]
    clr = [e for e in g.events() if e['ev'] == 'store' and h10.target_member(g, e['lhs']) == ('iv_signal', 'active') and e.get('op') == '=' and is_int(e.get('rhs'), 0)]
    for loc, evs in sorted(by_loc(clr).items()):
        H = set.intersection(*[held(ls.get((c['_b'], c['_i']))) for c in evs])
        ctx.ob('R-C10b', 'event:active-cleared-with-signals-blocked', SIGBLOCK in H, loc=loc,
               detail='active = 0 is stored with all signals blocked on every path; held: %s' % sorted(H), fn=f.q)
    mp = must_pass(g, lambda e: e in clr)
    for loc, evs in sorted(by_loc(sites).items()):
        if clr:
            ctx.ob('R-C10b', 'event:cleared-before-handler', all(mp.get((cs['_b'], cs['_i'])) for cs in evs), loc=loc,
                   detail='active is cleared on every path before the user handler (a delivery during the handler re-posts)', fn=f.q)
        ctx.ob('R-C10b', 'event:mask-restored-before-handler', all(not held(ls.get((cs['_b'], cs['_i']))) for cs in evs), loc=loc,
               detail='the handler runs with the signal mask restored and no lock held', fn=f.q)


def by_loc(events):
    out = {}
    for e in events:
        out.setdefault(e.get('loc'), []).append(e)
    return out


# --------------------------------------------------------------------------
# R-C10c: lock only with signals blocked
# --------------------------------------------------------------------------

@guarded
def lock_blocked(ctx, sig):
    sig.need()
    prog = ctx.prog
    n = 0
    bad = []
    for r in roots_of(prog):
        entry = frozenset([SIGBLOCK]) if r.q == sig.handler.q else frozenset()
        g = Inliner(prog, expand_methods=True).inline(r)
        ls = locksets(g, entry=entry)
        for e in g.events():
            if e['ev'] == 'call' and is_call(e, ('spin_lock', 'spin_lock_sigmask')) and lock_id(e['args'][0]) == sig.lock_name \
                    and sig.in_unit(e.get('fn') or r.q):
                n += 1
                H = held(ls.get((e['_b'], e['_i'])))
                if e['callee'] == 'spin_lock' and SIGBLOCK not in H:
                    bad.append((r, e))
    if n < 3:
        raise AnalysisBroken('acquisitions of the signal lock: %d' % n)
    seen = set()
    for (r, e) in bad:
        k = (e.get('fn'), e['loc'])
        if k in seen:
            continue
        seen.add(k)
        ctx.ob('R-C10c', 'sig_lock:%s' % (e.get('fn') or r.name).split(':')[-1], False, loc=e['loc'],
               detail='signal lock taken with signals deliverable (entry %s): a delivery on this thread would spin on its own lock' % r.name)
    if not bad:
        ctx.ob('R-C10c', 'sig_lock:all-acquisitions', True, loc=sig.reg.loc,
               detail='%d acquisitions over all entry points, each with all signals blocked (or inside the handler)' % n)
    # wrappers summarise to blocks+locks
    w = Inliner(prog).inline(prog.fn('spin_lock_sigmask'))
    mp = must_pass(w, lambda e: is_call(e, ('pthr_sigmask', 'pthread_sigmask', 'sigprocmask')) and is_int(e['args'][0], 0))
    lk = [e for e in w.events() if is_call(e, 'spin_lock')]
    ctx.ob('R-C10c', 'spin_lock_sigmask:blocks-then-locks', bool(lk) and all(mp.get((e['_b'], e['_i'])) for e in lk), loc=w.loc,
           detail='the wrapper blocks all signals before taking the lock', fn=w.q)
    u = Inliner(prog).inline(prog.fn('spin_unlock_sigmask'))
    mpu = must_pass(u, lambda e: is_call(e, 'spin_unlock'))
    rs = [e for e in u.events() if is_call(e, ('pthr_sigmask', 'pthread_sigmask', 'sigprocmask'))]
    ctx.ob('R-C10c', 'spin_unlock_sigmask:unlocks-then-restores', bool(rs) and all(mpu.get((e['_b'], e['_i'])) for e in rs), loc=u.loc,
           detail='the lock is released before the mask is restored', fn=u.q)
    # every acquisition seen in a model world
    handler_worlds(sig)
    badm = [t for t in sig.lock_log if t['blocked'] != 'ALL' or t['again']]
    ctx.ob('R-C10c', 'sig_lock:model-worlds', not badm and bool(sig.lock_log), loc=badm[0]['loc'] if badm else sig.reg.loc,
           detail=('in a model world the signal lock is taken with signal mask %s%s' % (badm[0]['blocked'], ' while already held' if badm[0]['again'] else ''))
           if badm else '%d acquisitions in the model worlds, all with every signal blocked' % len(sig.lock_log))


# --------------------------------------------------------------------------
# R-C10d: register / unregister
# --------------------------------------------------------------------------

@guarded
def disposition(ctx, sig):
    sig.need()
    counts = sig.g_counts[0]['name']
    # ---- model worlds: register -----------------------------------------------------------------------------------
    ag = Agg(ctx, 'R-C10d', sig.reg.loc, sig.reg.q)
    for fl, count0, owner, thr in itertools.product((0, EXCL, THIS_THREAD, THIS_THREAD | EXCL), (0, 1, 2), (0, PID, PID + 1), (True, False)):
        if not thr and fl & THIS_THREAD:
            continue
        m, x, end = sig.run_register(fl, count0, owner, thr)
        d = 'interest flags %d, %d interests for the signal, owner pid %s%s' % (fl, count0, {0: 'unset', PID: 'this process'}.get(owner, 'another process (forked)'),
                                                                                  '' if thr else ', no thread state')
        eff0 = 0 if owner == PID + 1 else count0
        sa = [t for t in m.trace if t['t'] == 'sigaction' and t['sig'] == S and t['handler'] != 0]
        ag.check('register:install-on-0-to-1', len(sa) == (1 if eff0 == 0 else 0), d,
                 '%d sigaction(%d, handler) calls with %d interests registered before' % (len(sa), S, eff0))
        for t in sa:
            ag.check('register:handler-value', t['handler'] == ('fn', sig.handler.q), d, 'installs %r' % (t['handler'],))
            ag.check('register:handler-runs-with-signals-blocked', t['mask'] == 'ALL', d, 'sa_mask is %r: the handler must run with all signals blocked '
                     '(the model assumed by R-C10c / C14)' % (t['mask'],))
            ag.check('register:disposition-under-lock', m.a_lock in t['held'], d, 'sigaction outside the lock region')
        cst = [t for t in m.trace if t['t'] == 'store' and (t['oid'], t['off']) == sig.count_cell(m, S)]
        after = sig.get_count(m, S)
        ag.check('register:count-incremented', end[0] == 'ret' and after == eff0 + 1, d, 'count %r -> %r' % (eff0, after))
        ag.check('register:count-under-lock', all(m.a_lock in t['held'] and t['blocked'] == 'ALL' for t in cst), d, 'count written without the lock')
        want_tree = m.a_ttree if fl & THIS_THREAD else m.a_ptree
        ins = [t for t in m.trace if t['t'] == 'insert']
        ag.check('register:inserted-into-own-tree', len(ins) == 1 and ins[0]['obj'] == x and ins[0]['tree'] == want_tree and m.a_lock in ins[0]['held'], d,
                 'insertions: %s; expected the %s tree, under the lock' % ([(t['tree'] == m.a_ptree and 'process' or 'thread', t['obj'] == x) for t in ins],
                                                                          'thread' if fl & THIS_THREAD else 'process'))
        er = [t for t in m.trace if t['t'] == 'ev-register' and t['obj'] == x]
        ag.check('register:event-wired', len(er) == 1 and not er[0]['misaligned'] and er[0]['evh'] == ('fn', sig.eventfn.q) and er[0]['evc'] not in (0, UNK), d,
                 'the raw event embedded in the interest is registered %d times, handler %r cookie %r' % (len(er), er and er[0].get('evh'), er and er[0].get('evc')))
        ag.check('register:owner-pid-claimed', m.read(*m.a_owner) == PID, d, 'owner pid is %r after registration: the handler would ignore deliveries' % (m.read(*m.a_owner),))
        if owner == PID + 1:
            roots_ok = all(o == x for o in _reachable(m, m.a_ptree)) and (not thr or all(o == x for o in _reachable(m, m.a_ttree)))
            ag.check('register:child-starts-empty', roots_ok and sig.get_count(m, 3) == 0, d,
                     'after a fork the parent\'s interests/counts survive the first registration in the child')
        ag.check('register:lock-region-closed', end == ('ret', 0) and not m.held and m.blocked == 'NONE', d,
                 'returns %r holding %d locks, mask %s' % (end, len(m.held), m.blocked))
    m, x, end = sig.run_register(0, 0, PID, True, signum=-1)
    m, x, end = sig.run_register(0, 0, PID, True, signum=sig.nsig)
    ag.check('register:range-checked', end[0] == 'ret' and end[1] != 0 and not [t for t in m.trace if t['t'] in ('oob', 'insert', 'sigaction')], 'signal number %d' % sig.nsig,
             'accepted (result %r)' % (end,))
    ag.emit({'register:install-on-0-to-1': 'sigaction(library handler) exactly when the per-signal count was 0 before',
             'register:handler-value': 'the installed disposition is the library handler',
             'register:handler-runs-with-signals-blocked': 'sa_mask is full',
             'register:disposition-under-lock': 'sigaction inside the lock region',
             'register:count-incremented': 'count + 1',
             'register:count-under-lock': 'the count changes under the lock with signals blocked',
             'register:inserted-into-own-tree': 'the interest enters the tree its flags select (this thread / process), once, under the lock',
             'register:event-wired': 'the raw event of the interest is registered once, carrying the library\'s event handler and a cookie (what they do: R-C10b)',
             'register:owner-pid-claimed': 'the owner pid is this process afterwards',
             'register:child-starts-empty': 'first registration after a fork resets the inherited state',
             'register:lock-region-closed': 'returns 0 with the lock released and the mask restored',
             'register:range-checked': 'out-of-range signal numbers are refused'})
    # ---- model worlds: unregister ------------------------------------------------------------------------------------
    ag = Agg(ctx, 'R-C10d', sig.unreg.loc, sig.unreg.q)
    T = THIS_THREAD
    variants = {'last interest of the signal': ([(S + 1, 0)], [(S - 1, T)], 0),
                'the only other interest of the signal belongs to another thread': ([(S + 1, 0)], [(S - 1, T)], 1),
                'one shared process-wide interest remains': ([(S, 0)], [(S, T)], 0),
                'an exclusive and a shared interest remain': ([(S, EXCL), (S, 0), (S + 1, 0)], [(S, T | EXCL), (S, T), (S + 1, T)], 0),
                'two shared interests remain': ([(S - 1, 0), (S, 0), (S, 0)], [(S, T), (S, T)], 0)}
    deltas = set()
    for fl, act, (vname, (lp, lt, elsewhere)) in itertools.product((0, EXCL, T, T | EXCL), (0, 1), sorted(variants.items())):
        m = sig.machine(owner=PID)
        x = m.interest(S, fl, active=act, name='X')
        po = [m.interest(s_, f_) for (s_, f_) in lp]
        to = [m.interest(s_, f_) for (s_, f_) in lt]
        own, own_addr = (to, m.a_ttree) if fl & T else (po, m.a_ptree)
        own.append(x)
        po.sort(key=m.refkey)
        to.sort(key=m.refkey)
        m.link(m.a_ptree, po)
        m.link(m.a_ttree, to)
        count0 = sum(1 for o in po + to if m.mem[(o, m.o_signum)] == S) + elsewhere
        sig.set_count(m, S, count0)
        sig.set_count(m, S + 1, 1)
        key = lambda o: (m.mem[(o, m.o_signum)], m.mem[(o, m.o_flags)])
        rest = [o for o in own if o != x]
        exp = h10.dispatch_spec(rest, key, S) if (fl & EXCL and act and count0 > 1) else []
        end = sig.execute(m, sig.unreg, [('p', x, 0)], 'iv_signal_unregister')
        d = 'interest flags %d active %d, %s' % (fl, act, vname)
        dl = [t for t in m.trace if t['t'] == 'delete']
        ag.check('unregister:deleted-from-own-tree', len(dl) == 1 and dl[0]['obj'] == x and dl[0]['tree'] == own_addr and m.a_lock in dl[0]['held'], d,
                 'deletions: %s; expected the %s tree, under the lock' % ([(t['tree'] == m.a_ptree and 'process' or 'thread', t['obj'] == x) for t in dl],
                                                                         'thread' if fl & T else 'process'))
        sa = [t for t in m.trace if t['t'] == 'sigaction']
        dfl = [t for t in sa if t['sig'] == S and t['handler'] == 0]
        ag.check('unregister:default-on-1-to-0', len(sa) == len(dfl) == (1 if count0 == 1 else 0) and all(m.a_lock in t['held'] for t in sa), d,
                 '%d sigaction calls (%d restoring SIG_DFL for signal %d) with %d interests before' % (len(sa), len(dfl), S, count0))
        after = sig.get_count(m, S)
        deltas.add(after - count0 if isinstance(after, int) else after)
        cst = [t for t in m.trace if t['t'] == 'store' and (t['oid'], t['off']) == sig.count_cell(m, S)]
        ag.check('unregister:count-decremented-under-lock', after == count0 - 1 and all(m.a_lock in t['held'] and t['blocked'] == 'ALL' for t in cst)
                 and sig.get_count(m, S + 1) == 1, d, 'count %r -> %r' % (count0, after))
        posts = [t for t in m.trace if t['t'] == 'post']
        posted = [t['obj'] for t in posts]
        ag.check('unregister:exclusive-hand-off', end[0] != 'loop' and set(exp) <= set(posted) and (exp or not posted), d,
                 'woken %s, %s' % (names(m, posted), ('the pending delivery must be handed to %s' % names(m, exp)) if exp else 'nothing is pending for another interest'))
        if posted:
            ag.check('unregister:hand-off-walks-own-tree', all(o in rest for o in posted), d,
                     'woken %s; the interest was deleted from the %s tree %s' % (names(m, posted), 'thread' if fl & T else 'process', names(m, rest)))
            ag.check('unregister:hand-off-same-signal', all(key(o)[0] == S for o in posted), d, 'woken %s for signal %d' % (names(m, posted), S))
            ag.check('unregister:hand-off-fan-out', posted == exp, d, 'woken %s, documented fan-out is %s' % (names(m, posted), names(m, exp)))
            ag.check('unregister:hand-off-after-delete-in-lock-region', all(dl and t['seq'] > dl[0]['seq'] and m.a_lock in t['held'] and t['active'] == 1 for t in posts), d,
                     'a re-dispatch before the delete, outside the lock, or without marking active')
        ag.check('unregister:lock-region-closed', end[0] == 'ret' and not m.held and m.blocked == 'NONE', d, 'ends %r holding %d locks, mask %s' % (end[0], len(m.held), m.blocked))
    ag.check('count:balanced', deltas == {-1}, '', 'register adds 1, unregister changes the same cell by %s' % sorted(deltas, key=str))
    ag.emit({'unregister:deleted-from-own-tree': 'the interest leaves the tree its flags select, once, under the lock',
             'unregister:default-on-1-to-0': 'SIG_DFL is restored exactly when the count drops to 0',
             'unregister:count-decremented-under-lock': 'count - 1 under the lock, other signals untouched',
             'unregister:exclusive-hand-off': 'a delivery noted for an exclusive interest that is being unregistered is handed to the next interest, and only then',
             'unregister:hand-off-walks-own-tree': 'the pending delivery is re-dispatched in the tree the interest was deleted from',
             'unregister:hand-off-same-signal': '... for this interest\'s own signal number',
             'unregister:hand-off-fan-out': '... with the documented fan-out',
             'unregister:hand-off-after-delete-in-lock-region': '... after the tree delete, inside the lock region, marking active',
             'unregister:lock-region-closed': 'lock released and mask restored at return',
             'count:balanced': 'one increment in register, one decrement in unregister, of the same cell'})
    # ---- path properties (every helper of the file inlined) -------------------------------------------------
    for f in (sig.reg, sig.unreg):
        g = sig.inline(f)
        ls = locksets(g)
        cs = [e for e in g.events() if e['ev'] == 'store' and h10.store_root(g, e['lhs']) == counts]
        for loc, evs in sorted(by_loc(cs).items()):
            ctx.ob('R-C10d', '%s:count-under-lock' % f.name, all(sig.lock_name in held(ls.get((e['_b'], e['_i']))) for e in evs), loc=loc,
                   detail='the count changes under the signal lock on every path', fn=f.q)
        sa = [e for e in g.events() if is_call(e, 'sigaction') and e['ev'] == 'call']
        if sa:
            ctx.ob('R-C10d', '%s:disposition-under-lock' % f.name, all(sig.lock_name in held(ls.get((e['_b'], e['_i']))) for e in sa), loc=sa[0]['loc'],
                   detail='the disposition changes inside the lock region (a racing register/unregister cannot interleave)', fn=f.q)
    g = sig.inline(sig.unreg)
    ls = locksets(g)
    posts = [e for e in g.events() if is_call(e, 'iv_event_raw_post') and e['ev'] == 'call']
    mp = must_pass(g, lambda x: is_call(x, 'iv_avl_tree_delete') and x['ev'] == 'call')
    if posts:
        ctx.ob('R-C10d', 'unregister:hand-off-after-delete-under-lock',
               all(mp.get((e['_b'], e['_i'])) and sig.lock_name in held(ls.get((e['_b'], e['_i']))) for e in posts), loc=posts[0]['loc'],
               detail='the re-dispatch happens after the interest left the tree, inside the lock region, on every path', fn=sig.unreg.q)


def _reachable(m, tree):
    """interest objects reachable from the root pointer of the tree object"""
    out = []
    st = [m.read(tree[0], tree[1] + m.t_root)]
    while st:
        p = st.pop()
        if not h10.is_ptr(p) or p[1] in out:
            continue
        out.append(p[1])
        st.append(m.mem.get((p[1], m.o_an + m.n_left), 0))
        st.append(m.mem.get((p[1], m.o_an + m.n_right), 0))
    return out


# --------------------------------------------------------------------------
# R-C10e: fork
# --------------------------------------------------------------------------

@guarded
def fork(ctx, sig):
    prog = ctx.prog
    s = prog.fn('iv_wait_interest_register_spawn')
    rs = sig.find_reset()
    g = Inliner(prog, stop=lambda t: t.q == rs.q or (prog.unit_of(t) != prog.unit_of(s) and t.file.endswith('.c'))).inline(s)
    user = [e for e in g.events() if e['ev'] == 'call' and 'fnexpr' in e and (callback_kind(e) or ('', ''))[0] == 'param']
    if not user:
        raise AnalysisBroken('spawn helper: call of the user function not found')
    mp = must_pass(g, lambda e: is_call(e, rs.name) and e['ev'] == 'call')
    hd = holding_exprs(g)
    for loc, evs in sorted(by_loc(user).items()):
        ctx.ob('R-C10e', 'spawn:child-reset-before-user-code', all(mp.get((e['_b'], e['_i'])) for e in evs), loc=loc,
               detail='%s() precedes the user function in the child arm' % rs.name, fn=s.q)
        ok = all(known_zero(g, hd.get((e['_b'], e['_i']), ()), ('fork', 'vfork')) for e in evs)
        ctx.ob('R-C10e', 'spawn:user-code-only-in-child', ok, loc=loc, detail='the user function runs only on the fork() == 0 edge', fn=s.q)
    sig.need()
    rst = sig.reset
    ag = Agg(ctx, 'R-C10e', rst.loc, rst.q)
    T = THIS_THREAD
    for thr in (True, False):
        for owner in (PID, PID + 1):
            m = sig.machine(owner=owner, thr=thr)
            po = [m.interest(S, 0), m.interest(S + 1, EXCL)]
            m.link(m.a_ptree, po)
            if thr:
                to = [m.interest(S, T)]
                m.link(m.a_ttree, to)
            sig.set_count(m, S, 2 if thr else 1)
            sig.set_count(m, S + 1, 1)
            sig.set_count(m, sig.nsig - 1, 1)
            sig.set_count(m, 0, 1)
            end = sig.execute(m, rst, [], 'iv_signal_child_reset_postfork')
            d = 'child of a thread %s this-thread interests' % ('with' if thr else 'without state for')
            ag.check('reset:owner-pid-cleared', end[0] == 'ret' and m.read(*m.a_owner) == 0, d, 'owner pid is %r: the parent\'s handlers would fire in the child' % (m.read(*m.a_owner),))
            ag.check('reset:process-tree-cleared', not _reachable(m, m.a_ptree), d, 'the child starts with the parent\'s process-wide interests')
            left = [i for i in range(sig.nsig) if sig.get_count(m, i) != 0]
            ag.check('reset:per-signal-counts-cleared', not left, d, 'counts left for signals %s' % left[:5])
            if thr:
                ag.check('reset:per-thread-tree-cleared', not _reachable(m, m.a_ttree), d,
                         'the calling thread\'s own interest tree is not emptied (a child forked from a thread with this-thread interests would '
                         'dispatch to the parent\'s stale interests)')
    ag.emit({'reset:owner-pid-cleared': 'the owner pid is 0 afterwards: the parent\'s handlers never fire in the child',
             'reset:process-tree-cleared': 'the child starts with an empty process tree',
             'reset:per-signal-counts-cleared': 'the child starts with zero counts for every signal',
             'reset:per-thread-tree-cleared': 'the calling thread\'s own interest tree is emptied too'})
    if len(sig.atfork) != 1:
        raise AnalysisBroken('pthr_atfork is called at %d sites of %s' % (len(sig.atfork), sig.unit))
    af, ae = sig.atfork[0]
    hooks = []
    for a in ae['args']:
        a = strip(a)
        if isinstance(a, dict) and a.get('k') == 'addr':
            a = strip(a['e'])
        h = prog.resolve(sig.unit, a['name']) if isinstance(a, dict) and a.get('k') == 'var' and a.get('vk') == 'func' else None
        hooks.append(h)
    ok = len(hooks) == 3 and all(h is not None and h.blocks for h in hooks)
    detail = 'prepare takes the signal lock with signals blocked, parent releases it, child re-initialises it and restores the mask'
    if ok:
        pre, par, chi = hooks
        for who, second in (('parent', par), ('child', chi)):
            m = sig.machine(blocked='NONE')
            e1 = sig.execute(m, pre, [], 'atfork prepare hook')
            mid = (m.a_lock in m.held, m.blocked)
            e2 = sig.execute(m, second, [], 'atfork %s hook' % who)
            inits = [t for t in m.trace if t['t'] == 'lock-init' and t['lock'] == m.a_lock]
            good = e1[0] == 'ret' and e2[0] == 'ret' and mid == (True, 'ALL') and m.a_lock not in m.held and m.blocked == 'NONE' \
                and (who == 'parent' or bool(inits))
            if not good:
                ok = False
                detail += '; %s side: after prepare lock held=%s mask=%s, after %s lock held=%s mask=%s%s' % (
                    who, mid[0], mid[1], who, m.a_lock in m.held, m.blocked, '' if who == 'parent' or inits else ', lock not re-initialised')
    ctx.ob('R-C10e', 'atfork:lock-bracket', ok, loc=ae['loc'], detail=detail, fn=af.q)


@guarded
def nulls(ctx, sig):
    null_rule(ctx, 'R-C10g', (sig.need().unit,))


def holding_exprs(fn):
    """{point: atoms (op, lc, rc, l, r)} of the conditional edges (if / && / || / switch case) that dominate the point and
    whose operands were not written since (forward must-analysis; atoms keep their expression trees so that they can be
    matched by structure, not by spelling)"""
    from ..core import forward
    def keys(x):
        return {y['name'] for y in walk(x) if y.get('k') == 'var'}
    def tr(e, S_):
        if e['ev'] == 'store' and S_:
            l = strip(e['lhs'])
            nm = l['name'] if isinstance(l, dict) and l.get('k') == 'var' else h10.global_root(e['lhs'])
            if nm is not None:
                return frozenset(a for a in S_ if nm not in a[5])
        elif e['ev'] == 'call' and S_:
            ks = set()
            for a in e.get('args', []):
                a = strip(a)
                if isinstance(a, dict) and a.get('k') == 'addr' and isinstance(strip(a['e']), dict) and strip(a['e']).get('k') == 'var':
                    ks.add(strip(a['e'])['name'])
            if ks:
                return frozenset(a for a in S_ if not (ks & a[5]))
        return S_
    def edge(blk, si, S_):
        if not blk.term or blk.term.get('cond') is None or len(blk.succ) < 2 or blk.term.get('cls') == 'MethodDispatch':
            return S_
        c = blk.term['cond']
        add = set()
        if blk.term.get('cls') == 'SwitchStmt':
            cases = blk.term.get('cases', [])
            tgt = blk.succ[si]
            mine = [cv for i, cv in enumerate(cases) if i < len(blk.succ) and blk.succ[i] == tgt]
            if len(mine) == 1 and isinstance(mine[0], int):
                v = {'k': 'int', 'v': mine[0]}
                add.add(('==', canon(c), str(mine[0]), _freeze(c), _freeze(v), frozenset(keys(c))))
            return S_ | frozenset(add)
        if len(blk.succ) != 2:
            return S_
        for (op, lc, rc, l, r) in norm_cond(c, si == 0):
            if op != 'const':
                add.add((op, lc, rc, _freeze(l), _freeze(r), frozenset(keys(l) | keys(r))))
        return S_ | frozenset(add)
    _, ev_in = forward(fn, frozenset(), tr, lambda a, b: a & b, edge=edge)
    return {k: [(a[0], a[1], a[2], _thaw(a[3]), _thaw(a[4])) for a in v] for k, v in ev_in.items()}


def known_zero(fn, atoms, names):
    """the atoms pin a value obtained from one of the calls `names` to 0"""
    lo = hi = False
    for (op, lc, rc, l, r) in atoms:
        if rc != '0' or not h10.value_is_call(fn, l, names):
            continue
        if op == '==':
            return True
        lo = lo or op == '>='
        hi = hi or op == '<='
    return lo and hi


def _freeze(x):
    import json
    return json.dumps(x, sort_keys=True, default=str) if isinstance(x, (dict, list)) else x


def _thaw(x):
    import json
    if isinstance(x, str) and x[:1] in '{[':
        try:
            return json.loads(x)
        except ValueError:
            return x
    return x


# --------------------------------------------------------------------------
# the model worlds must exercise the code they speak about
# --------------------------------------------------------------------------

@guarded
def coverage(ctx, sig):
    sig.need()
    handler_worlds(sig)
    ent = {q for q in sig.entered if q in ctx.prog.funcs and ctx.prog.unit_of(ctx.prog.funcs[q]) == sig.unit}
    miss = h10.uncovered(ctx.prog, sig.cover, ent)
    if miss:
        raise AnalysisBroken('the model worlds do not reach %d effectful blocks of %s (first: %s at %s): the behavioural obligations '
                             'do not speak about that code' % (len(miss), sig.unit, describe(miss[0][1]), miss[0][1].get('loc')))
