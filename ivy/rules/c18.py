"""C18 — memory/descriptor hygiene.

Decided statically: ownership / pairing / bounds clauses (see DESIGN §3 C18).
Not decided: global memory safety and leak-freedom over histories.
"""
from ..core import (AnalysisBroken, Inliner, canon, strip, strip_load, last_member, must_pass, relpath,
                    norm_cond, walk, forward, lvalue_steps, lvalue_root, evloc)
from .. import generic
from ..analyses import (is_call, holding, atoms_imply, atoms_reading, path_to, describe, exits_of,
                        delta_analysis, is_fail)
from .c11 import null_rule

ANCHOR_FILES = ('iv_main_posix.c', 'iv_fd.c', 'iv_fd_epoll.c', 'iv_fd_poll.c', 'iv_timer.c', 'iv_tls.c',
                'iv_event_raw_posix.c', 'iv_fd_pump.c', 'iv_thread_posix.c', 'iv_event.c', 'iv_popen.c',
                'iv_work.c', 'iv_task.c')

ACQUIRE = {'malloc': 'mem', 'calloc': 'mem', 'epollfd_grab': 'fd', 'epoll_create': 'fd', 'epoll_create1': 'fd',
           'timerfd_create': 'fd', 'eventfd_grab': 'fd', 'inotify_init': 'fd'}
RELEASE = {'mem': ('free',), 'fd': ('close',)}

MODULE_PAIRS = {
    'iv_fd_init': ('iv_fd_deinit', None),
    'iv_timer_init': ('iv_timer_deinit', None),
    'iv_event_init': ('iv_event_deinit', None),
    'iv_tls_thread_init': ('iv_tls_thread_deinit', None),
    'iv_task_init': (None, 'initialises an empty list head; acquires nothing'),
}


def is_fd_index(x):
    x = strip(x)
    if isinstance(x, dict) and x.get('k') == 'member' and x['field'] == 'index':
        b = strip(x['base'])
        return isinstance(b, dict) and b.get('k') == 'member' and (b.get('record'), b['field']) == ('iv_fd_', 'u')
    return False


def subscripts(e):
    """index nodes evaluated by the event itself (load path / store lvalue)."""
    roots = []
    if e['ev'] == 'load':
        roots.append(e['e'])
    elif e['ev'] == 'store':
        roots.append(e['lhs'])
    out = []
    for r in roots:
        x = r
        # walk the access path only (not nested loads: they are their own events)
        while isinstance(x, dict):
            k = x.get('k')
            if k == 'index':
                out.append(x)
                x = strip_load(x['base']) if strip_load(x['base']).get('k') in ('member', 'index') else None
            elif k == 'member':
                x = x['base'] if not x['arrow'] else None
            elif k in ('cast',):
                x = x['e']
            else:
                break
    return out


def run(ctx):
    prog = ctx.prog
    ctx.rule('R-C18a.method', 'per poll method: every resource (memory, descriptor) stored into the method state is '
                              'released by deinit; init failure paths release what they acquired', floor=5)
    ctx.rule('R-C18a.module', 'every per-thread module initialiser called by iv_init has its de-initialiser called by '
                              'the thread tear-down on every path; the state block is freed last, after the TLS slot is cleared', floor=6)
    ctx.rule('R-C18a.refcnt', 'shared kick descriptor: reference count balanced on every path incl. failure paths; '
                              'descriptor created on 0->1 and closed on 1->0 under the mutex', floor=3)
    ctx.rule('R-C18b', 'INDEX-GUARD: every subscript by a descriptor\'s poll-array index is on a path that implies '
                       'index != -1 (or directly follows its assignment from the slot counter)', floor=6)
    ctx.rule('R-C18d', 'registered descriptors are made close-on-exec and non-blocking on every success path', floor=4)
    ctx.rule('R-C18e', 'public/private twin structs agree on the user-visible prefix (names, types, offsets) and the '
                       'private struct fits in the public one', floor=3)
    ctx.rule('R-C18f', 'no pointer to a dead frame: an address of a local stored into heap/TLS state is cleared on every exit', floor=2)
    ctx.rule('R-C18g', 'NULL-CONTRADICTION in the anchored files', floor=8)
    ctx.rule('R-C18h', 'INIT-COMPLETE: every private field a library function may read is written by registration or the INIT function', floor=30)

    ctx.section(index_guard)
    ctx.section(fd_modes)
    ctx.section(twins)
    ctx.section(dead_frames)
    ctx.section(lambda c: null_rule(c, 'R-C18g', ANCHOR_FILES))
    ctx.section(lambda c: generic.init_complete(c, 'R-C18h', kinds={k['rec'] for k in generic.OBJECT_KINDS} - {'iv_inotify', 'iv_inotify_watch'}))
    ctx.section(method_resources, prog)
    ctx.section(module_pairs, prog)
    ctx.section(refcount, prog)


def index_guard(ctx):
    prog = ctx.prog
    for f in sorted(prog.all_funcs(), key=lambda f: f.q):
        sites = []
        for e in f.events():
            for ix in subscripts(e):
                if is_fd_index(ix['idx']):
                    sites.append((e, ix))
        if not sites:
            continue
        hd = holding(f)
        for (e, ix) in sites:
            A = hd.get((e['_b'], e['_i']), frozenset())
            lc = canon(ix['idx'])
            ok = atoms_imply(A, '!=', lc, '-1') or atoms_imply(A, '>=', lc, '0') \
                or any(a[0] == 'from++' and a[1] == lc for a in A)
            ctx.ob('R-C18b', '%s:%s' % (f.name, canon(ix)), ok, loc=e['loc'],
                   detail='facts holding here: %s' % (sorted('%s %s %s' % (a[1], a[0], a[2]) for a in A if a[1] == lc) or 'none about the index'),
                   path=None if ok else path_to(f, e), fn=f.q)



def fd_modes(ctx):
    prog = ctx.prog
    for r in ('iv_fd_register', 'iv_fd_register_try'):
        f = prog.fn(r)
        g = Inliner(prog, expand_methods=True, stop=lambda t: t.name in ('iv_fd_set_cloexec', 'iv_fd_set_nonblock')).inline(f)
        res = delta_analysis(g, [])
        okrets = [e for (e, d, rc, p) in res.rets if e is not None and not is_fail(rc)]
        pts = [(e['_b'], e['_i']) for e in okrets]
        if g.ret == 'void':
            pts.append((g.exit, 0))
        if not pts:
            raise AnalysisBroken('%s: no success exit' % r)
        for setter in ('iv_fd_set_cloexec', 'iv_fd_set_nonblock'):
            mp = must_pass(g, lambda e, s=setter: is_call(e, s) and last_member(e['args'][0]) in (('iv_fd_', 'fd'), ('iv_fd', 'fd')))
            ok = all(mp.get(p, False) for p in pts)
            ctx.ob('R-C18d', '%s:%s' % (r, setter), ok, loc=f.loc,
                   detail='%s(fd->fd) on every path to a success return' % setter, fn=f.q)



def twins(ctx):
    prog = ctx.prog
    for pub, priv in (('iv_fd', 'iv_fd_'), ('iv_task', 'iv_task_'), ('iv_timer', 'iv_timer_')):
        rp, rq = prog.records.get(pub), prog.records.get(priv)
        if not rp or not rq or 'fields' not in rp or 'fields' not in rq:
            raise AnalysisBroken('twin records %s/%s not found' % (pub, priv))
        user = [x for x in rp['fields'] if x['name'] != 'pad']
        bad = []
        for i, x in enumerate(user):
            if i >= len(rq['fields']):
                bad.append('%s missing in %s' % (x['name'], priv))
                continue
            y = rq['fields'][i]
            if (x['name'], x['type'], x['offset']) != (y['name'], y['type'], y['offset']):
                bad.append('%s %s@%d vs %s %s@%d' % (x['type'], x['name'], x['offset'], y['type'], y['name'], y['offset']))
        if rq['size'] > rp['size']:
            bad.append('sizeof(%s)=%d > sizeof(%s)=%d' % (priv, rq['size'], pub, rp['size']))
        ctx.ob('R-C18e', '%s/%s' % (pub, priv), not bad, loc=rq['loc'],
               detail='; '.join(bad) or '%d user fields agree; %d <= %d bytes' % (len(user), rq['size'], rp['size']))



def dead_frames(ctx):
    prog = ctx.prog
    for f in sorted(prog.all_funcs(), key=lambda f: f.q):
        for e in list(f.events()):
            if e['ev'] != 'store' or e.get('op') != '=':
                continue
            r = strip(e['rhs'])
            if not (isinstance(r, dict) and r.get('k') == 'addr'):
                continue
            v = strip(r['e'])
            if not (isinstance(v, dict) and v.get('k') == 'var' and v.get('vk') == 'local'):
                continue
            l = strip(e['lhs'])
            if not (isinstance(l, dict) and l.get('k') == 'member'):
                continue
            root = lvalue_root(e['lhs'])
            if root is not None and root.get('vk') in ('local', 'param'):
                continue   # a field of another local
            lc = canon(e['lhs'])
            base = strip(l['base'])
            basevar = base['name'] if isinstance(base, dict) and base.get('k') == 'var' else None
            def tr(x, s, lc=lc, e=e):
                if x is e:
                    return False
                if s is None:
                    return None
                if x['ev'] == 'store' and canon(x['lhs']) == lc:
                    rr = strip(x.get('rhs')) if 'rhs' in x else None
                    return not (isinstance(rr, dict) and rr.get('k') == 'addr')
                return s
            def edge(blk, si, s, basevar=basevar):
                if s is False and basevar and blk.term and blk.term.get('cond') is not None and len(blk.succ) == 2:
                    for (op, a, b, _, _) in norm_cond(blk.term['cond'], si == 0):
                        if op == '==' and a == basevar and b == '0':
                            return True      # the holder object itself is gone (unregistered)
                return s
            def jn(a, b):
                if a is None:
                    return b
                if b is None:
                    return a
                return a and b
            _, ev_in = forward(f, None, tr, jn, edge=edge, start=e['_b'])
            pts = [(pb, pi) for (pb, pi, _) in exits_of(f)] + [(f.exit, 0)]
            bad = [p for p in pts if ev_in.get(p) is False]
            ctx.ob('R-C18f', '%s:%s' % (f.name, lc), not bad, loc=e['loc'],
                   detail='%s = &%s (a local) is overwritten with a non-stack value on every path to return' % (lc, v['name']), fn=f.q)


def _acq_kind(expr, tainted):
    for x in walk(expr):
        if x.get('k') == 'call' and x.get('callee') in ACQUIRE:
            return ACQUIRE[x['callee']]
    v = strip(expr)
    if isinstance(v, dict) and v.get('k') == 'var' and v['name'] in tainted:
        return tainted[v['name']]
    return None


def method_resources(ctx, prog):
    tables = prog.method_tables()
    done = set()
    for t, slots in sorted(tables.items()):
        if not slots.get('init') or not slots.get('deinit'):
            ctx.ob('R-C18a.method', '%s:init/deinit' % t, False, loc=prog.globals[t]['loc'], detail='init and deinit slots are mandatory')
            continue
        # functions of this method (slot closure) + lazily acquiring helpers
        fns = []
        for slot, v in slots.items():
            if v and v[0] != 'str':
                f = prog.resolve(v[0], v[1])
                if f is not None:
                    fns.append(f)
        resources = {}   # canon of state field -> (kind, store event, fn)
        inl = Inliner(prog, stop=lambda t: t.name in ACQUIRE)
        for f in fns:
            g = inl.inline(f)
            tainted = {}
            # flow-insensitive: a variable that is ever assigned an acquirer's result
            changed = True
            while changed:
                changed = False
                for e in g.events():
                    nm = k = None
                    if e['ev'] == 'store' and e.get('op') == '=' and strip(e['lhs']).get('k') == 'var':
                        nm, k = strip(e['lhs'])['name'], _acq_kind(e['rhs'], tainted)
                    elif e['ev'] == 'decl' and 'init' in e:
                        nm, k = e['name'], _acq_kind(e['init'], tainted)
                    if nm and k and tainted.get(nm) != k:
                        tainted[nm] = k
                        changed = True
            for e in g.events():
                if e['ev'] == 'store' and e.get('op') == '=' and strip(e['lhs']).get('k') != 'var':
                    k = _acq_kind(e['rhs'], tainted)
                    st_ = lvalue_steps(e['lhs'])
                    if k and st_ and st_[-1][0] == 'iv_state':
                        resources.setdefault(canon(e['lhs']), (k, e, f))
        if not resources:
            raise AnalysisBroken('method %s: no acquired resource found in its state' % t)
        fde = prog.resolve(*slots['deinit'])
        gde = inl.inline(fde)
        for lc, (kind, se, sf) in sorted(resources.items()):
            key = (fde.q, lc)
            def released(e, lc=lc, kind=kind):
                return is_call(e, RELEASE[kind]) and canon(e['args'][0]) == lc
            def tr(e, s):
                return True if released(e) else s
            def edge(blk, si, s, lc=lc):
                if blk.term and blk.term.get('cond') is not None and len(blk.succ) == 2:
                    for (op, a, b, _, _) in norm_cond(blk.term['cond'], si == 0):
                        if a == lc and ((op == '==' and b in ('-1', '0')) or (op == '<' and b == '0')):
                            return True     # nothing was acquired
                return s
            _, ev_in = forward(gde, False, tr, lambda a, b: a and b, edge=edge)
            ok = bool(ev_in.get((gde.exit, 0)))
            ctx.ob('R-C18a.method', '%s:%s released by deinit' % (t.replace('iv_fd_poll_method_', ''), lc), ok, loc=se['loc'],
                   detail='%s acquired in %s is passed to %s in %s on every path (or tested as never acquired)'
                          % (lc, sf.name, '/'.join(RELEASE[kind]), fde.name), fn=fde.q)
        # init failure paths
        fi = prog.resolve(*slots['init'])
        if fi.q in done:
            continue
        done.add(fi.q)
        gi = inl.inline(fi)
        def tr2(e, S):
            if e['ev'] == 'store' and e.get('op') == '=':
                lc = canon(e['lhs'])
                if lc in resources:
                    return S | {lc}
            if e['ev'] == 'call':
                for lc, (kind, _, _) in resources.items():
                    if is_call(e, RELEASE[kind]) and canon(e['args'][0]) == lc:
                        S = S - {lc}
            return S
        def edge2(blk, si, S):
            if blk.term and blk.term.get('cond') is not None and len(blk.succ) == 2:
                for (op, a, b, _, _) in norm_cond(blk.term['cond'], si == 0):
                    if a in S and ((op == '==' and b in ('0', '-1')) or (op == '<' and b == '0')):
                        S = S - {a}
            return S
        # local descriptor variables acquired but not yet stored are tracked the same way
        _, ev_in = forward(gi, frozenset(), tr2, lambda a, b: a | b, edge=edge2)
        nfail = 0
        for (pb, pi, e) in exits_of(gi):
            v = strip(e.get('value')) if 'value' in e else None
            if isinstance(v, dict) and v.get('k') == 'int' and v['v'] != 0:
                nfail += 1
                S = ev_in.get((pb, pi), frozenset())
                ctx.ob('R-C18a.method', '%s:failure return releases' % fi.name, not S, loc=e['loc'],
                       detail='still held at this failing return: %s' % (sorted(S) or 'nothing'), fn=fi.q)
        if nfail == 0:
            raise AnalysisBroken('%s: no failing return found' % fi.name)


def module_pairs(ctx, prog):
    fi = prog.fn('iv_init')
    fd = prog.fn('__iv_deinit')
    gd = Inliner(prog, depth=0).inline(fd)
    state = None
    for e in fi.events():
        if e['ev'] == 'store' and any(c.get('callee') in ('calloc', 'malloc') for c in walk(e.get('rhs', {})) if c.get('k') == 'call'):
            state = canon(e['lhs'])
    if state is None:
        raise AnalysisBroken('iv_init: allocation of the state block not found')
    for e in fi.events():
        if e['ev'] != 'call' or 'callee' not in e:
            continue
        if not e['args'] or canon(e['args'][0]) != state:
            continue
        nm = e['callee']
        if nm not in MODULE_PAIRS:
            ctx.ob('R-C18a.module', 'iv_init:%s' % nm, False, loc=e['loc'],
                   detail='module initialiser without an entry in the init/deinit table (does it acquire per-thread resources?)', fn=fi.q)
            continue
        partner, reason = MODULE_PAIRS[nm]
        if partner is None:
            ctx.exempt('R-C18a.module', nm, reason)
            ctx.ob('R-C18a.module', 'iv_init:%s' % nm, True, loc=e['loc'], detail='no tear-down needed: ' + reason, fn=fi.q)
            continue
        mp = must_pass(gd, lambda x, p=partner: is_call(x, p))
        ctx.ob('R-C18a.module', 'iv_init:%s' % nm, bool(mp.get((gd.exit, 0))), loc=e['loc'],
               detail='%s is called by __iv_deinit on every path' % partner, fn=fd.q)
    # free last, slot cleared first
    frees = [e for e in fd.events() if is_call(e, 'free')]
    if len(frees) != 1:
        raise AnalysisBroken('__iv_deinit: expected exactly one free')
    fr = frees[0]
    later = [e for e in fd.events() if e['ev'] == 'call' and e is not fr and (e['_b'], e['_i']) > (fr['_b'], fr['_i']) and e['_b'] == fr['_b']]
    after = must_pass(fd, lambda x: x['ev'] in ('call', 'store', 'load') and x is not fr, start_event=fr)
    used_after = [x for x in fd.events() if x is not fr and after.get((x['_b'], x['_i'])) is not None and x['ev'] in ('call', 'store', 'load')]
    ctx.ob('R-C18a.module', '__iv_deinit:free-last', not used_after, loc=fr['loc'],
           detail='nothing is executed after the state block is freed', fn=fd.q)
    mp = must_pass(fd, lambda x: is_call(x, 'pthr_setspecific') and canon(x['args'][1]) in ('NULL', '0'))
    ctx.ob('R-C18a.module', '__iv_deinit:slot-cleared-before-free', bool(mp.get((fr['_b'], fr['_i']))), loc=fr['loc'],
           detail='the TLS slot is cleared before the state block is freed', fn=fd.q)
    # the thread-exit destructor runs the same tear-down
    fdes = prog.fn('iv_state_destructor')
    mp = must_pass(fdes, lambda x: is_call(x, '__iv_deinit'))
    ctx.ob('R-C18a.module', 'iv_state_destructor:runs-deinit', bool(mp.get((fdes.exit, 0))), loc=fdes.loc,
           detail='the TLS destructor runs __iv_deinit', fn=fdes.q)
    # ... and is the destructor registered for the key
    reg = [e for e in fi.events() if is_call(e, 'pthr_key_create')]
    ok = bool(reg) and all(canon(e['args'][1]) == 'iv_state_destructor' for e in reg)
    ctx.ob('R-C18a.module', 'iv_init:destructor-registered', ok, loc=reg[0]['loc'] if reg else fi.loc,
           detail='iv_state_destructor is the TLS key destructor', fn=fi.q)


def refcount(ctx, prog):
    ctr = ('global', 'iv_active_fd_refcount')
    tables = prog.method_tables()
    seen = set()
    for t, slots in sorted(tables.items()):
        on, off = slots.get('event_rx_on'), slots.get('event_rx_off')
        if not on or not off:
            continue
        fon, foff = prog.resolve(*on), prog.resolve(*off)
        if fon.q in seen:
            continue
        seen.add(fon.q)
        inl = Inliner(prog)
        gon, goff = inl.inline(fon), inl.inline(foff)
        ron = delta_analysis(gon, [ctr])
        roff = delta_analysis(goff, [ctr])
        if not any(d[0] for (_, d, _, _) in ron.rets):
            raise AnalysisBroken('%s does not touch the shared descriptor reference count' % fon.name)
        fails = [(e, d) for (e, d, rc, p) in ron.rets if is_fail(rc)]
        succ = {d for (e, d, rc, p) in ron.rets if not is_fail(rc)}
        offd = {d for (e, d, rc, p) in roff.rets} | {d for (d, _, _) in roff.exit_states}
        bad = [(e, d) for (e, d) in fails if any(d)]
        e0 = bad[0][0] if bad else (fails[0][0] if fails else None)
        ctx.ob('R-C18a.refcnt', '%s:failure-return' % fon.name, not bad, loc=e0['loc'] if e0 else fon.loc,
               detail='net reference count change on the failing return: %s' % sorted({d[0] for e, d in fails}),
               path=path_to(gon, e0) if bad else None, fn=fon.q)
        ctx.ob('R-C18a.refcnt', '%s/%s:balance' % (fon.name, foff.name), succ == {(1,)} and offd == {(-1,)}, loc=foff.loc,
               detail='enable %s, disable %s' % (sorted(succ), sorted(offd)), fn=foff.q)
        # every access to the count and to the descriptor creation/close is under the mutex
        from ..analyses import locksets, held
        for g in (gon, goff):
            ls = locksets(g)
            for e in g.events():
                if e['ev'] == 'store' and lvalue_root(e['lhs']) is not None and lvalue_root(e['lhs'])['name'] == 'iv_active_fd_refcount':
                    ctx.ob('R-C18a.refcnt', '%s:count-under-mutex' % g.name, 'iv_fd_epoll_active_fd_mutex' in held(ls.get((e['_b'], e['_i']))),
                           loc=e['loc'], detail='reference count changed with the mutex held', fn=g.name)
