/* F4: iv_inotify in non-zeroed memory, register + unregister */
#include <stdio.h>
#include <stdlib.h>
#include <string.h>
#include <iv.h>
#include <iv_inotify.h>
int main(void) {
  struct iv_inotify *in = malloc(sizeof(*in));
  memset(in, 0x41, sizeof(*in));         /* what malloc/stack memory may contain */
  iv_init();
  IV_INOTIFY_INIT(in);
  if (iv_inotify_register(in) < 0) { perror("inotify"); return 2; }
  iv_inotify_unregister(in);
  iv_deinit(); printf("done\n"); return 0; }
