"""C05 — timers run in expiry order and are independent at any population size.

The clauses are statements about what iv_timer_register / iv_timer_unregister do to the
heap *state* (order between a slot and its parent, slot <-> back-index agreement, what lies
beyond the population, depth of the radix store).  They are therefore evaluated on states,
not on the shape of the source: the two exported functions are evaluated from the facts
(h05.Machine; no repository code is executed) with every helper they reach, on

  small   every heap of up to 7 distinct expiries (and their variants with equal expiries),
          every victim slot / every rank of a new timer; the sequence of heap states during
          the call is recorded (sift steps);
  capN    heaps at the capacity boundaries of the store (fan-out 128 and 128^2): populations
          N-1 .. N+2 and 2N+44 in two key layouts, victims at the root, around the boundary
          slot and at the end, growth by registration;
  mixed   one long register / unregister-anywhere / drain history crossing the first boundary
          both ways.

How the source is cut into static helpers, what they are called, which locals cache what,
loop and branch forms are all invisible to this formulation.  Unbounded histories and all
key sequences are not decided (the clauses are necessary conditions on the bounded set).
"""
from ..core import AnalysisBroken, relpath
from . import h05
from .h05 import Obj, is_ancestor


def run(ctx):
    ctx.rule('R-C05a', 'register and unregister restore heap order: on every small heap and at the capacity boundaries, after the call '
                       'returns (it must return) no timer is earlier than its parent slot\'s timer and exactly the registered timers '
                       'occupy slots 1..n (the hole left by a removal is re-sifted in both directions, a new timer is sifted up)', floor=14)
    ctx.rule('R-C05a.step', 'sift decisions use the strict order consistently: between two complete heap states of one call timers only '
                            'move along parent links, a timer passes another one only if it is strictly earlier, and a timer moved '
                            'towards the root is not later than either child of its new slot', floor=6)
    ctx.rule('R-C05a.cmp', 'the order the sift steps use is the strict lexicographic order of (tv_sec, tv_nsec) of the expiry: for all 9 '
                           'orderings of two expiries the earlier timer is at the root, and equal expiries are never exchanged', floor=18)
    ctx.rule('R-C05a.range', 'the order is the order of ALL representable expiries, not only of nearby ones: for two expiries whose tv_sec '
                             'differ by 2^31-1, 2^31, 3*2^31, 2^32 (+k), 2^63-1 or lie on either side of 2^31 / 2^32 the strictly earlier '
                             'timer is at the root whichever is registered first, and every function that by role compares two timespecs '
                             '(its verdict on small keys depends on their order only) gives on these boundary vectors the verdict it gives '
                             'on small keys of the same order (integer conversions evaluated as C does: narrowing stores, casts, '
                             'arguments, returns and arithmetic wrap in their type)', floor=16)
    ctx.rule('R-C05b', 'slot and back-index move together: after every call each timer in slot k has index k; only iv_timer.c writes '
                       'index / num_timers', floor=9)
    ctx.rule('R-C05c', 'what lies beyond the population is empty and the store follows the population across its capacity boundaries: '
                       'slots above num_timers are NULL after a removal, the radix depth is the one the population needs, a level is '
                       'dropped only when the last slot of that level was vacated (no timer is lost, no freed node is used)', floor=22)
    ctx.section(small)
    ctx.section(capacity)
    ctx.section(mixed)
    ctx.section(order_table)
    ctx.section(full_range)
    ctx.section(writers)


# ---------------------------------------------------------------------------------------
# findings bookkeeping: an obligation is a (class, op, kind); it fails iff some scenario of
# that class violated that invariant; the first counterexample is reported
# ---------------------------------------------------------------------------------------

KINDS = {
    'completes': 'the call returns (no fatal path, no wild or freed pointer, terminates)',
    'heap-order': 'no timer is earlier than the timer in its parent slot',
    'population': 'slots 1..num_timers hold exactly the registered timers',
    'back-index': 'the timer in slot k has index k',
    'vacated': 'slots above num_timers are NULL',
    'depth': 'rat_depth is the depth the population needs',
}
STEP_KINDS = {
    'moves-along-parent-links': 'between two complete heap states a timer only moves to an ancestor or descendant slot',
    'passes-only-strictly-earlier': 'a timer that moved above another one is strictly earlier than it (equal expiries are not exchanged)',
    'promoted-not-later-than-children': 'a timer moved towards the root is not later than either child of its new slot',
}


class Findings:
    def __init__(self):
        self.bad = {}
        self.runs = {}

    def ran(self, key):
        self.runs[key] = self.runs.get(key, 0) + 1

    def add(self, key, detail):
        self.bad.setdefault(key, detail)


def kfmt(S, t):
    if isinstance(t, Obj):
        k = S.k(t)
        return '%d.%03d' % k if k else t.name
    return 'NULL' if t is None else str(t)


def audit(S, live, beyond=3):
    """[(kind, detail)] of the invariants the state violates; live: the registered timers"""
    errs = []
    n = len(live)
    liveset = set(live)
    num = S.num()
    if num != n:
        errs.append(('population', 'num_timers is %r but %d timers are registered' % (num, n)))
    d = S.depth()
    if d != S.depth_for(n):
        errs.append(('depth', 'rat_depth is %r with %d timers (the population needs depth %d)' % (d, n, S.depth_for(n))))
    seen = set()
    arr = S.array(n)
    kinds = set()
    key = S.key
    for k in range(1, n + 1):
        t = arr[k]
        if not isinstance(t, Obj) or t not in liveset or t in seen:
            if 'population' not in kinds:
                kinds.add('population')
                errs.append(('population', 'slot %d of %d holds %s' % (k, n, ('a timer that is not registered (or twice): ' + kfmt(S, t))
                                                                        if isinstance(t, Obj) else 'no timer (%s)' % kfmt(S, t))))
            continue
        seen.add(t)
        if t.cells.get(S.o_index) != k and 'back-index' not in kinds:
            kinds.add('back-index')
            errs.append(('back-index', 'the timer in slot %d (expiry %s) has index %r' % (k, kfmt(S, t), t.cells.get(S.o_index))))
        if k > 1 and 'heap-order' not in kinds:
            p = arr[k >> 1]
            if isinstance(p, Obj) and p in key and key[p] > key[t]:
                kinds.add('heap-order')
                errs.append(('heap-order', 'slot %d holds expiry %s, its parent slot %d holds the later %s' % (k, kfmt(S, t), k >> 1, kfmt(S, p))))
    if len(seen) < n and 'population' not in kinds:
        errs.append(('population', '%d registered timers are not in the store' % (n - len(seen))))
    for k in range(n + 1, n + 1 + beyond):
        c = S.slot_cell(k)
        if c is not None and c[0].cells.get(c[1], 0) != 0:
            errs.append(('vacated', 'slot %d above the population of %d still holds %s' % (k, n, kfmt(S, S.slot(k)))))
            break
    return errs


def describe_heap(S, ts, limit=12):
    ks = [kfmt(S, t) for t in ts[:limit]]
    return '[%s%s]' % (' '.join(ks), ' ...' if len(ts) > limit else '')


def one_op(S, F, cls, what, ts, t, label, steps=False):
    """evaluate `what`(t) on the store holding ts; audit; record findings.  Returns the live list."""
    pre = describe_heap(S, ts)
    if what == 'register':
        live = ts + [t]
    else:
        live = [x for x in ts if x is not t]
    n_after = len(live)
    snaps = []
    if steps:
        want = set(live)

        def watch():
            arr = tuple(S.slot(k) for k in range(1, n_after + 1))
            if (not snaps or snaps[-1] != arr) and len(set(arr)) == n_after and set(arr) == want:
                snaps.append(arr)
        watch()
        fault = S.op(what, t, watch)
    else:
        fault = S.op(what, t)
    where = '%s on heap %s: ' % (label, pre)
    for kind in KINDS:
        F.ran((cls, what, kind))
    if fault is not None:
        F.add((cls, what, 'completes'), where + fault.msg)
        return None
    for (kind, detail) in audit(S, live):
        F.add((cls, what, kind), where + detail)
    if steps:
        for sk in STEP_KINDS:
            F.ran((cls, what, sk))
        for q0, q1 in zip(snaps, snaps[1:]):
            F.ran((cls, what, 'transitions'))
            check_step(S, F, cls, what, q0, q1, n_after, where)
    return live


def check_step(S, F, cls, what, q0, q1, n, where):
    pos0 = {t: i + 1 for i, t in enumerate(q0)}
    pos1 = {t: i + 1 for i, t in enumerate(q1)}
    moved = [t for t in q1 if pos0[t] != pos1[t]]
    key = S.key
    for a in moved:
        a0, a1 = pos0[a], pos1[a]
        if not (is_ancestor(a0, a1) or is_ancestor(a1, a0)):
            F.add((cls, what, 'moves-along-parent-links'),
                  where + 'the timer with expiry %s moved from slot %d to slot %d, which is neither above nor below it' % (kfmt(S, a), a0, a1))
            continue
        if is_ancestor(a1, a0):          # towards the root
            for b in q1:
                if b is not a and is_ancestor(a1, pos1[b]) and is_ancestor(pos0[b], a0) and not key[a] < key[b]:
                    F.add((cls, what, 'passes-only-strictly-earlier'),
                          where + 'the timer with expiry %s (slot %d -> %d) was moved above the timer with expiry %s (slot %d -> %d) '
                                  'which is not strictly later' % (kfmt(S, a), a0, a1, kfmt(S, b), pos0[b], pos1[b]))
            for c in (2 * a1, 2 * a1 + 1):
                if c <= n and key[q1[c - 1]] < key[a]:
                    F.add((cls, what, 'promoted-not-later-than-children'),
                          where + 'the timer with expiry %s was moved up into slot %d although the timer in its child slot %d (expiry %s) '
                                  'is earlier' % (kfmt(S, a), a1, c, kfmt(S, q1[c - 1])))


def emit(ctx, S, F, cls, ops, kinds, rule_of, what_text, aborted=None):
    for what in ops:
        f = S.f_reg if what == 'register' else S.f_unreg
        for kind in kinds:
            key = (cls, what, kind)
            n = F.runs.get(key, 0)
            bad = F.bad.get(key)
            if not n:
                if not aborted:
                    raise AnalysisBroken('%s: no scenario of class %s evaluated %s' % (kind, cls, what))
                bad = 'not reached, the history stopped before: %s' % aborted
            text = dict(KINDS, **STEP_KINDS)[kind]
            if kind in STEP_KINDS:
                what_text = '%d transitions between complete heap states observed' % F.runs.get((cls, what, 'transitions'), 0)
            ctx.ob(rule_of(kind), '%s:%s:%s' % (cls, what, kind), bad is None, loc=f.loc,
                   detail=('%s; %s (%d evaluations of %s)' % (text, what_text, n, f.name)) if bad is None else ('%s -- violated: %s' % (text, bad)),
                   fn=f.q)


# ---------------------------------------------------------------------------------------
# small: exhaustive
# ---------------------------------------------------------------------------------------

def tie_variants(h):
    """the arrangement with distinct ranks, and order-preserving images of it with equal expiries"""
    out = [('distinct', [2 * r for r in h])]
    if len(h) >= 2:
        out.append(('pairs-equal', [2 * (r // 2) for r in h]))
        out.append(('all-equal', [0 for r in h]))
    return out


SMALL_MAX = 7


def small(ctx):
    S = h05.Store(ctx.prog)
    F = Findings()
    for n in range(0, SMALL_MAX + 1):
        for h in h05.heaps(n):
            for (vn, ranks) in tie_variants(h):
                if n == SMALL_MAX and vn == 'all-equal':
                    continue
                ts = S.build(ranks)
                S.mark()
                # removal of every victim
                for v in range(1, n + 1):
                    one_op(S, F, 'small', 'unregister', ts, ts[v - 1], 'unregister of slot %d' % v, steps=True)
                    S.rollback()
                # registration of a timer of every rank relative to the present ones (between, equal, below, above)
                news = sorted(set([r + d for r in ranks for d in (-1, 0, 1)] + [-1]))
                if vn != 'distinct':
                    news = sorted(set(ranks)) or [0]
                if n == SMALL_MAX:
                    news = news[::3]
                for r in news:
                    t = S.timer(r, 'new%d' % r)
                    one_op(S, F, 'small', 'register', ts, t, 'register of expiry %s' % kfmt(S, t), steps=True)
                    S.rollback()
    rule = {'completes': 'R-C05a', 'heap-order': 'R-C05a', 'population': 'R-C05a', 'back-index': 'R-C05b', 'vacated': 'R-C05c', 'depth': 'R-C05c'}
    emit(ctx, S, F, 'small', ('register', 'unregister'), list(KINDS), rule.get,
         'every heap of 0..%d timers incl. equal expiries, every victim / every rank of the new timer' % SMALL_MAX)
    emit(ctx, S, F, 'small', ('register', 'unregister'), list(STEP_KINDS), lambda k: 'R-C05a.step',
         'every pair of consecutive complete heap states within a call')


# ---------------------------------------------------------------------------------------
# capacity boundaries of the radix store
# ---------------------------------------------------------------------------------------

def layouts(n):
    """two valid heaps of n timers: expiries ascending by slot; and only the path from the root to the last
    slot early (the timer taken from the last slot then has to move up when it fills an interior hole)"""
    asc = [2 * k for k in range(1, n + 1)]
    path = set()
    k = n
    while k >= 1:
        path.add(k)
        k >>= 1
    small_first = [(2 * k.bit_length()) if k in path else 2 * (1000 + k) for k in range(1, n + 1)]
    return [('ascending', asc), ('path-early', small_first)]


def capacity(ctx):
    S = h05.Store(ctx.prog)
    rule = {'completes': 'R-C05c', 'heap-order': 'R-C05a', 'population': 'R-C05c', 'back-index': 'R-C05b', 'vacated': 'R-C05c', 'depth': 'R-C05c'}
    for level in (1, 2):
        B = S.fan ** level
        cls = 'cap%d' % B
        F = Findings()
        big = level > 1
        pops = [B - 1, B, B + 1, B + 2, 2 * B + 44] if not big else [B - 1, B, B + 1, B + 6]
        for n in pops:
            for (ln, ranks) in layouts(n):
                if big and ln != 'ascending' and n not in (B, B + 6):
                    continue
                victims = sorted({1, 2, B // 2, B - 1, B, B + 1, n - 1, n} & set(range(1, n + 1)))
                if big:
                    victims = sorted({1, B, n} & set(range(1, n + 1))) + ([B // 2 + 1] if ln == 'ascending' and n == B else [])
                ts = S.build(ranks)
                S.mark()
                for v in victims:
                    one_op(S, F, cls, 'unregister', ts, ts[v - 1], '%s heap of %d timers, unregister of slot %d' % (ln, n, v))
                    S.rollback()
                for r in ((0, 2 * (3000 + 2 * n)) if not big or n in (B - 1, B) else ()):
                    if big and ln != 'ascending':
                        continue
                    t = S.timer(r, 'new%d' % r)
                    live = one_op(S, F, cls, 'register', ts, t, '%s heap of %d timers, register of expiry %s' % (ln, n, kfmt(S, t)))
                    # and straight back: the timer just added is removed again (the boundary is crossed both ways by the code itself)
                    if live is not None and not big:
                        one_op(S, F, cls, 'unregister', live, t, '%s heap of %d timers after registering expiry %s, unregister of it'
                               % (ln, n, kfmt(S, t)))
                    S.rollback()
        emit(ctx, S, F, cls, ('register', 'unregister'), list(KINDS), rule.get,
             'populations around %d (radix depth %d <-> %d), victims at the root, around slot %d and at the end' % (B, level - 1, level, B))


# ---------------------------------------------------------------------------------------
# one long mixed history
# ---------------------------------------------------------------------------------------

def mixed(ctx):
    S = h05.Store(ctx.prog)
    F = Findings()
    S.fresh()
    live = []
    x = 12345
    ok = True
    n_grow = S.fan + 13

    def rnd(m):
        nonlocal x
        x = (x * 1103515245 + 12345) & 0x7fffffff
        return (x >> 8) % m

    def do(what, t, label):
        nonlocal live, ok
        r = one_op(S, F, 'mixed', what, live, t, label)
        if r is None:
            ok = False
        else:
            live = r
    i = 0
    while ok and len(live) < n_grow:
        t = S.timer(rnd(97) * 2, 'm%d' % i)
        i += 1
        do('register', t, 'history step %d: register (population %d)' % (i, len(live)))
    for j in range(90):
        if not ok:
            break
        i += 1
        if rnd(3) and live:
            v = 1 + rnd(len(live))
            t = S.slot(v)
            if not isinstance(t, Obj):
                break
            do('unregister', t, 'history step %d: unregister of slot %d (population %d)' % (i, v, len(live)))
        else:
            t = S.timer(rnd(97) * 2, 'm%d' % i)
            do('register', t, 'history step %d: register (population %d)' % (i, len(live)))
    popped = []
    bad_order = None
    while ok and live:
        i += 1
        t = S.slot(1)
        if not isinstance(t, Obj):
            break
        if popped and S.k(popped[-1]) > S.k(t) and bad_order is None:
            bad_order = 'draining the store from the root yields expiry %s after %s' % (kfmt(S, t), kfmt(S, popped[-1]))
        popped.append(t)
        do('unregister', t, 'history step %d: unregister of the root (population %d)' % (i, len(live)))
    rule = {'completes': 'R-C05a', 'heap-order': 'R-C05a', 'population': 'R-C05a', 'back-index': 'R-C05b', 'vacated': 'R-C05c', 'depth': 'R-C05c'}
    stopped = None
    if not ok:
        stopped = '; '.join(sorted(set(F.bad.values())))[:400]
    emit(ctx, S, F, 'mixed', ('register', 'unregister'), list(KINDS), rule.get,
         'a history of %d calls: growth to %d, removals anywhere mixed with registrations, drain' % (i, n_grow), aborted=stopped)
    ctx.ob('R-C05a', 'mixed:drain-order', ok and bad_order is None and not live, loc=S.f_unreg.loc,
           detail='removing the root until the store is empty yields the expiries in non-decreasing order'
                  + ('' if ok and bad_order is None and not live else ' -- violated: %s' % (bad_order or 'the history did not complete')), fn=S.f_unreg.q)


# ---------------------------------------------------------------------------------------
# the order used is the strict lexicographic order of the expiry
# ---------------------------------------------------------------------------------------

def order_table(ctx):
    S = h05.Store(ctx.prog)
    val = {'<': (5, 7), '=': (6, 6), '>': (7, 5)}
    for so in '<=>':
        for no in '<=>':
            a_key = (val[so][0], 100 * val[no][0])
            b_key = (val[so][1], 100 * val[no][1])
            b_earlier = b_key < a_key
            a_earlier = a_key < b_key
            for (first, want_first, inst) in (('a', not b_earlier, 'a-then-b'), ('b', not a_earlier, 'b-then-a')):
                S.fresh()
                ta, tb = S.timer(0, 'a'), S.timer(0, 'b')
                for t, k in ((ta, a_key), (tb, b_key)):
                    t.cells[S.o_sec], t.cells[S.o_nsec] = k
                    S.key[t] = k
                seq = (ta, tb) if first == 'a' else (tb, ta)
                fault = None
                for t in seq:
                    fault = fault or S.op('register', t)
                root = S.slot(1)
                want = seq[0] if want_first else seq[1]
                ok = fault is None and root is want and S.slot(2) is (seq[1] if want_first else seq[0])
                ctx.ob('R-C05a.cmp', 'order:sec%s,nsec%s:%s' % (so, no, inst), ok, loc=S.f_reg.loc,
                       detail='a = %d.%03d, b = %d.%03d registered %s: the root must be %s (%s)%s'
                              % (a_key + b_key + (inst, want.name.split('#')[0],
                                                  'strictly earlier' if (a_earlier or b_earlier) else 'equal expiries keep their places',
                                                  '' if ok else ' -- violated: %s' % (fault.msg if fault else 'root is %s' % kfmt(S, root)))),
                       fn=S.f_reg.q)


# ---------------------------------------------------------------------------------------
# the order holds over the whole range of the field types
# ---------------------------------------------------------------------------------------

NS_MAX = 999999999
# (name, tv_sec of the earlier expiry, tv_sec of the later one): differences and positions at which a value that passed
# through a narrower (or differently signed) integer type changes sign or aliases a small value
RANGE_PAIRS = [
    ('d=2^31-1', 1000, 1000 + 2 ** 31 - 1),
    ('d=2^31', 1000, 1000 + 2 ** 31),
    ('d=3*2^31', 5, 5 + 3 * 2 ** 31),
    ('d=2^32', 1000, 1000 + 2 ** 32),
    ('d=2^32+7', 1000, 1000 + 2 ** 32 + 7),
    ('d=2^63-1', 0, 2 ** 63 - 1),
    ('across-2^31', 2 ** 31 - 1, 2 ** 31),
    ('across-2^32', 2 ** 32 - 1, 2 ** 32),
]


def full_range(ctx):
    # (a) through the public API: the earlier of two far-apart expiries is at the root; the nanoseconds are ordered against
    # the seconds (a seconds difference that aliases 0 leaves the decision to them)
    S = h05.Store(ctx.prog)
    for (name, lo, hi) in RANGE_PAIRS:
        near_key, far_key = (lo, NS_MAX), (hi, 0)
        for inst in ('near-then-far', 'far-then-near'):
            S.fresh()
            near, far = S.timer(0, 'near'), S.timer(0, 'far')
            for t, k in ((near, near_key), (far, far_key)):
                t.cells[S.o_sec], t.cells[S.o_nsec] = k
                S.key[t] = k
            fault = None
            for t in ((near, far) if inst == 'near-then-far' else (far, near)):
                fault = fault or S.op('register', t)
            ok = fault is None and S.slot(1) is near and S.slot(2) is far
            ctx.ob('R-C05a.range', 'range:%s:%s' % (name, inst), ok, loc=S.f_reg.loc,
                   detail='near = %d.%09d, far = %d.%09d registered %s: the root must be near%s'
                          % (near_key + far_key + (inst, '' if ok else ' -- violated: %s' % (
                              fault.msg if fault else 'slot 1 holds %s, slot 2 holds %s' % (kfmt(S, S.slot(1)), kfmt(S, S.slot(2)))))),
                   fn=S.f_reg.q)
    # (b) comparison functions by role
    for (f, table) in h05.timespec_comparators(ctx.prog):
        bad = None
        n = 0
        vectors = [(nm, lo, hi) for (nm, lo, hi) in RANGE_PAIRS] + [('equal-2^31', 2 ** 31, 2 ** 31), ('equal-2^63-1', 2 ** 63 - 1, 2 ** 63 - 1)]
        for (name, lo, hi) in vectors:
            for no, (na, nb) in (('<', (0, NS_MAX)), ('=', (NS_MAX, NS_MAX)), ('>', (NS_MAX, 0))):
                for (so, a, b) in ((('<' if lo < hi else '='), (lo, na), (hi, nb)), (('>' if lo < hi else '='), (hi, na), (lo, nb))):
                    n += 1
                    try:
                        got = h05.compare_verdict(ctx.prog, f, a, b)
                    except h05.Fault as x:
                        got = 'fault: %s' % x.msg
                    want = table[(so, no)]
                    if got != want and bad is None:
                        bad = '%s(%d.%09d, %d.%09d) [%s] yields %s, on small keys with tv_sec %s and tv_nsec %s it yields %s' \
                              % ((f.name,) + a + b + (name, h05.verdict_text(got), so, no, h05.verdict_text(want)))
        ctx.ob('R-C05a.range', 'comparator:%s' % f.name, bad is None, loc=f.loc,
               detail='%s compares two timespecs (on small keys its verdict is a function of their order: %s); %d boundary vectors%s'
                      % (f.name, ' '.join('%s%s:%s' % (k[0], k[1], h05.verdict_text(v)) for k, v in sorted(table.items())), n,
                         ' give the same verdicts' if bad is None else ' -- violated: ' + bad), fn=f.q)


# ---------------------------------------------------------------------------------------
# who writes the back-index and the population count
# ---------------------------------------------------------------------------------------

def writers(ctx):
    prog = ctx.prog
    home = relpath(prog.fn('iv_timer_register').file).split('/')[-1]
    for fld in (('iv_timer_', 'index'), ('iv_state', 'num_timers')):
        ws = {relpath(fn.file).split('/')[-1] for (fn, e) in prog.writers_of(*fld)}
        if not ws:
            raise AnalysisBroken('no store to %s.%s found' % fld)
        ctx.ob('R-C05b', '%s.%s:writers' % fld, ws <= {home}, loc=prog.fn('iv_timer_register').loc, detail='written in: %s' % sorted(ws))
