"""C14 — cross-thread entry points have no unsynchronised conflicting accesses.

Static lockset + confinement analysis: schedule-independent by construction.
"""
from ..core import (names_of, same_value, AnalysisBroken, Inliner, canon, strip, strip_load, last_member, must_pass, relpath,
                    norm_cond, walk, forward, lvalue_steps, lvalue_root, evloc)
from ..analyses import (is_call, locksets, held, SIGBLOCK, lock_effect, callback_kind, path_to, describe)

EVL = 'iv_state.event_list_mutex'
POOL = 'work_pool_priv.lock'
SIG = 'sig_lock'
WAIT = 'iv_wait_lock'
AFD = 'iv_fd_epoll_active_fd_mutex'

# location -> lock that must be held at every access
SHARED = {
    ('iv_state', 'events_pending'): EVL,
    ('iv_event', 'list'): EVL,
    ('work_pool_priv', 'shutting_down'): POOL, ('work_pool_priv', 'started_threads'): POOL,
    ('work_pool_priv', 'idle_threads'): POOL, ('work_pool_priv', 'seq_head'): POOL, ('work_pool_priv', 'seq_tail'): POOL,
    ('work_pool_priv', 'work_items'): POOL, ('work_pool_priv', 'work_done'): POOL,
    ('work_pool_thread', 'list'): POOL, ('work_pool_thread', 'kicked'): POOL,
    ('global', 'process_sigs'): SIG, ('global', 'total_num_interests'): SIG, ('global', 'sig_owner_pid'): SIG,
    ('iv_signal', 'an'): SIGBLOCK, ('iv_signal', 'active'): SIGBLOCK,
    ('iv_signal_thr_info', 'thr_sigs'): SIGBLOCK,
    ('global', 'iv_wait_interests'): WAIT,
    ('iv_wait_interest', 'avl_node'): WAIT, ('iv_wait_interest', 'events_pending'): WAIT, ('iv_wait_interest', 'flags'): WAIT,
    ('global', 'iv_active_fd_refcount'): AFD,
}
# immutable after creation / thread-confined fields of the shared record types: classified so that a
# new field of these records is reported until someone classifies it
CLASSIFIED_UNSHARED = {
    'work_pool_priv': {'lock': 'the lock itself', 'ev': 'iv_event: own synchronisation', 'thread_needed': 'iv_event: own synchronisation',
                       'max_threads': 'written once before publication', 'cookie': 'written once before publication',
                       'thread_start': 'written once before publication', 'thread_stop': 'written once before publication',
                       'tid': 'written once before publication'},
    'work_pool_thread': {'pool': 'written once before the thread starts', 'kick': 'iv_event: own synchronisation',
                         'idle_timer': 'touched only by the worker thread itself'},
}

# (function, location) -> reason; `via`: only in contexts whose root/chain contains that function
EXEMPT = [
    dict(fn='iv_event_register', loc=('iv_event', 'list'), why='initialisation before the event is published (no poster can hold it yet)'),
    dict(fn='iv_event_unregister', loc=('iv_event', 'list'), why='emptiness read: posters must be quiescent when an event is unregistered (documented); owner-side mutation happens in this thread'),
    dict(fn='iv_event_init', loc=('iv_state', 'events_pending'), why='state block not yet published'),
    dict(fn='iv_work_pool_create', loc='work_pool_priv.*', why='pool not yet published (this->priv is stored last)'),
    dict(fn='iv_work_thread', loc='work_pool_thread.*', why='thread record reachable by others only through the idle list, linked later under the lock'),
    dict(fn='iv_work_event', loc=('work_pool_priv', 'shutting_down'), why='written only by the owner thread; this is the owner thread reading it'),
    dict(fn='__iv_wait_interest_register', loc='iv_wait_interest.*', why='initialisation before the tree insertion publishes the interest'),
    dict(fn='__iv_wait_interest_unregister', loc=('iv_wait_interest', 'events_pending'), why='after removal from the tree under the lock the reaper cannot reach the interest'),
    dict(fn='iv_wait_completion', loc=('iv_wait_interest', 'events_pending'), why=None),   # must be locked: no exemption (placeholder removed below)
    dict(fn='iv_signal_handler', loc=('global', 'sig_owner_pid'), why='stored before the first handler can be installed; later stores only after fork in the child'),
    dict(fn='iv_signal_init', loc=('global', 'process_sigs'), why='constructor: runs before any thread exists'),
    dict(fn='iv_signal_tls_init_thread', loc=('iv_signal_thr_info', 'thr_sigs'), why='per-thread area initialised before the thread can register interests'),
    dict(fn='iv_signal_child_reset_postfork', loc='*', via='iv_wait_interest_register_spawn', why='post-fork child is single-threaded'),
    dict(fn='iv_signal_register', loc=('iv_signal', 'active'), why=None),
    dict(fn='iv_signal_compare', loc='*', why='pure comparator: reads immutable keys (signum, flags, address) of nodes; runs under whatever lock its tree operation holds'),
    dict(fn='iv_wait_interest_compare', loc='*', why='pure comparator over immutable pid'),
]
EXEMPT = [x for x in EXEMPT if x['why']]

ONE_WAY = {   # flag -> (functions that may store it, allowed value kinds, why)
    'epoll_support': (['epollfd_grab'], 'int', 'feature detection: demoted on ENOSYS'),
    'epoll_pwait2_support': (['iv_fd_epoll_wait'], 'int', 'feature detection'),
    'eventfd_in_use': (['eventfd_grab'], 'int', 'feature detection'),
    'pipe2_support': (['grab_pipe'], 'int', 'feature detection'),
    'splice_available': (['check_splice_available'], 'int', 'feature probe'),
    'clock_source': (['iv_time_get'], 'int', 'feature detection'),
    'iv_event_use_event_raw': (['iv_event_register'], 'int', 'transport selection, one-way 0 -> 1'),
    'method': (['consider_poll_method', 'iv_fd_epoll_timerfd_set_poll_timeout', 'iv_fd_poll_ppoll'], 'table',
               'selected during the first iv_init; later only compatible fallbacks (C15)'),
    'inited': (['iv_tls_thread_init'], 'int', 'one-way 0 -> 1'),
    'iv_state_key_allocated': (['iv_init'], 'int', 'first iv_init is documented to complete before other threads call it'),
}
GLOBAL_OTHER = {   # globals that are neither lock-protected nor one-way flags, with the reason they are safe / out of scope
    'fatal_msg_handler': 'set-up call, documented as not thread-safe configuration',
    'iv_thread_debug': 'debug switch (configuration call)',
    'last_offset': 'written only by constructors before iv_init (iv_tls_user_register is fatal afterwards)',
    'sig_mask_fork': 'written in the atfork prepare handler, which holds sig_lock until parent/child',
    'iv_active_fd': 'written under the active-fd mutex on the 0->1 edge; read while a reference is held',
    'iv_tls_users': 'constructors only',
    'iv_state_key': 'key object, written by pthread_key_create in first iv_init',
    'iv_thread_key': 'key object, written under pthread_once',
    'iv_thread_key_allocated': 'pthread_once control',
    'iv_wait_lock': 'the lock itself', 'sig_lock': 'the lock itself', 'iv_fd_epoll_active_fd_mutex': 'the lock itself',
}

SIGNAL_SAFE_EXTERNAL = {'getpid', 'write', 'read', 'pthread_getspecific', 'pthread_spin_lock', 'pthread_spin_unlock',
                        'pthread_spin_trylock', '__errno_location', 'pthread_sigmask', 'sigprocmask'}
FOREIGN_ALLOWED = {'event_list_mutex': 'the owner\'s list lock', 'events_pending': 'accessed under that lock',
                   'events_kick': 'read of the kick descriptor', 'u': 'read of the epoll descriptor'}


def roots_of(prog):
    called = set()
    for f in prog.all_funcs():
        u = prog.unit_of(f)
        for e in f.events():
            if e['ev'] == 'call' and 'callee' in e:
                g = prog.resolve(u, e['callee']) if u else prog.funcs.get(e['callee'])
                if g:
                    called.add(g.q)
    return [f for f in sorted(prog.all_funcs(), key=lambda f: f.q) if f.q not in called and f.file.endswith('.c')]


def shared_accesses(e):
    """[(location key)] shared locations touched by the event itself."""
    exprs = []
    if e['ev'] == 'load':
        exprs.append(e['e'])
    elif e['ev'] == 'store':
        exprs.append(e['lhs'])
    elif e['ev'] == 'call':
        for a in e.get('args', []):
            a2 = strip(a)
            if isinstance(a2, dict) and a2.get('k') == 'addr':
                exprs.append(a2['e'])
    out = set()
    for x in exprs:
        y = x
        # walk the access path itself
        while isinstance(y, dict):
            k = y.get('k')
            if k == 'member':
                key = (y.get('record'), y['field'])
                if key in SHARED:
                    out.add(key)
                if y['arrow']:
                    break
                y = y['base']
            elif k == 'index':
                y = strip_load(y['base'])
            elif k == 'var':
                if y.get('vk') in ('global', 'staticlocal') and ('global', y['name']) in SHARED:
                    out.add(('global', y['name']))
                break
            elif k in ('cast', 'addr', 'load'):
                y = y['e']
            else:
                break
    return out


def exempt_for(fn_name, key, root, chain):
    for x in EXEMPT:
        if x['fn'] != fn_name:
            continue
        loc = x['loc']
        if loc != '*' and loc != key and not (isinstance(loc, str) and loc.endswith('.*') and key[0] == loc[:-2]):
            continue
        if x.get('via'):
            names = {root} | {c[0].split(':')[-1] for c in chain} | {c[2].split(':')[-1] for c in chain}
            if x['via'] not in names:
                continue
        return x
    return None


def run(ctx):
    ctx.rule('R-C14a', 'lockset must-hold: every access to a shared location (table) is made with its lock in the '
                       'must-held lockset, in every calling context from every entry point; exemptions name one function and one reason', floor=60)
    ctx.rule('R-C14a.tbl', 'every field of the cross-thread record types is classified (lock-protected / immutable after '
                           'publication / own synchronisation); an unclassified new field is a report', floor=20)
    ctx.rule('R-C14b', 'foreign-state confinement: through an event\'s owner pointer a poster touches only the owner\'s list lock, '
                       'the pending list (locked) and the read-only kick descriptors', floor=3)
    ctx.rule('R-C14c', 'file-scope variables written outside lock regions are one-way feature flags stored only by their detection '
                       'function with constants (method: addresses of method tables); every other global is classified', floor=12)
    ctx.rule('R-C14d', 'signal context: everything the process signal handler can reach is async-signal-safe (no mutex, no allocation)', floor=5)
    ctx.rule('R-C14e', 'lock order: the held->acquired graph over all entry points is acyclic; no user callback under a lock '
                       'except the tabled thread_stop hook', floor=3)
    ctx.section(lockset_rule)
    ctx.section(classification)
    ctx.section(confinement)
    ctx.section(one_way)
    ctx.section(signal_context)
    ctx.section(active_fd)


def lockset_rule(ctx):
    prog = ctx.prog
    roots = roots_of(prog)
    results = {}   # (fn, key) -> list of (ok, event, root, exemption)
    order_edges = {}
    user_under_lock = []
    for r in roots:
        entry = frozenset()
        if r.name == 'iv_signal_handler':
            entry = frozenset([SIGBLOCK])
        if r.name in ('iv_signal_parent',):
            entry = frozenset([SIGBLOCK, SIG])
        g = Inliner(prog, expand_methods=True).inline(r)
        ls = locksets(g, entry=entry)
        for b, blk in g.blocks.items():
            for i, e in enumerate(blk.events):
                S = ls.get((b, i))
                if S is None:
                    continue
                H = held(S)
                for (op, lid) in lock_effect(e):
                    if op == 'lock' and lid != SIGBLOCK:
                        for h in H:
                            if h != SIGBLOCK and h != lid:
                                order_edges.setdefault((h, lid), (e, r))
                if e['ev'] == 'call' and 'fnexpr' in e:
                    ck = callback_kind(e)
                    if ck and ck[0] in ('callback', 'hook', 'param') and (H - {SIGBLOCK}):
                        user_under_lock.append((e, r, H - {SIGBLOCK}, ck))
                fnname = (e.get('fn') or r.q).split(':')[-1]
                for key in shared_accesses(e):
                    need = SHARED[key]
                    ok = need in H
                    ex = None if ok else exempt_for(fnname, key, r.name, e.get('chain') or [])
                    results.setdefault((fnname, key), []).append((ok, e, r, ex))
    if len(results) < 40:
        raise AnalysisBroken('only %d (function, shared location) access groups found' % len(results))
    for (fnname, key), lst in sorted(results.items(), key=lambda kv: (kv[0][0], str(kv[0][1]))):
        bad = [(e, r) for (ok, e, r, ex) in lst if not ok and ex is None]
        exs = [ex for (ok, e, r, ex) in lst if not ok and ex is not None]
        e0, r0 = bad[0] if bad else (lst[0][1], lst[0][2])
        inst = '%s:%s.%s' % (fnname, key[0], key[1])
        for ex in exs[:1]:
            ctx.exempt('R-C14a', inst, ex['why'])
        ctx.ob('R-C14a', inst, not bad, loc=e0['loc'],
               detail=('%s accessed without %s when entered from %s: %s' % ('%s.%s' % key, SHARED[key], r0.name, describe(e0))) if bad else
                      ('%d accesses in %d contexts, %s held%s' % (len(lst), len({r.q for _, _, r, _ in lst}), SHARED[key],
                                                                  (' (exempt: %s)' % exs[0]['why']) if exs else '')),
               fn=fnname)
    # ---- lock order -------------------------------------------------------------
    import itertools
    graph = {}
    for (a, b) in order_edges:
        graph.setdefault(a, set()).add(b)
    def cyclic():
        color = {}
        def dfs(u, stack):
            color[u] = 1
            for v in graph.get(u, ()):
                if color.get(v) == 1:
                    return stack + [u, v]
                if v not in color:
                    c = dfs(v, stack + [u])
                    if c:
                        return c
            color[u] = 2
            return None
        for u in list(graph):
            if u not in color:
                c = dfs(u, [])
                if c:
                    return c
        return None
    cyc = cyclic()
    for (a, b), (e, r) in sorted(order_edges.items()):
        ctx.ob('R-C14e', 'order:%s->%s' % (a, b), not (cyc and a in cyc and b in cyc), loc=e['loc'],
               detail='%s acquired while %s is held (entry %s)%s' % (b, a, r.name, ('; part of cycle ' + ' -> '.join(cyc)) if cyc and a in cyc and b in cyc else ''))
    if not order_edges:
        raise AnalysisBroken('no nested lock acquisition found (wait lock -> event list mutex expected)')
    seen = set()
    for (e, r, H, ck) in user_under_lock:
        lm = last_member(e['fnexpr']) if 'fnexpr' in e else None
        inst = 'user-call-under-lock:%s' % ('%s.%s' % lm if lm else canon(e.get('fnexpr')))
        if inst in seen:
            continue
        seen.add(inst)
        if (e.get('fn') or '').split(':')[-1] == 'iv_wait_interest_register_spawn':
            why = ('the spawn helper runs the caller-supplied function in the forked child only (single-threaded copy of the '
                   'process that then exits); the parent never runs user code under iv_wait_lock')
            ctx.exempt('R-C14e', inst, why)
            ctx.ob('R-C14e', inst, True, loc=e['loc'], detail='exempt: ' + why)
        elif lm in (('work_pool_priv', 'thread_stop'),):
            why = ('thread_stop hook runs with the pool lock held (man page: hooks are "not explicitly serialised"); '
                   'no listed property forbids it; recorded as exemption N2')
            ctx.exempt('R-C14e', inst, why)
            ctx.ob('R-C14e', inst, True, loc=e['loc'], detail='exempt: ' + why)
        else:
            ctx.ob('R-C14e', inst, False, loc=e['loc'], detail='user code entered with %s held (entry %s)' % (sorted(H), r.name))


def classification(ctx):
    prog = ctx.prog
    for rec, cls in sorted(CLASSIFIED_UNSHARED.items()):
        r = prog.records.get(rec)
        if not r or 'fields' not in r:
            raise AnalysisBroken('record %s not found' % rec)
        for f in r['fields']:
            ok = (rec, f['name']) in SHARED or f['name'] in cls
            ctx.ob('R-C14a.tbl', '%s.%s' % (rec, f['name']), ok, loc=r['loc'],
                   detail=('protected by %s' % SHARED[(rec, f['name'])]) if (rec, f['name']) in SHARED else cls.get(f['name'], 'UNCLASSIFIED field of a cross-thread record'))
    # immutable-after-publication fields must indeed be written only in the creating function
    for rec, cls in sorted(CLASSIFIED_UNSHARED.items()):
        for fld, why in sorted(cls.items()):
            if 'written once' not in why:
                continue
            ws = {f.name for (f, e) in prog.writers_of(rec, fld)}
            ok = ws <= {'iv_work_pool_create', 'iv_work_start_thread'}
            ctx.ob('R-C14a.tbl', '%s.%s:written-once' % (rec, fld), ok, loc=prog.records[rec]['loc'],
                   detail='writers: %s' % sorted(ws))


def confinement(ctx):
    prog = ctx.prog
    f = prog.fn('iv_event_post')
    g = Inliner(prog, expand_methods=True).inline(f)
    # variables holding the owner pointer
    owners = set()
    for e in g.events():
        if e['ev'] in ('store', 'decl'):
            rhs = e.get('rhs') if e['ev'] == 'store' else e.get('init')
            if rhs is not None and last_member(rhs) == ('iv_event', 'owner'):
                owners.add(canon(e['lhs']) if e['ev'] == 'store' else e['name'])
    if not owners:
        raise AnalysisBroken('iv_event_post: owner pointer not found')
    # propagate copies (parameter temporaries)
    changed = True
    while changed:
        changed = False
        for e in g.events():
            if e['ev'] == 'store' and strip(e['lhs']).get('k') == 'var' and 'rhs' in e:
                r = strip(e['rhs'])
                if isinstance(r, dict) and r.get('k') == 'var' and r['name'] in owners and strip(e['lhs'])['name'] not in owners:
                    owners.add(strip(e['lhs'])['name'])
                    changed = True
    ls = locksets(g)
    fields = {}
    for b, blk in g.blocks.items():
        for i, e in enumerate(blk.events):
            exprs = []
            if e['ev'] == 'load':
                exprs.append(('r', e['e']))
            elif e['ev'] == 'store':
                exprs.append(('w', e['lhs']))
            elif e['ev'] == 'call':
                for a in e.get('args', []):
                    a2 = strip(a)
                    if isinstance(a2, dict) and a2.get('k') == 'addr':
                        exprs.append(('a', a2['e']))
            for (kind, x) in exprs:
                y = x
                chain = []
                while isinstance(y, dict) and y.get('k') in ('member', 'index', 'cast', 'load'):
                    if y.get('k') == 'member':
                        chain.append(y)
                        if y['arrow']:
                            break
                        y = y['base']
                    elif y.get('k') == 'index':
                        y = y['base']
                    else:
                        y = y['e']
                if not chain or not chain[-1]['arrow']:
                    continue
                top = chain[-1]
                b0 = strip(top['base'])
                if top.get('record') == 'iv_state' and isinstance(b0, dict) and (
                        (b0.get('k') == 'var' and b0['name'] in owners) or last_member(b0) == ('iv_event', 'owner')):
                    fields.setdefault(top['field'], []).append((kind, e, held(ls.get((b, i)))))
    if not fields:
        raise AnalysisBroken('iv_event_post: no access through the owner pointer found')
    for fld, lst in sorted(fields.items()):
        ok = fld in FOREIGN_ALLOWED
        if ok and fld == 'events_pending':
            ok = all(EVL in H for (_, _, H) in lst)
        if ok and fld in ('events_kick', 'u'):
            ok = all(k in ('r', 'a') and (k == 'r' or fld == 'events_kick') for (k, _, _) in lst)
        e0 = lst[0][1]
        ctx.ob('R-C14b', 'iv_event_post:owner->%s' % fld, ok, loc=e0['loc'],
               detail=FOREIGN_ALLOWED.get(fld, 'thread-confined field of another thread\'s loop state accessed by a poster: %s' % describe(e0)),
               fn=f.q)
    # who reads iv_event.owner
    readers = set()
    for fn in prog.all_funcs():
        for e in fn.events():
            if e['ev'] == 'load' and last_member(e['e']) == ('iv_event', 'owner'):
                readers.add(fn.name)
    ctx.ob('R-C14b', 'iv_event.owner:readers', readers <= {'iv_event_post', 'iv_event_unregister'}, loc=f.loc,
           detail='functions that follow an event\'s owner pointer: %s (post: any thread; unregister: owner thread only, documented)' % sorted(readers))


def one_way(ctx):
    prog = ctx.prog
    roots = roots_of(prog)
    # lock context of every global store, over all entry points
    ctxs = {}
    for r in roots:
        g = Inliner(prog, expand_methods=True).inline(r)
        ls = locksets(g, entry=frozenset([SIGBLOCK, SIG]) if r.name == 'iv_signal_parent' else frozenset())
        for b, blk in g.blocks.items():
            for i, e in enumerate(blk.events):
                if e['ev'] != 'store' or ls.get((b, i)) is None:
                    continue
                rt = lvalue_root(e['lhs'])
                if rt is None or rt.get('vk') not in ('global', 'staticlocal'):
                    continue
                if r.constructor:
                    continue      # runs before main(), single-threaded
                ctxs.setdefault(rt['name'], []).append((e, held(ls[(b, i)]) - {SIGBLOCK}, r))
    seen = set()
    for name, lst in sorted(ctxs.items()):
        if ('global', name) in SHARED:
            continue    # R-C14a
        if name in ONE_WAY:
            fns, kind, why = ONE_WAY[name]
            for (e, H, r) in lst:
                fnname = (e.get('fn') or r.q).split(':')[-1]
                inst = '%s:%s' % (name, fnname)
                if inst in seen:
                    continue
                seen.add(inst)
                v = strip(e.get('rhs')) if 'rhs' in e else None
                if kind == 'int':
                    vok = e['op'] == '=' and isinstance(v, dict) and v.get('k') == 'int'
                else:
                    vok = e['op'] == '=' and isinstance(v, dict) and (
                        (v.get('k') == 'addr' and strip(v['e']).get('record') == 'iv_fd_poll_method') or
                        (v.get('k') == 'var' and v.get('record') == 'iv_fd_poll_method'))
                ctx.ob('R-C14c', inst, vok and fnname in fns, loc=e['loc'],
                       detail='%s (%s); stored value %s' % (why, 'writer allowed' if fnname in fns else 'writer not in the flag\'s detection functions %s' % fns,
                                                            canon(e.get('rhs')) if 'rhs' in e else e['op']), fn=fnname)
        elif name in GLOBAL_OTHER:
            inst = '%s:classified' % name
            if inst not in seen:
                seen.add(inst)
                ctx.exempt('R-C14c', inst, GLOBAL_OTHER[name])
                ctx.ob('R-C14c', inst, True, loc=lst[0][0]['loc'], detail=GLOBAL_OTHER[name])
        else:
            unlocked = [(e, r) for (e, H, r) in lst if not H]
            inst = '%s:unclassified' % name
            if inst not in seen:
                seen.add(inst)
                e0 = (unlocked or [(lst[0][0], lst[0][2])])[0][0]
                ctx.ob('R-C14c', inst, not unlocked, loc=e0['loc'],
                       detail='file-scope variable written %s; not in the one-way flag table nor classified'
                              % ('without any lock held' if unlocked else 'only under locks'))
    for name in ONE_WAY:
        if name not in ctxs:
            raise AnalysisBroken('one-way flag %s is never stored' % name)


def signal_context(ctx):
    prog = ctx.prog
    h = prog.fn('iv_signal_handler')
    # installed as the process signal handler?
    inst = [e for f in prog.all_funcs() for e in f.events()
            if e['ev'] == 'store' and canon(e.get('rhs', {})) == 'iv_signal_handler']
    if not inst:
        raise AnalysisBroken('iv_signal_handler is not installed anywhere')
    seen = {}
    work = [(h, [h.name])]
    ext = {}
    while work:
        f, path = work.pop()
        if f.q in seen:
            continue
        seen[f.q] = path
        u = prog.unit_of(f)
        for e in f.events():
            if e['ev'] != 'call':
                continue
            if f.blocks[e['_b']].noreturn:
                continue          # argument evaluation of / the fatal call itself: the process aborts
            if 'callee' in e:
                g = prog.resolve(u, e['callee']) if u else prog.funcs.get(e['callee'])
                if g is not None and g.blocks:
                    if g.noreturn or e.get('noreturn'):
                        continue      # fatal handler: aborts the process
                    work.append((g, path + [g.name]))
                else:
                    if e.get('noreturn'):
                        continue
                    ext.setdefault(e['callee'], (e, path))
            else:
                ext.setdefault('<indirect %s>' % canon(e['fnexpr']), (e, path))
    for name, (e, path) in sorted(ext.items()):
        ok = name in SIGNAL_SAFE_EXTERNAL
        ctx.ob('R-C14d', 'signal-handler-reaches:%s' % name, ok, loc=e['loc'],
               detail='via %s' % ' > '.join(path))
    bad = [q for q in seen if q.split(':')[-1].startswith('___mutex_') or q.split(':')[-1] in ('iv_event_post', 'malloc', 'free')]
    ctx.ob('R-C14d', 'signal-handler:no-mutex', not bad, loc=h.loc,
           detail='repo functions reachable: %d; mutex/allocating ones: %s' % (len(seen), bad or 'none'))


def active_fd(ctx):
    """iv_active_fd is written under the mutex and may be read without it only
    while the reader holds a reference: never after its own reference was dropped."""
    prog = ctx.prog
    n = 0
    for f in sorted(prog.all_funcs(), key=lambda f: f.q):
        acc = [e for e in f.events() if
               (e['ev'] == 'load' and strip(e['e']).get('k') == 'var' and strip(e['e'])['name'] == 'iv_active_fd' and strip(e['e']).get('vk') in ('global', 'staticlocal'))
               or (e['ev'] == 'store' and lvalue_root(e['lhs']) is not None and lvalue_root(e['lhs'])['name'] == 'iv_active_fd')]
        if not acc:
            continue
        ls = locksets(f)
        drops = [e for e in f.events() if e['ev'] == 'store' and lvalue_root(e['lhs']) is not None and lvalue_root(e['lhs'])['name'] == 'iv_active_fd_refcount'
                 and e['op'] in ('--', '-=')]
        after = {}
        if drops:
            def tr(e, s_):
                return True if e in drops else s_
            _, after = forward(f, False, tr, lambda a, b: a or b)
        for e in acc:
            n += 1
            H = held(ls.get((e['_b'], e['_i'])))
            if e['ev'] == 'store':
                ok = AFD in H
                det = 'written with the active-fd mutex held'
            else:
                dropped = bool(after.get((e['_b'], e['_i'])))
                ok = (AFD in H) or not dropped
                det = ('read under the mutex' if AFD in H else 'read while this thread still holds its reference') if ok else \
                    'read without the mutex after this thread dropped its reference: another thread may be re-creating the descriptor'
            ctx.ob('R-C14a', '%s:iv_active_fd:%s' % (f.name, 'write' if e['ev'] == 'store' else 'read'), ok, loc=e['loc'], detail=det, fn=f.q)
    if n < 4:
        raise AnalysisBroken('accesses to iv_active_fd: %d found' % n)
