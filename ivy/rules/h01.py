"""Helpers of the C01 rules: value/alias resolution that makes the rules independent of how the
source spells an object, a list node or an array (local caching a pointer, helper split, operand order).

Nothing in here knows an ivykis function or variable name; everything is derived from types
((record, field) of member steps), from definitions of locals, or from roles."""
import os

from ..core import (Inliner, AnalysisBroken, subst, partition_flags, copy_propagate, _partition_one, _is_boolean_expr, strip, strip_load, canon, walk, last_member, lvalue_steps, forward, PURE_CALLS, _keys_read)
from ..analyses import aval, callback_kind, CALLBACK_FIELDS
from .. import roles

# public view of a record and the private view the library works on: one object kind
TWIN = {'iv_fd': 'iv_fd_', 'iv_task': 'iv_task_', 'iv_timer': 'iv_timer_'}

LIST_DEL = ('iv_list_del', 'iv_list_del_init')
LIST_ADD = ('iv_list_add', 'iv_list_add_tail')


def norm_rec(r):
    return TWIN.get(r, r)


def is_localvar(x):
    return isinstance(x, dict) and x.get('k') == 'var' and x.get('vk') in ('local', 'param')


def var_names(e):
    """names of the local variables known to hold the value of e: e itself when it is a variable, and
    the local whose read copy propagation replaced by e"""
    out = set()
    x = e
    while isinstance(x, dict):
        if '_was' in x:
            out.add(x['_was'])
        if x.get('k') in ('load', 'cast', 'paren', 'stmtexpr') and isinstance(x.get('e'), dict):
            x = x['e']
        else:
            break
    if is_localvar(x):
        out.add(x['name'])
    return out


def const_of(e):
    v = aval(e, {}) if e is not None else '?'
    return v[1] if isinstance(v, tuple) else None


# --------------------------------------------------------------------------
# definitions of locals (flow-insensitive)
# --------------------------------------------------------------------------

def _cache_get(g, name):
    """per-graph cache; Inliner.inline() shallow-copies the Func it starts from, attributes included, so an
    entry is only valid for the very object (and block table) it was computed on"""
    c = g.__dict__.get(name)
    if c is not None and c[0] is g and c[1] is g.blocks:
        return c[2]
    return None


def _cache_put(g, name, val):
    g.__dict__[name] = (g, g.blocks, val)
    return val


def local_defs(g):
    """{local name: [rhs expression | None (not a plain assignment)]} over all stores of g (cached on g)"""
    d = _cache_get(g, '_h01_defs')
    if d is None:
        d = {}
        for e in g.events():
            if e['ev'] == 'store':
                l = strip(e['lhs'])
                if isinstance(l, dict) and l.get('k') == 'var' and l.get('vk') in ('local', 'param'):
                    d.setdefault(l['name'], []).append(e['rhs'] if e.get('op') == '=' and 'rhs' in e else None)
        _cache_put(g, '_h01_defs', d)
    return d


def member_of_ptr(g, x, depth=4):
    """(record, field) of the member the pointer expression x designates: `&o->f`, or a local all of
    whose definitions are such an address of the same member (`node = &ev->list; iv_list_del(node)`)."""
    x = strip(x)
    if not isinstance(x, dict):
        return None
    if x.get('k') == 'addr':
        return last_member(x['e'])
    if is_localvar(x) and depth > 0 and g is not None:
        ds = local_defs(g).get(x['name'])
        if not ds or any(r is None for r in ds):
            return None
        keys = {member_of_ptr(g, r, depth - 1) for r in ds}
        if len(keys) == 1:
            return keys.pop()
    return None


def arg_member(g, e, i=0):
    a = e['args'][i] if len(e.get('args', [])) > i else None
    return member_of_ptr(g, a) if a is not None else None


# --------------------------------------------------------------------------
# list operations: the primitive calls, or their open-coded definitions
# --------------------------------------------------------------------------

def _node_ptr(m):
    """for the lvalue N.next / N->next (m): the pointer to the node N"""
    return m['base'] if m['arrow'] else {'k': 'addr', 'e': m['base']}


def _is_lh(m, fields=('next', 'prev')):
    return isinstance(m, dict) and m.get('k') == 'member' and m.get('record') == 'iv_list_head' and m['field'] in fields


def _open_coded(g):
    """{id(store event): ('del'|'add', node pointer expression)} for list operations written out as stores in one block:
         del:  N->prev->next = N->next; N->next->prev = N->prev;      (the later of the two stores is the operation)
         add:  N->next = X; N->prev = Y;  with X, Y not NULL and not N itself (iv_list_add / iv_list_add_tail bodies)"""
    c = _cache_get(g, '_h01_oc')
    if c is not None:
        return c
    c = {}
    for blk in g.blocks.values():
        half, link = {}, {}
        for e in blk.events:
            if e['ev'] == 'call':
                half, link = {}, {}
                continue
            if e['ev'] != 'store' or e.get('op') != '=' or 'rhs' not in e:
                continue
            l, r = strip(e['lhs']), strip(e['rhs'])
            if not _is_lh(l):
                continue
            lb = strip(l['base']) if l['arrow'] else None
            if _is_lh(lb) and _is_lh(r) and lb['field'] != l['field'] and r['field'] == l['field'] \
                    and canon(_node_ptr(lb)) == canon(_node_ptr(r)):
                k = canon(_node_ptr(r))
                if half.get(k, l['field']) != l['field']:
                    c[id(e)] = ('del', _node_ptr(r))
                half[k] = l['field']
                continue
            if isinstance(r, dict) and r.get('k') not in ('null',) and const_of(r) is None:
                k = canon(_node_ptr(l))
                if canon(r) == k:
                    continue
                if link.get(k, l['field']) != l['field']:
                    c[id(e)] = ('add', _node_ptr(l))
                link[k] = l['field']
    return _cache_put(g, '_h01_oc', c)


def list_op(g, e):
    """('del'|'add', node pointer expression) when the event unlinks / links a list node"""
    if e['ev'] == 'call' and e.get('args'):
        if e.get('callee') in LIST_DEL:
            return ('del', e['args'][0])
        if e.get('callee') in LIST_ADD:
            return ('add', e['args'][0])
        return None
    if e['ev'] == 'store' and g is not None:
        return _open_coded(g).get(id(e))
    return None


def list_op_member(g, e):
    """('del'|'add', (record, field) of the node) or None"""
    o = list_op(g, e)
    if o is None:
        return None
    return (o[0], member_of_ptr(g, o[1]))


def object_vars(g, root, rec):
    """locals of the (inlined) root that always hold the root's parameter of kind `rec`
    (the object an unregister call is about): the parameter and locals only ever assigned from it"""
    want = norm_rec(rec)
    objs = {p['name'] for p in root.params if p.get('ptr') and norm_rec(p.get('record')) == want}
    defs = local_defs(g)
    changed = True
    while changed:
        changed = False
        for v, ds in defs.items():
            if v in objs or not ds:
                continue
            if all(r is not None and is_localvar(strip(r)) and strip(r)['name'] in objs for r in ds):
                objs.add(v)
                changed = True
    return objs


def base_var_names(lv):
    """for an lvalue `X->f...` / `X->a.b`: the locals that hold X"""
    x = strip(lv)
    while isinstance(x, dict) and x.get('k') == 'member':
        if x['arrow']:
            return var_names(x['base'])
        x = strip(x['base'])
    return set()


def depends_on(g, x, pred, seen=None, depth=12):
    """does the value of x depend (through definitions of locals, call arguments, return temporaries of
    inlined helpers) on a sub-expression satisfying pred"""
    seen = set() if seen is None else seen
    for y in walk(x):
        if pred(y):
            return True
        if is_localvar(y) and y['name'] not in seen and depth > 0:
            seen.add(y['name'])
            for r in local_defs(g).get(y['name'], []):
                if r is not None and depends_on(g, r, pred, seen, depth - 1):
                    return True
    return False


def resolve_ptr(g, x, depth=4):
    """x, or when x is a local all of whose definitions are the same address expression (`lock = &st->mutex`), that
    expression"""
    y = strip(x)
    if is_localvar(y) and depth > 0 and g is not None:
        ds = local_defs(g).get(y['name'])
        if ds and all(r is not None for r in ds) and len({canon(r) for r in ds}) == 1:
            r = strip(ds[0])
            if isinstance(r, dict) and r.get('k') in ('addr', 'var'):
                return resolve_ptr(g, ds[0], depth - 1)
    return x


def locks_held(g):
    """analyses.locksets with the lock object resolved through locals that name it"""
    from ..analyses import lock_effect
    def tr(e, S):
        if e['ev'] == 'call' and e.get('args'):
            e = dict(e, args=[resolve_ptr(g, a) for a in e['args']])
        for (op, lid) in lock_effect(e):
            S = frozenset(x for x in S if x != lid)
            if op == 'lock':
                S = S | {lid}
        return S
    _, ev_in = forward(g, frozenset(), tr, lambda a, b: a & b)
    return ev_in


# --------------------------------------------------------------------------
# pointers into a block of memory (the kernel-filled array)
# --------------------------------------------------------------------------

def ptr_base(x):
    """the pointer P that x is derived from by offsetting: P, (T)P, P + i, &P[i], &P[i].f, &P->f, &*P;
    for an array object A: A, &A[i]"""
    x = strip(x)
    if not isinstance(x, dict):
        return None
    k = x.get('k')
    if k == 'addr':
        y = strip_load(x['e'])
        while isinstance(y, dict):
            yk = y.get('k')
            if yk == 'member':
                if y['arrow']:
                    return ptr_base(y['base'])
                y = strip_load(y['base'])
            elif yk == 'index':
                return ptr_base(y['base'])
            elif yk == 'deref':
                return ptr_base(y['e'])
            elif yk in ('cast', 'paren'):
                y = strip_load(y['e'])
            elif yk == 'var':
                return y
            else:
                return None
        return None
    if k == 'bin' and x.get('op') in ('+', '-'):
        return ptr_base(x['l']) or ptr_base(x['r'])
    if k == 'incdec':
        return ptr_base(x['e'])
    if k == 'assign':
        return ptr_base(x['l'])
    if k == 'cond':
        return ptr_base(x['a']) or ptr_base(x['b'])
    if k in ('var', 'member'):
        return x
    return None


def designator(p):
    p = strip(p)
    if not isinstance(p, dict):
        return None
    if p.get('k') == 'var' and p.get('vk') != 'func':
        return ('var', p['name'])
    if p.get('k') == 'member':
        return ('fld', p.get('record'), p['field'])
    return None


def designators(x):
    """designators of the pointer x is derived from, under every name its value is known by"""
    out = set()
    pb = ptr_base(x)
    d = designator(pb)
    if d:
        out.add(d)
    if pb is not None:
        # the pointer itself may be a propagated copy of a local
        y = x
        while isinstance(y, dict):
            if '_was' in y and strip(y) is pb:
                out.add(('var', y['_was']))
            if y.get('k') in ('load', 'cast', 'paren') and isinstance(y.get('e'), dict):
                y = y['e']
            else:
                break
    return out


def pointer_closure(g, seeds):
    """All designators (locals, record fields) that may hold a pointer into the memory block the seed
    designators point to: closed over assignments in both directions (`p = st->arr + i; wait(p)`
    makes st->arr a pointer into the block as well; a local assigned from several blocks joins them: conservative)."""
    T = set(seeds)
    changed = True
    while changed:
        changed = False
        for e in g.events():
            if e['ev'] != 'store' or e.get('op') != '=' or 'rhs' not in e:
                continue
            dl = designator(e['lhs'])
            if dl is None:
                continue
            dr = designators(e['rhs'])
            if dr & T and dl not in T:
                T.add(dl)
                changed = True
            if dl in T and dl[0] == 'var':
                # p = P (+ i): p points into the block, hence so does P
                for d in dr:
                    if d not in T:
                        T.add(d)
                        changed = True
    return T


def reads_block(x, T):
    """does evaluating x read memory of the block designated by T (element, field of element, *p)"""
    for y in walk(x):
        k = y.get('k')
        if k == 'index':
            p = y['base']
        elif k == 'member' and y.get('arrow'):
            p = y['base']
        elif k == 'deref':
            p = y['e']
        else:
            continue
        if designators(p) & T:
            return True
    return False


# --------------------------------------------------------------------------
# contexts
# --------------------------------------------------------------------------

def inlined(prog, f, **kw):
    """Inliner(prog, **kw).inline(f), cached on the program object itself (roles.inlined keys its cache
    by id(prog), which is reused when a process analyses several programs one after the other)"""
    c = prog.__dict__.setdefault('_h01_inl', {})
    key = (f.q, tuple(sorted(kw.items())))
    if key not in c:
        g = Inliner(prog, **kw).inline(f)
        if _forward_temp_copies(g) and kw.get('prune'):
            from ..analyses import prune_infeasible
            prune_infeasible(g)
        # a flag fed by a flag (`alive = helper()` with a boolean helper; `b = a`) only becomes a constant-valued
        # local once the first one is eliminated: repeat the core's flag partitioning until nothing is left
        if os.environ.get('IVY_NO_FLAGS') != '1':
            for _ in range(3):
                done = list(partition_flags(g))
                for name in _copied_flags(g)[:4]:
                    if _partition_one(g, name, 900):
                        done.append(name)
                if not done:
                    break
                try:
                    copy_propagate(g)
                except AnalysisBroken:
                    pass
        c[key] = g
    return c[key]


def _forward_temp_copies(g):
    """The inliner passes an argument that is not syntactically stable through a temporary (`p@N = arg`), and a
    returned local through `$retN`.  When such a temporary is a plain copy of a variable (`fd@2 = (T)_fd`,
    `$ret1 = t@1`) it is renamed to that variable, so that the text-based facts of the core (branch atoms, markers,
    infeasible-edge pruning) speak about one name.  Sound: the temporary has this single definition, lives only
    while the callee runs (a parameter) or until its value is consumed (a return temporary), neither variable has
    its address taken, and the callee cannot assign the caller's variable."""
    addr_taken, ndefs = set(), {}
    for e in g.events():
        for x in walk(e):
            if x.get('k') == 'addr':
                v = strip(x['e'])
                if isinstance(v, dict) and v.get('k') == 'var':
                    addr_taken.add(v['name'])
        if e['ev'] == 'store':
            l = strip(e['lhs'])
            if isinstance(l, dict) and l.get('k') == 'var':
                ndefs[l['name']] = ndefs.get(l['name'], 0) + 1
    ren = {}
    for e in g.events():
        if e['ev'] != 'store' or e.get('op') != '=' or 'rhs' not in e:
            continue
        l = strip(e['lhs'])
        if not (isinstance(l, dict) and l.get('k') == 'var'):
            continue
        a = l['name']
        if not (e.get('is_param') or a.startswith('$ret')) or ndefs.get(a) != 1 or a in addr_taken:
            continue
        r = strip(e['rhs'])
        if is_localvar(r) and r['name'] != a and r['name'] not in addr_taken:
            # the source must not change while the temporary is in use: a root parameter / local that is never
            # assigned, or itself a single-definition temporary of the inliner
            b = r['name']
            if ndefs.get(b, 0) == 0 or (ndefs.get(b) == 1 and ('@' in b or b.startswith('$ret'))):
                ren[a] = b
    if not ren:
        return 0
    def final(n):
        seen = set()
        while n in ren and n not in seen:
            seen.add(n)
            n = ren[n]
        return n
    def r_(nd):
        if nd.get('k') == 'var' and nd.get('name') in ren and nd.get('vk') != 'func':
            m = dict(nd)
            m['name'] = final(nd['name'])
            return m
        return None
    for b, blk in g.blocks.items():
        out = []
        for e in blk.events:
            if e['ev'] == 'store' and isinstance(strip(e['lhs']), dict) and strip(e['lhs']).get('k') == 'var' \
                    and strip(e['lhs'])['name'] in ren:
                continue
            if e['ev'] == 'decl' and e.get('name') in ren:
                continue
            e2 = {}
            for k_, v in e.items():
                e2[k_] = subst(v, r_) if isinstance(v, (dict, list)) and k_ != 'chain' else v
            if e2['ev'] == 'leave' and e2.get('retvar') in ren:
                e2['retvar'] = final(e2['retvar'])
            out.append(e2)
        blk.events = out
        if blk.term and blk.term.get('cond') is not None:
            blk.term = dict(blk.term, cond=subst(blk.term['cond'], r_))
        for i, e in enumerate(blk.events):
            e['_b'] = b
            e['_i'] = i
    g._preds = None
    return len(ren)


def _copied_flags(g):
    """locals that are only ever assigned constants / boolean expressions and are not tested themselves but copied
    into another local (`alive = helper_result`): eliminating them turns the copy into a flag the core handles"""
    addr_taken, ok, bad, copied = set(), set(), set(), set()
    for e in g.events():
        for x in walk(e):
            if x.get('k') == 'addr':
                v = strip(x['e'])
                if isinstance(v, dict) and v.get('k') == 'var':
                    addr_taken.add(v['name'])
        if e['ev'] == 'store':
            l = strip(e['lhs'])
            if isinstance(l, dict) and l.get('k') == 'var' and l.get('vk') == 'local':
                r = strip(e.get('rhs')) if 'rhs' in e else None
                if e.get('op') == '=' and isinstance(r, dict) and (r.get('k') == 'int' or _is_boolean_expr(r)):
                    ok.add(l['name'])
                else:
                    bad.add(l['name'])
                if e.get('op') == '=' and isinstance(r, dict) and r.get('k') == 'var' and r.get('vk') == 'local' and r['name'] != l['name']:
                    copied.add(r['name'])
    return sorted(n for n in ok if n not in bad and n not in addr_taken and n in copied)


def call_target(g, e):
    """the function-pointer member an indirect call goes through: `o->handler(..)`, or a local / parameter of an
    inlined trampoline all of whose definitions read the same member (`fn = o->handler; fn(arg)`)"""
    fe = e.get('fnexpr')
    if fe is None:
        return None
    m = strip(fe)
    if isinstance(m, dict) and m.get('k') == 'member':
        return m
    if is_localvar(m) and g is not None:
        ds = local_defs(g).get(m['name'])
        if ds and all(r is not None for r in ds):
            ms = [strip(r) for r in ds]
            if all(isinstance(x, dict) and x.get('k') == 'member' for x in ms) and len({canon(x) for x in ms}) == 1:
                return ms[0]
    return None


def cb_kind(g, e):
    """kind of user callback entered by the call event (None: not a user callback)"""
    if e['ev'] != 'call' or 'fnexpr' not in e:
        return None
    m = call_target(g, e)
    if m is None:
        return None
    return CALLBACK_FIELDS.get((m.get('record'), m['field']))


def is_user_cb(e):
    k = callback_kind(e)
    return k[1] if k and k[0] == 'callback' else None


def callback_contexts(prog):
    """[(function, inlined graph)] in which user-callback sites are to be judged: every root of the
    library (exported function, installed handler, method slot) with its helpers inlined, plus, for
    callback sites no root reaches within the inlining depth, the function that contains them."""
    c = getattr(prog, '_h01_cbctx', None)
    if c is not None:
        return c
    out, covered = [], set()
    rts = roles.roots(prog)
    for r in rts:
        g = inlined(prog, r)
        locs = {e['loc'] for e in g.events() if cb_kind(g, e)}
        if locs:
            out.append((r, g))
            covered |= locs
    rq = {r.q for r in rts}
    for f in sorted(prog.all_funcs(), key=lambda f: f.q):
        if f.q in rq:
            continue
        locs = {e['loc'] for e in f.events() if cb_kind(f, e)}
        if locs - covered:
            out.append((f, inlined(prog, f)))
    prog._h01_cbctx = out
    return out


def owner_name(e, default):
    q = e.get('fn') or default
    return q.split(':')[-1]


# --------------------------------------------------------------------------
# unlinked / stamped since definition (one-shot objects)
# --------------------------------------------------------------------------

def oneshot_facts(g, stamp_fields):
    """Forward must-analysis.  Facts (all die when the variable they speak about is redefined):
         ('eq', a, b)              locals a and b hold the same pointer
         ('node', n, v, key, mk)   the value known as n (a local, or a pure access path reading the
                                   locations mk) is &v->key  (v = container_of(n, key))
         ('unl', v, key)           *v was unlinked from the list it was on through its node `key`
         ('st', v, fld)            v->fld holds the stamp value stamp_fields[fld]
       A user callback forgets what is known about objects (it may re-register them)."""
    def cls(S, v):
        out = {v}
        for f in S:
            if f[0] == 'eq':
                if f[1] == v:
                    out.add(f[2])
                elif f[2] == v:
                    out.add(f[1])
        return out

    def drop_var(S, x):
        return frozenset(f for f in S if not (
            (f[0] == 'eq' and x in (f[1], f[2])) or
            (f[0] == 'node' and (f[1] == x or f[2] == x or ('var', x) in f[4])) or
            (f[0] in ('unl', 'st') and f[1] == x)))

    def drop_mem(S, kills=None):
        return frozenset(f for f in S if not (f[0] == 'node' and f[4] and (kills is None or (f[4] & kills))))

    def unlink(node, S):
        a = strip(node)
        add = set()
        if isinstance(a, dict) and a.get('k') == 'addr' and last_member(a['e']):
            key = last_member(a['e'])
            for b in base_var_names(a['e']):
                for u in cls(S, b):
                    add.add(('unl', u, key))
        names = var_names(node) | {canon(node)}
        for f in S:
            if f[0] == 'node' and f[1] in names:
                for u in cls(S, f[2]):
                    add.add(('unl', u, f[3]))
        return drop_mem(S) | frozenset(add)

    def relink(node, S):
        key = member_of_ptr(g, node)
        # linked again: through a pointer that may alias any object of that kind
        return drop_mem(frozenset(f for f in S if not (f[0] == 'unl' and (key is None or f[2] == key))))

    def transfer(e, S):
        ev = e['ev']
        lo = list_op(g, e)
        if lo is not None:
            return unlink(lo[1], S) if lo[0] == 'del' else relink(lo[1], S)
        if ev == 'decl':
            return drop_var(S, e['name'])
        if ev == 'store':
            l = strip(e['lhs'])
            if isinstance(l, dict) and l.get('k') == 'var':
                x = l['name']
                S0 = S
                S = drop_var(S, x)
                if e.get('op') != '=' or 'rhs' not in e or l.get('vk') not in ('local', 'param'):
                    return S
                r = strip(e['rhs'])
                if is_localvar(r) and r['name'] != x:
                    w = r['name']
                    add = {('eq',) + tuple(sorted((x, u))) for u in cls(S0, w) if u != x}
                    for f in S0:
                        if f[0] == 'node' and f[2] == w and f[1] != x and ('var', x) not in f[4]:
                            add.add(('node', f[1], x, f[3], f[4]))
                        elif f[0] in ('unl', 'st') and f[1] == w:
                            add.add((f[0], x, f[2]))
                    return S | frozenset(add)
                if isinstance(r, dict) and r.get('k') == 'container_of':
                    key = (r.get('record'), r.get('member'))
                    add = set()
                    for n in var_names(r['e']):
                        if n != x:
                            add.add(('node', n, x, key, frozenset()))
                    inner = strip(r['e'])
                    if isinstance(inner, dict) and inner.get('k') != 'var' and not any(y.get('k') == 'call' for y in walk(inner)):
                        mk = frozenset(_keys_read(inner))
                        if ('var', x) not in mk:
                            add.add(('node', canon(inner), x, key, mk))
                    return S | frozenset(add)
                return S
            # store to memory
            kills = set(lvalue_steps(e['lhs']))
            if isinstance(l, dict) and l.get('k') in ('deref', 'index') and not kills:
                kills.add(('mem', '*'))
            if not kills:
                lm = last_member(e['lhs'])
                if lm:
                    kills.add(lm)
            S = drop_mem(S, kills)
            lm = last_member(e['lhs'])
            if lm in stamp_fields:
                val = const_of(e.get('rhs')) if e.get('op') == '=' else None
                if val is None or val != stamp_fields[lm]:
                    # a store of another value through a pointer that may alias invalidates every stamp
                    S = frozenset(f for f in S if not (f[0] == 'st' and f[2] == lm))
                else:
                    add = set()
                    for b in base_var_names(e['lhs']):
                        for u in cls(S, b):
                            add.add(('st', u, lm))
                    S = S | frozenset(add)
            return S
        if ev == 'call':
            if 'fnexpr' in e:
                return frozenset(f for f in drop_mem(S) if f[0] not in ('unl', 'st'))
            nm = e.get('callee')
            if nm not in PURE_CALLS:
                S = drop_mem(S)
            for a in e.get('args', []):
                a = strip(a)
                if isinstance(a, dict) and a.get('k') == 'addr':
                    v = strip(a['e'])
                    if isinstance(v, dict) and v.get('k') == 'var':
                        S = drop_var(S, v['name'])
            return S
        return S

    _, ev_in = forward(g, frozenset(), transfer, lambda a, b: a & b)
    return ev_in
