"""C11 — iv_wait: child statuses reach the right interest once; strangers harmless.

Decided statically: NULL-contradiction in the anchored files, lock regions of
fork+insert and of the reaper, the kill gate, dead-flag pairing, status-record
ownership.  Not decided: ordering of statuses, pid reuse races, routing
multiplicities over schedules.
"""
from ..core import (names_of, same_value, AnalysisBroken, canon, strip, last_member, must_pass, relpath, norm_cond, walk)
from .. import generic
from ..analyses import (is_call, locksets, held, holding, atoms_reading, must_pass_from_block,
                        path_to, describe, exits_of)

ANCHOR_FILES = ('iv_wait.c', 'iv_signal.c')
WAIT_LOCK = 'iv_wait_lock'
TREE = '&iv_wait_interests'


def null_rule(ctx, rid, files):
    n = 0
    for f in sorted(ctx.prog.all_funcs(), key=lambda f: f.q):
        if not f.file.endswith(files):
            continue
        f = f.pristine()      # the rule is about what the source says of a local, not of the value it caches
        reps, ncand = generic.null_contradiction(f)
        if not ncand:
            continue
        byvar = {}
        for (e, v, acc) in reps:
            byvar.setdefault(v, []).append((e, acc))
        # one obligation per tested pointer variable
        tested = set()
        for b in f.blocks.values():
            c = b.term.get('cond') if b.term else None
            if c is None:
                continue
            for pol in (True, False):
                for (op, lc, rc, l, r) in norm_cond(c, pol):
                    lv = strip(l)
                    if op in ('==', '!=') and rc == '0' and isinstance(lv, dict) and lv.get('k') == 'var' \
                            and lv.get('vk') in ('local', 'param') and '*' in lv.get('type', ''):
                        tested.add(lv['name'])
        for v in sorted(tested):
            bad = byvar.get(v, [])
            e0 = bad[0][0] if bad else None
            ctx.ob(rid, '%s:%s' % (f.name, v), not bad, loc=e0['loc'] if e0 else f.loc,
                   detail=('pointer `%s` is tested against NULL, yet dereferenced on a path where the NULL edge '
                           'was taken: %s' % (v, ', '.join(sorted({a for _, a in bad})))) if bad else
                          'tested pointer is never dereferenced on its NULL path',
                   path=path_to(f, e0) if e0 else None, fn=f.q)
            n += 1
    return n


def run(ctx):
    prog = ctx.prog
    ctx.rule('R-C11a', 'NULL-CONTRADICTION: a pointer the function itself tests against NULL is not dereferenced '
                       'on a path where the NULL edge was taken (iv_wait.c, iv_signal.c)', floor=4)
    ctx.rule('R-C11b', 'fork and the tree insertion of the new interest share one uninterrupted iv_wait_lock region; '
                       'the reaper reaps, looks up, queues, deletes and flags inside one region of the same lock', floor=6)
    ctx.rule('R-C11c', 'kill() is called only with the wait lock held, on the not-dead edge of the flag test of the '
                       'interest whose pid is signalled', floor=2)
    ctx.rule('R-C11d', 'the pid leaves the set exactly when a terminating status is reaped: delete and dead-flag store '
                       'are paired under the dead-status test; unregister deletes iff the flag is clear', floor=4)
    ctx.rule('R-C11e', 'every reaped status record is queued to an interest or freed; delivered and purged records are freed', floor=3)
    ctx.rule('R-C11.cmp', 'writer and reader of the pid set agree: the tree comparator orders by pid and the hand-rolled lookup descends '
                          'left iff the sought pid is smaller, right iff larger, and returns on equality', floor=6)
    ctx.section(cmp_rules)
    ctx.section(lambda c: null_rule(c, 'R-C11a', ANCHOR_FILES))
    ctx.section(regions_and_dead)
    ctx.section(kill_gate)
    ctx.section(status_table)
    ctx.section(records)
    ctx.rule('R-C11f', 'nothing is delivered after unregistration: the delivery loop re-tests the per-thread handled-interest marker before '
                       'each handler call and touches the interest afterwards only behind it; unregister clears that marker when it '
                       'designates the interest (shared with C01)', floor=2)
    ctx.section(delivery)


def cmp_rules(ctx):
    from .. import cmprules
    cmprules.key_comparator(ctx, 'R-C11.cmp', 'iv_wait_interest_compare', 'pid')
    cmprules.descent(ctx, 'R-C11.cmp', '__iv_wait_interest_find', 'pid', on_equal='return')
    # the tree is the one the comparator is installed for
    g = ctx.prog.globals.get('iv_wait.c:iv_wait_interests') or ctx.prog.globals.get('iv_wait_interests')
    ok = g is not None and 'iv_wait_interest_compare' in canon(g.get('init', {}).get('fields', {}).get('compare', {})) if g and g.get('init', {}).get('k') == 'init' else False
    ctx.ob('R-C11.cmp', 'iv_wait_interests:comparator', ok, loc=g['loc'] if g else None,
           detail='the interest tree is initialised with iv_wait_interest_compare')


def regions_and_dead(ctx):
    prog = ctx.prog
    f = prog.fn('iv_wait_interest_register_spawn')
    ls = locksets(f)
    forks = [e for e in f.events() if is_call(e, 'fork')]
    ins = [e for e in f.events() if is_call(e, 'iv_avl_tree_insert') and canon(e['args'][0]) == TREE]
    if not forks or not ins:
        raise AnalysisBroken('spawn helper: fork or tree insertion not found')
    for fk in forks:
        S = ls.get((fk['_b'], fk['_i']), frozenset())
        reg = [x for x in S if x[0] == WAIT_LOCK]
        ctx.ob('R-C11b', 'spawn:fork-under-lock', bool(reg), loc=fk['loc'],
               detail='fork() is called with iv_wait_lock held', fn=f.q)
        for i in ins:
            S2 = ls.get((i['_b'], i['_i']), frozenset())
            reg2 = [x for x in S2 if x[0] == WAIT_LOCK]
            ctx.ob('R-C11b', 'spawn:insert-same-region', bool(reg) and reg == reg2, loc=i['loc'],
                   detail='the interest is inserted in the lock region in which fork() ran (acquired at %s)'
                          % (relpath(reg[0][1]) if reg else '-'), fn=f.q)
    # plain registration inserts under the lock
    f = prog.fn('iv_wait_interest_register')
    ls = locksets(f)
    for i in [e for e in f.events() if is_call(e, 'iv_avl_tree_insert') and canon(e['args'][0]) == TREE]:
        ctx.ob('R-C11b', 'register:insert-under-lock', WAIT_LOCK in held(ls.get((i['_b'], i['_i']))), loc=i['loc'],
               detail='tree insertion with iv_wait_lock held', fn=f.q)
    # reaper
    f = prog.fn('iv_wait_got_sigchld')
    ls = locksets(f)
    reaps = [e for e in f.events() if is_call(e, ('wait4', 'waitpid'))]
    if not reaps:
        raise AnalysisBroken('reaper: wait4/waitpid call not found')
    crit = []
    for e in f.events():
        if is_call(e, ('wait4', 'waitpid')):
            crit.append(('reap', e))
        elif is_call(e, '__iv_wait_interest_find'):
            crit.append(('lookup', e))
        elif is_call(e, ('iv_list_add_tail', 'iv_list_add')) and last_member(strip(e['args'][1]).get('e')) == ('iv_wait_interest', 'events_pending'):
            crit.append(('queue', e))
        elif is_call(e, 'iv_avl_tree_delete') and canon(e['args'][0]) == TREE:
            crit.append(('delete', e))
        elif e['ev'] == 'store' and last_member(e['lhs']) == ('iv_wait_interest', 'flags'):
            crit.append(('flag', e))
    kinds = {k for k, _ in crit}
    for need in ('reap', 'lookup', 'queue', 'delete'):
        if need not in kinds:
            raise AnalysisBroken('reaper: %s step not found' % need)
    regions = set()
    for k, e in crit:
        S = ls.get((e['_b'], e['_i']), frozenset())
        reg = [x for x in S if x[0] == WAIT_LOCK]
        regions |= set(reg)
        ctx.ob('R-C11b', 'reaper:%s-under-lock' % k, bool(reg), loc=e['loc'],
               detail='%s with iv_wait_lock held' % describe(e), fn=f.q)
    ctx.ob('R-C11b', 'reaper:one-region', len(regions) == 1, loc=f.loc,
           detail='all reaper steps lie in a single acquisition of the lock (%d regions)' % len(regions), fn=f.q)

    dead_pairing(ctx, prog, reaps, crit)


def kill_gate(ctx):
    prog = ctx.prog
    n = 0
    for f in prog.all_funcs():
        kills = [e for e in f.events() if is_call(e, 'kill')]
        if not kills:
            continue
        ls = locksets(f)
        hd = holding(f)
        for e in kills:
            n += 1
            S = ls.get((e['_b'], e['_i']), frozenset())
            ctx.ob('R-C11c', '%s:kill-under-lock' % f.name, WAIT_LOCK in held(S), loc=e['loc'],
                   detail='kill() with iv_wait_lock held', fn=f.q)
            pidarg = strip(e['args'][0])
            obj = None
            if isinstance(pidarg, dict) and pidarg.get('k') == 'member' and last_member(pidarg) == ('iv_wait_interest', 'pid'):
                obj = canon(pidarg['base'])
            A = hd.get((e['_b'], e['_i']), frozenset())
            ok = False
            for a in atoms_reading(A, ('iv_wait_interest', 'flags')):
                # (obj->flags & DEAD) == 0
                if a[0] == '==' and a[2] == '0' and obj is not None and a[1].startswith('(%s->flags & ' % obj):
                    ok = True
            ctx.ob('R-C11c', '%s:kill-gated' % f.name, ok and obj is not None, loc=e['loc'],
                   detail='kill(%s) is on the not-dead edge of the flag test of the same interest' % canon(e['args'][0]),
                   path=None if ok else path_to(f, e), fn=f.q)
    if n == 0:
        raise AnalysisBroken('no kill() call found')



def dead_pairing(ctx, prog, reaps, crit):
    f = prog.fn('iv_wait_got_sigchld')
    hd = holding(f)
    status_vars = set()
    for e in reaps:
        for a in e['args']:
            a = strip(a)
            if isinstance(a, dict) and a.get('k') == 'addr' and strip(a['e']).get('k') == 'var':
                status_vars.add(strip(a['e'])['name'])
    dels = [e for k, e in crit if k == 'delete']
    flags = [e for k, e in crit if k == 'flag']
    for e in dels + flags:
        A = hd.get((e['_b'], e['_i']), frozenset())
        ok = any(a[0] == '!=' and a[2] == '0' and any(('var', v) in a[3] for v in status_vars) for a in A)
        ctx.ob('R-C11d', 'reaper:%s-on-dead-status' % ('delete' if e in dels else 'flag'), ok, loc=e['loc'],
               detail='%s is control-dependent on the terminating-status predicate' % describe(e), fn=f.q)
    # delete is followed by the dead-flag store before the lock is dropped
    for d in dels:
        mp = must_pass(f, lambda e: e['ev'] == 'store' and last_member(e['lhs']) == ('iv_wait_interest', 'flags'), start_event=d)
        bad = [e for e in f.events() if is_call(e, '___mutex_unlock') and mp.get((e['_b'], e['_i'])) is False]
        ctx.ob('R-C11d', 'reaper:delete-then-flag', not bad, loc=d['loc'],
               detail='after the pid leaves the tree the dead flag is stored before iv_wait_lock is released', fn=f.q)
    # unregister: delete iff flag clear
    f = prog.fn('iv_wait_interest_unregister')
    hd = holding(f)
    ls = locksets(f)
    udel = [e for e in f.events() if is_call(e, 'iv_avl_tree_delete') and canon(e['args'][0]) == TREE]
    if not udel:
        raise AnalysisBroken('iv_wait_interest_unregister: tree deletion not found')
    for e in udel:
        A = hd.get((e['_b'], e['_i']), frozenset())
        ok = any(a[0] == '==' and a[2] == '0' for a in atoms_reading(A, ('iv_wait_interest', 'flags')))
        ctx.ob('R-C11d', 'unregister:delete-iff-not-dead', ok and WAIT_LOCK in held(ls.get((e['_b'], e['_i']))), loc=e['loc'],
               detail='tree deletion only on the flag-clear edge, under the lock (no double delete)', fn=f.q)
    # ... and on the flag-clear edge the deletion is reached on every path (no missing delete)
    found = False
    for b, blk in f.blocks.items():
        if blk.term and blk.term.get('cond') is not None and len(blk.succ) == 2:
            for si in (0, 1):
                for (op, lc, rc, l, r) in norm_cond(blk.term['cond'], si == 0):
                    if op == '==' and rc == '0' and ('iv_wait_interest', 'flags') in set(
                            (x.get('record'), x.get('field')) for x in walk(l) if x.get('k') == 'member'):
                        found = True
                        mp = must_pass_from_block(f, blk.succ[si], lambda e: e in udel)
                        pts = exits_of(f)
                        ok = all(mp.get((pb, pi), True) for (pb, pi, _) in pts) and mp.get((f.exit, 0), True)
                        ctx.ob('R-C11d', 'unregister:not-dead-edge-deletes', ok, loc=blk.term.get('loc'),
                               detail='every path from the flag-clear edge to return deletes the node', fn=f.q)
    if not found:
        raise AnalysisBroken('iv_wait_interest_unregister: dead-flag test not found')



def records(ctx):
    prog = ctx.prog
    f = prog.fn('iv_wait_got_sigchld')
    allocs = [e for e in f.events() if e['ev'] == 'store' and 'rhs' in e and any(c.get('callee') == 'malloc' for c in walk(e['rhs']) if c.get('k') == 'call')]
    if not allocs:
        raise AnalysisBroken('reaper: status record allocation not found')
    for a in allocs:
        v = canon(a['lhs'])
        def consumed(e, v=v):
            if is_call(e, 'free') and canon(e['args'][0]) == v:
                return True
            if is_call(e, ('iv_list_add_tail', 'iv_list_add')) and canon(e['args'][0]).startswith('&%s->' % v):
                return True
            return False
        mp = must_pass(f, consumed, start_event=a)
        # at loop back to the allocation and at unlock/return the record must be consumed
        bad = []
        for e in f.events():
            if (e is a or is_call(e, '___mutex_unlock')) and mp.get((e['_b'], e['_i'])) is False:
                bad.append(e)
        ctx.ob('R-C11e', 'reaper:record-queued-or-freed', not bad, loc=a['loc'],
               detail='%s is linked into an interest queue or freed on every path' % v, fn=f.q)
    for fq, what in (('iv_wait_completion', 'delivered'), ('__iv_wait_interest_unregister', 'purged')):
        f = prog.fn(fq)
        dl = [e for e in f.events() if is_call(e, ('iv_list_del', 'iv_list_del_init')) and last_member(strip(e['args'][0]).get('e')) == ('wait_event', 'list')]
        if not dl:
            raise AnalysisBroken('%s: status record unlink not found' % fq)
        for d in dl:
            v = canon(strip(strip(d['args'][0])['e'])['base'])
            mp = must_pass(f, lambda e, v=v: is_call(e, 'free') and canon(e['args'][0]) == v, start_event=d)
            bad = [e for e in f.events() if (e is d) and mp.get((e['_b'], e['_i'])) is False]
            pts = [(pb, pi) for (pb, pi, _) in exits_of(f)] + [(f.exit, 0)]
            bad += [p for p in pts if mp.get(p) is False]
            ctx.ob('R-C11e', '%s:%s-record-freed' % (fq, what), not bad, loc=d['loc'],
                   detail='each %s status record is freed before the next one is taken / the function returns' % what, fn=f.q)


def delivery(ctx):
    import types
    from . import c01
    sub = []
    proxy = types.SimpleNamespace(prog=ctx.prog, ob=lambda rid, inst, ok, **kw: sub.append((rid, inst, ok, kw)),
                                  exempt=lambda *a, **k: None)
    c01.holders(proxy)
    c01.stale(proxy)
    n = 0
    for rid, inst, ok, kw in sub:
        if inst.startswith('holder:marker iv_wait_interest') or inst.startswith('iv_wait_completion:'):
            n += 1
            ctx.ob('R-C11f', inst, ok, **kw)
    if n < 2:
        raise AnalysisBroken('wait delivery marker rules not found')


def status_table(ctx, rid='R-C11d'):
    """The terminating-status predicate evaluated on the four kinds of wait
    status (Linux encodings): exited and killed-by-signal are terminal, stopped
    and continued are not."""
    from .. import interp
    prog = ctx.prog
    f = prog.fn('iv_wait_status_dead')
    p = f.params[0]['name']
    cases = [('exited(0)', 0x0000, 1), ('exited(3)', 0x0300, 1), ('killed(SIGTERM)', 15, 1), ('killed(SIGKILL)+core', 9 | 0x80, 1),
             ('stopped(SIGSTOP)', (19 << 8) | 0x7f, 0), ('continued', 0xffff, 0)]
    for name, val, want in cases:
        try:
            r = interp.run(f, interp.Assignment(), env={p: val})['ret']
        except AnalysisBroken as ex:
            ctx.ob(rid, 'status_dead:%s' % name, False, loc=f.loc, detail=str(ex), fn=f.q)
            continue
        ctx.ob(rid, 'status_dead:%s' % name, isinstance(r, int) and bool(r) == bool(want), loc=f.loc,
               detail='classified %s, expected %s (a terminating status that is not recognised leaves the pid in the set and the dead flag '
                      'clear: the kill helper would signal a reaped pid)' % (r, want), fn=f.q)
