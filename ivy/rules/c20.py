"""C20 — iv_inotify routes events to their watch; unregistering in handlers is safe."""
from ..core import (names_of, same_value, AnalysisBroken, canon, strip, last_member, must_pass, relpath, norm_cond, walk, forward)
from .. import generic
from ..analyses import (is_call, holding, atoms_reading, path_to, describe, exits_of, callback_kind,
                        stale_after_callback, loops, innermost_loop)
from .c11 import null_rule

IN_IGNORED = 0x00008000
IN_ONESHOT = 0x80000000


def _mask_test(l, rec, bit):
    l = strip(l)
    if isinstance(l, dict) and l.get('k') == 'bin' and l['op'] == '&':
        for a, b in ((l['l'], l['r']), (l['r'], l['l'])):
            if last_member(a) == (rec, 'mask') and strip(b).get('k') == 'int' and (strip(b)['v'] & 0xffffffff) == bit:
                return True
    return False


def run(ctx):
    prog = ctx.prog
    ctx.rule('R-C20a', 'an event is dispatched to the watch looked up by the wd of the current record; a failed lookup '
                       'skips the call; the cursor advances by the current record\'s own length', floor=3)
    ctx.rule('R-C20b', 'kernel-removed (IN_IGNORED) and one-shot watches leave the set before their handler runs', floor=1)
    ctx.rule('R-C20c', 'instance unregister aborts the walk: nothing of the instance or a watch is touched after a handler '
                       'unless the local instance pointer was re-tested; unregister clears that pointer through term iff set', floor=3)
    ctx.rule('R-C20d', 'INIT-COMPLETE for iv_inotify / iv_inotify_watch', floor=4)
    ctx.rule('R-C20g', 'NULL-CONTRADICTION in iv_inotify.c', floor=1)
    ctx.rule('R-C20.cmp', 'watch comparator orders by wd; the lookup descends left/right/returns in agreement with it', floor=6)
    ctx.section(cmp_rules)
    ctx.section(dispatch)
    ctx.section(stale)
    ctx.section(lambda c: generic.init_complete(c, 'R-C20d', kinds={'iv_inotify', 'iv_inotify_watch'}))
    ctx.section(lambda c: null_rule(c, 'R-C20g', ('iv_inotify.c',)))


def cmp_rules(ctx):
    from .. import cmprules
    cmprules.key_comparator(ctx, 'R-C20.cmp', '__iv_inotify_watch_compare', 'wd')
    cmprules.descent(ctx, 'R-C20.cmp', '__find_watch', 'wd', on_equal='return')


def dispatch(ctx):
    prog = ctx.prog
    f = prog.fn('iv_inotify_got_event')
    sites = [e for e in f.events() if callback_kind(e) == ('callback', 'inotify_watch')]
    if not sites:
        raise AnalysisBroken('watch handler call site not found')
    hd = holding(f)
    lps = loops(f)
    for cs in sites:
        wv = canon(strip(cs['fnexpr'])['base'])
        # reaching definition of the watch variable: the lookup by wd of the current record
        defs = [e for e in f.events() if e['ev'] == 'store' and canon(e['lhs']) == wv]
        ok = bool(defs)
        recvar = None
        for d in defs:
            c = strip(d['rhs'])
            if not (isinstance(c, dict) and c.get('k') == 'call' and c.get('callee') == '__find_watch'):
                ok = False
                continue
            a1 = strip(c['args'][1])
            if last_member(a1) != ('inotify_event', 'wd'):
                ok = False
            else:
                recvar = canon(a1['base'])
        ctx.ob('R-C20a', 'dispatch:lookup-by-wd', ok, loc=cs['loc'],
               detail='%s is only ever assigned __find_watch(instance, %s->wd)' % (wv, recvar), fn=f.q)
        # the event record handed to the handler is that same record
        arg_ok = len(cs['args']) >= 2 and canon(cs['args'][1]) == recvar and last_member(cs['args'][0]) == ('iv_inotify_watch', 'cookie') \
            and canon(strip(cs['args'][0])['base']) == wv
        ctx.ob('R-C20a', 'dispatch:args', arg_ok, loc=cs['loc'],
               detail='handler(%s) receives the watch\'s cookie and the current record' % ', '.join(canon(a) for a in cs['args']), fn=f.q)
        A = hd.get((cs['_b'], cs['_i']), frozenset())
        ctx.ob('R-C20a', 'dispatch:lookup-failed-skips', any(a[0] == '!=' and a[1] == wv and a[2] == '0' for a in A), loc=cs['loc'],
               detail='the call is on the non-NULL edge of the lookup result', fn=f.q)
        # cursor advance
        h = innermost_loop(f, cs['_b'], lps)
        adv = [e for e in f.events() if e['ev'] == 'store' and e['op'] in ('+=', '=') and e['_b'] in lps.get(h, ())
               and any(last_member(x) == ('inotify_event', 'len') for x in walk(e.get('rhs', {})) if x.get('k') == 'member')]
        size = prog.records.get('inotify_event', {}).get('size')
        ok = False
        for e in adv:
            ints = [x['v'] for x in walk(e['rhs']) if x.get('k') == 'int']
            lens = [x for x in walk(e['rhs']) if x.get('k') == 'member' and last_member(x) == ('inotify_event', 'len')]
            if size in ints and all(canon(x['base']) == recvar for x in lens):
                ok = True
        ctx.ob('R-C20a', 'walk:cursor-advance', ok and bool(adv), loc=adv[0]['loc'] if adv else cs['loc'],
               detail='cursor advances by sizeof(struct inotify_event)=%s + %s->len of the current record' % (size, recvar), fn=f.q)

        # ---- R-C20b ----
        def tr(e, s, wv=wv):
            if is_call(e, 'iv_avl_tree_delete') and canon(e['args'][1]) == '&%s->an' % wv:
                return False
            if e['ev'] == 'store' and canon(e['lhs']) == wv:
                return False
            return s
        def edge(blk, si, s):
            if blk.term and blk.term.get('cond') is not None and len(blk.succ) == 2:
                for (op, lc, rc, l, r) in norm_cond(blk.term['cond'], si == 0):
                    if op == '!=' and rc == '0' and (_mask_test(l, 'inotify_event', IN_IGNORED) or _mask_test(l, 'iv_inotify_watch', IN_ONESHOT)):
                        return True
            return s
        _, ev_in = forward(f, False, tr, lambda a, b: a or b, edge=edge)
        pending = ev_in.get((cs['_b'], cs['_i']))
        seen_tests = sum(1 for b in f.blocks.values() if b.term and b.term.get('cond') is not None for pol in (True,)
                         for (op, lc, rc, l, r) in norm_cond(b.term['cond'], pol)
                         if _mask_test(l, 'inotify_event', IN_IGNORED) or _mask_test(l, 'iv_inotify_watch', IN_ONESHOT))
        seen_ign = any(_mask_test(l, 'inotify_event', IN_IGNORED) for b in f.blocks.values() if b.term and b.term.get('cond') is not None
                       for (op, lc, rc, l, r) in norm_cond(b.term['cond'], True))
        seen_one = any(_mask_test(l, 'iv_inotify_watch', IN_ONESHOT) for b in f.blocks.values() if b.term and b.term.get('cond') is not None
                       for (op, lc, rc, l, r) in norm_cond(b.term['cond'], True))
        if not (seen_ign and seen_one):
            # is the flag read anywhere in the function (then we cannot follow it: analysis broken), or not at all (violation)?
            reads_watch_mask = any(x.get('k') == 'member' and last_member(x) == ('iv_inotify_watch', 'mask') for e in f.events() for x in walk(e))
            reads_event_mask = any(x.get('k') == 'member' and last_member(x) == ('inotify_event', 'mask') for e in f.events() for x in walk(e)) or \
                any(x.get('k') == 'member' and last_member(x) == ('inotify_event', 'mask') for b in f.blocks.values() if b.term for x in walk(b.term))
            if (not seen_one and not reads_watch_mask) or (not seen_ign and not reads_event_mask):
                ctx.ob('R-C20b', 'dispatch:delete-before-handler', False, loc=cs['loc'],
                       detail='the dispatcher never examines %s: such watches are not dropped from the instance before their handler runs'
                              % ('the watch\'s IN_ONESHOT flag' if not seen_one else 'the record\'s IN_IGNORED flag'), fn=f.q)
                continue
            raise AnalysisBroken('IN_IGNORED / IN_ONESHOT tests not found as branch conditions in the dispatcher')
        ctx.ob('R-C20b', 'dispatch:delete-before-handler', pending is False, loc=cs['loc'],
               detail='on every path on which the record says IN_IGNORED or the watch is one-shot, the watch was deleted from the tree before its handler is called', fn=f.q)



def stale(ctx):
    prog = ctx.prog
    f = prog.fn('iv_inotify_got_event')
    reps, objvars, markers = stale_after_callback(f, lambda e: (callback_kind(e) or ('', ''))[0] == 'callback' and callback_kind(e)[1])
    byvar = {}
    for (e, v, acc, cb) in reps:
        byvar.setdefault(v, []).append((e, acc))
    for v in sorted(objvars):
        bad = byvar.get(v, [])
        e0 = bad[0][0] if bad else None
        ctx.ob('R-C20c', 'stale:%s' % v, not bad, loc=e0['loc'] if e0 else f.loc,
               detail=('`%s` is used after a handler ran without re-testing its liveness marker: %s' % (v, ', '.join(sorted({a for _, a in bad}))))
               if bad else 'no use of `%s` after a handler without reassignment / marker test (markers: %s)' % (v, sorted(markers) or '-'),
               path=path_to(f, e0) if e0 else None, fn=f.q)
    fu = prog.fn('iv_inotify_unregister')
    hdu = holding(fu)
    clr = [e for e in fu.events() if e['ev'] == 'store' and strip(e['lhs']).get('k') == 'deref'
           and last_member(strip(e['lhs'])['e']) == ('iv_inotify', 'term')]
    ctx.ob('R-C20c', 'unregister:clears-through-term', bool(clr) and all(canon(e['rhs']) in ('NULL', '0') for e in clr), loc=clr[0]['loc'] if clr else fu.loc,
           detail='*this->term = NULL', fn=fu.q)
    for e in clr:
        A = hdu.get((e['_b'], e['_i']), frozenset())
        ok = any(a[0] == '!=' and a[2] == '0' and ('iv_inotify', 'term') in a[3] for a in A)
        ctx.ob('R-C20c', 'unregister:term-tested', ok, loc=e['loc'], detail='the store through term is on the term != NULL edge', fn=fu.q)
    # on the term != NULL edge the store is reached on every path
    from ..analyses import must_pass_from_block
    for b, blk in fu.blocks.items():
        if blk.term and blk.term.get('cond') is not None and len(blk.succ) == 2:
            for si in (0, 1):
                for (op, lc, rc, l, r) in norm_cond(blk.term['cond'], si == 0):
                    if op == '!=' and rc == '0' and last_member(l) == ('iv_inotify', 'term'):
                        mp = must_pass_from_block(fu, blk.succ[si], lambda e: e in clr)
                        pts = [(pb, pi) for (pb, pi, _) in exits_of(fu)] + [(fu.exit, 0)]
                        ctx.ob('R-C20c', 'unregister:term-set-implies-clear', all(mp.get(p, True) for p in pts), loc=blk.term.get('loc'),
                               detail='when a walk is in progress (term set) unregister always nulls the walker\'s instance pointer', fn=fu.q)
