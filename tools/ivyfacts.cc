// ivyfacts: libTooling fact extractor for the ivykis static checks.
//
// For one C translation unit, emits one JSON document with
//   functions : every function defined in a repository file (CFG, events)
//   globals   : file-scope variables with initialisers
//   records   : struct/union layouts
// Rules live in Python (/verif/ivycheck); nothing here knows a property.
//
// Build: see /verif/setup.sh.  Run: ivyfacts <file.c> -- <flags>  > out.json

#include "clang/AST/ASTConsumer.h"
#include "clang/AST/ASTContext.h"
#include "clang/AST/Expr.h"
#include "clang/AST/RecordLayout.h"
#include "clang/AST/RecursiveASTVisitor.h"
#include "clang/AST/ParentMap.h"
#include "clang/Analysis/CFG.h"
#include "clang/Frontend/CompilerInstance.h"
#include "clang/Frontend/FrontendAction.h"
#include "clang/Tooling/CommonOptionsParser.h"
#include "clang/Tooling/Tooling.h"
#include "llvm/Support/CommandLine.h"
#include "llvm/Support/JSON.h"
#include "llvm/Support/raw_ostream.h"

#include <map>
#include <set>
#include <string>

using namespace clang;
using namespace clang::tooling;
namespace json = llvm::json;

static llvm::cl::OptionCategory Cat("ivyfacts options");
static llvm::cl::opt<std::string> RepoRoot(
    "root", llvm::cl::desc("only functions defined under this path are emitted"),
    llvm::cl::init("/repo"), llvm::cl::cat(Cat));

namespace {

class Extractor {
public:
  Extractor(ASTContext &Ctx) : Ctx(Ctx), SM(Ctx.getSourceManager()) {}

  ASTContext &Ctx;
  SourceManager &SM;
  std::set<const RecordDecl *> Records;
  // unique spelling of locals within one function: a local re-declared in an inner scope
  // (shadowing) or a second local of the same name in a sibling scope gets `name~2`, `name~3`...
  std::map<const VarDecl *, std::string> LocalNames;

  std::string varName(const ValueDecl *D) {
    if (const auto *VD = dyn_cast<VarDecl>(D)) {
      auto It = LocalNames.find(VD);
      if (It != LocalNames.end())
        return It->second;
    }
    return D->getNameAsString();
  }

  void collectLocals(const Stmt *S, std::vector<const VarDecl *> &Out) {
    if (!S)
      return;
    if (const auto *DS = dyn_cast<DeclStmt>(S))
      for (const Decl *D : DS->decls())
        if (const auto *VD = dyn_cast<VarDecl>(D))
          Out.push_back(VD);
    for (const Stmt *C : S->children())
      collectLocals(C, Out);
  }

  void nameLocals(const FunctionDecl *FD) {
    LocalNames.clear();
    std::vector<const VarDecl *> Ls;
    collectLocals(FD->getBody(), Ls);
    std::map<std::string, int> Count;
    for (const ParmVarDecl *P : FD->parameters())
      Count[P->getNameAsString()] = 1;
    for (const VarDecl *VD : Ls) {
      std::string N = VD->getNameAsString();
      if (N.rfind("__ptr", 0) == 0)
        continue;
      int C = ++Count[N];
      if (C > 1)
        LocalNames[VD] = N + "~" + std::to_string(C);
    }
  }

  std::string locStr(SourceLocation L) {
    if (L.isInvalid())
      return "";
    SourceLocation E = SM.getExpansionLoc(L);
    PresumedLoc P = SM.getPresumedLoc(E);
    if (P.isInvalid())
      return "";
    return std::string(P.getFilename()) + ":" + std::to_string(P.getLine()) +
           ":" + std::to_string(P.getColumn());
  }

  std::string fileOf(SourceLocation L) {
    if (L.isInvalid())
      return "";
    PresumedLoc P = SM.getPresumedLoc(SM.getExpansionLoc(L));
    return P.isInvalid() ? "" : std::string(P.getFilename());
  }

  bool inRepo(SourceLocation L) {
    std::string F = fileOf(L);
    if (F.empty())
      return false;
    if (F[0] != '/')
      return true; // relative path: given on the command line, i.e. repo
    return F.compare(0, RepoRoot.size(), RepoRoot) == 0;
  }

  // Record name of a type or of its pointee (one level), "" otherwise.
  std::string recordOf(QualType T, bool *IsPtr = nullptr) {
    T = T.getCanonicalType();
    if (IsPtr)
      *IsPtr = false;
    if (const auto *PT = T->getAs<PointerType>()) {
      if (IsPtr)
        *IsPtr = true;
      T = PT->getPointeeType().getCanonicalType();
    }
    if (const auto *RT = T->getAs<RecordType>()) {
      noteRecord(RT->getDecl());
      return recName(RT->getDecl());
    }
    return "";
  }

  std::string recName(const RecordDecl *RD) {
    if (RD->getIdentifier())
      return RD->getName().str();
    if (const TypedefNameDecl *TD = RD->getTypedefNameForAnonDecl())
      return TD->getName().str();
    // anonymous: name by location so that it is stable within a run
    return "<anon@" + locStr(RD->getLocation()) + ">";
  }

  void noteRecord(const RecordDecl *RD) {
    RD = RD->getDefinition();
    if (!RD)
      return;
    if (!Records.insert(RD).second)
      return;
    for (const FieldDecl *F : RD->fields())
      (void)recordOf(F->getType());
  }

  std::string typeStr(QualType T) { return T.getAsString(Ctx.getPrintingPolicy()); }

  // ---- container_of recognition --------------------------------------
  // iv_container_of expands to
  //   ({ const typeof(((T*)0)->m) *__ptr = (p);
  //      (T *)((char *)__ptr - (intptr_t)(&((T *)0)->m)); })
  // Recognise "(T*)((char*)X - <offsetof idiom>)" and the StmtExpr around it.
  bool isNullBasedMember(const Expr *E, std::string &Rec, std::string &Mem) {
    E = E->IgnoreParenCasts();
    if (const auto *UO = dyn_cast<UnaryOperator>(E))
      if (UO->getOpcode() == UO_AddrOf)
        E = UO->getSubExpr()->IgnoreParenCasts();
    std::string Path;
    while (true) {
      if (const auto *ME = dyn_cast<MemberExpr>(E)) {
        std::string N = ME->getMemberDecl()->getNameAsString();
        Path = Path.empty() ? N : N + "." + Path;
        const Expr *B = ME->getBase()->IgnoreParenCasts();
        if (ME->isArrow()) {
          Expr::EvalResult R;
          if (B->getType()->isPointerType() &&
              B->isNullPointerConstant(Ctx, Expr::NPC_ValueDependentIsNotNull)) {
            Rec = recordOf(ME->getBase()->getType());
            Mem = Path;
            return true;
          }
          // (T*)0 after IgnoreParenCasts is the literal 0
          if (const auto *IL = dyn_cast<IntegerLiteral>(B))
            if (IL->getValue() == 0) {
              Rec = recordOf(ME->getBase()->getType());
              Mem = Path;
              return true;
            }
          return false;
        }
        E = B;
        continue;
      }
      return false;
    }
  }

  bool matchContainerOf(const Expr *E, const Expr *&Inner, std::string &Rec,
                        std::string &Mem) {
    const Expr *P = E->IgnoreParens();
    if (const auto *SE = dyn_cast<StmtExpr>(P)) {
      const CompoundStmt *CS = SE->getSubStmt();
      if (CS->size() != 2)
        return false;
      auto It = CS->body_begin();
      const auto *DS = dyn_cast<DeclStmt>(*It);
      ++It;
      const auto *Last = dyn_cast<Expr>(*It);
      if (!DS || !Last || !DS->isSingleDecl())
        return false;
      const auto *VD = dyn_cast<VarDecl>(DS->getSingleDecl());
      if (!VD || !VD->hasInit())
        return false;
      const Expr *L = Last->IgnoreParens();
      const auto *CE = dyn_cast<CStyleCastExpr>(L);
      if (!CE)
        return false;
      const auto *BO = dyn_cast<BinaryOperator>(CE->getSubExpr()->IgnoreParens());
      if (!BO || BO->getOpcode() != BO_Sub)
        return false;
      if (!isNullBasedMember(BO->getRHS(), Rec, Mem))
        return false;
      const auto *DR = dyn_cast<DeclRefExpr>(BO->getLHS()->IgnoreParenCasts());
      if (!DR || DR->getDecl() != VD)
        return false;
      Inner = VD->getInit();
      return true;
    }
    return false;
  }

  // ---- expression serialisation --------------------------------------
  json::Value expr(const Expr *E, int Depth = 0) {
    if (!E)
      return nullptr;
    if (Depth > 60)
      return json::Object{{"k", "deep"}};
    const Expr *Orig = E;
    // strip parens and value-preserving implicit casts, remember lvalue loads
    E = E->IgnoreParens();

    // container_of first (it contains a StmtExpr we do not want to descend)
    {
      const Expr *Inner = nullptr;
      std::string Rec, Mem;
      if (matchContainerOf(E, Inner, Rec, Mem)) {
        return json::Object{{"k", "container_of"},
                            {"record", Rec},
                            {"member", Mem},
                            {"e", expr(Inner, Depth + 1)}};
      }
    }

    // null pointer constants
    if (E->getType()->isPointerType() && !isa<DeclRefExpr>(E) &&
        !E->HasSideEffects(Ctx) &&
        E->isNullPointerConstant(Ctx, Expr::NPC_ValueDependentIsNotNull))
      return json::Object{{"k", "null"}};

    // integer constants (macros, sizeof, enum, folded arithmetic)
    if (E->getType()->isIntegralOrEnumerationType() && !E->isLValue() &&
        !E->HasSideEffects(Ctx)) {
      Expr::EvalResult R;
      if (!E->isValueDependent() && E->EvaluateAsInt(R, Ctx)) {
        json::Object O{{"k", "int"}, {"v", R.Val.getInt().getExtValue()}};
        if (isa<UnaryExprOrTypeTraitExpr>(E->IgnoreParenImpCasts()))
          O["sizeof"] = sizeofArg(cast<UnaryExprOrTypeTraitExpr>(E->IgnoreParenImpCasts()));
        return std::move(O);
      }
    }

    if (const auto *ICE = dyn_cast<ImplicitCastExpr>(E)) {
      // keep loads explicit: rules distinguish &x->f from x->f
      if (ICE->getCastKind() == CK_LValueToRValue)
        return json::Object{{"k", "load"}, {"e", expr(ICE->getSubExpr(), Depth + 1)}};
      return expr(ICE->getSubExpr(), Depth + 1);
    }
    if (const auto *CE = dyn_cast<CStyleCastExpr>(E)) {
      json::Object O{{"k", "cast"},
                     {"to", typeStr(CE->getType())},
                     {"e", expr(CE->getSubExpr(), Depth + 1)}};
      bool P;
      std::string R = recordOf(CE->getType(), &P);
      if (!R.empty())
        O["record"] = R;
      return std::move(O);
    }
    if (const auto *DR = dyn_cast<DeclRefExpr>(E)) {
      const ValueDecl *D = DR->getDecl();
      json::Object O{{"k", "var"}, {"name", varName(D)}};
      if (const auto *VD = dyn_cast<VarDecl>(D)) {
        if (isa<ParmVarDecl>(VD))
          O["vk"] = "param";
        else if (VD->isLocalVarDecl() && !VD->isStaticLocal())
          O["vk"] = "local";
        else if (VD->isStaticLocal())
          O["vk"] = "staticlocal";
        else
          O["vk"] = "global";
        O["type"] = typeStr(VD->getType());
        bool P;
        std::string R = recordOf(VD->getType(), &P);
        if (!R.empty()) {
          O["record"] = R;
          O["ptr"] = P;
        }
      } else if (isa<FunctionDecl>(D)) {
        O["vk"] = "func";
      } else if (const auto *EC = dyn_cast<EnumConstantDecl>(D)) {
        O["vk"] = "enum";
        O["v"] = EC->getInitVal().getExtValue();
      } else {
        O["vk"] = "other";
      }
      return std::move(O);
    }
    if (const auto *ME = dyn_cast<MemberExpr>(E)) {
      json::Object O{{"k", "member"},
                     {"field", ME->getMemberDecl()->getNameAsString()},
                     {"arrow", ME->isArrow()},
                     {"base", expr(ME->getBase(), Depth + 1)},
                     {"type", typeStr(ME->getType())}};
      if (const auto *FD = dyn_cast<FieldDecl>(ME->getMemberDecl())) {
        noteRecord(FD->getParent());
        O["record"] = recName(FD->getParent());
      }
      bool P;
      std::string R = recordOf(ME->getType(), &P);
      if (!R.empty()) {
        O["trecord"] = R;
        O["tptr"] = P;
      }
      return std::move(O);
    }
    if (const auto *UO = dyn_cast<UnaryOperator>(E)) {
      std::string Op = UnaryOperator::getOpcodeStr(UO->getOpcode()).str();
      if (UO->getOpcode() == UO_Deref)
        return json::Object{{"k", "deref"}, {"e", expr(UO->getSubExpr(), Depth + 1)},
                            {"type", typeStr(UO->getType())}};
      if (UO->getOpcode() == UO_AddrOf)
        return json::Object{{"k", "addr"}, {"e", expr(UO->getSubExpr(), Depth + 1)}};
      if (UO->isIncrementDecrementOp())
        return json::Object{{"k", "incdec"},
                            {"op", UO->isIncrementOp() ? "++" : "--"},
                            {"prefix", UO->isPrefix()},
                            {"e", expr(UO->getSubExpr(), Depth + 1)}};
      return json::Object{{"k", "un"}, {"op", Op}, {"e", expr(UO->getSubExpr(), Depth + 1)}};
    }
    if (const auto *BO = dyn_cast<BinaryOperator>(E)) {
      std::string Op = BO->getOpcodeStr().str();
      if (BO->isAssignmentOp())
        return json::Object{{"k", "assign"},
                            {"op", Op},
                            {"l", expr(BO->getLHS(), Depth + 1)},
                            {"r", expr(BO->getRHS(), Depth + 1)}};
      return json::Object{{"k", "bin"},
                          {"op", Op},
                          {"l", expr(BO->getLHS(), Depth + 1)},
                          {"r", expr(BO->getRHS(), Depth + 1)}};
    }
    if (const auto *CO = dyn_cast<ConditionalOperator>(E))
      return json::Object{{"k", "cond"},
                          {"c", expr(CO->getCond(), Depth + 1)},
                          {"a", expr(CO->getTrueExpr(), Depth + 1)},
                          {"b", expr(CO->getFalseExpr(), Depth + 1)}};
    if (const auto *BCO = dyn_cast<BinaryConditionalOperator>(E))
      return json::Object{{"k", "cond"},
                          {"gnu", true},
                          {"c", expr(BCO->getCommon(), Depth + 1)},
                          {"a", expr(BCO->getCommon(), Depth + 1)},
                          {"b", expr(BCO->getFalseExpr(), Depth + 1)}};
    if (const auto *OVE = dyn_cast<OpaqueValueExpr>(E))
      return expr(OVE->getSourceExpr(), Depth + 1);
    if (const auto *AS = dyn_cast<ArraySubscriptExpr>(E)) {
      json::Object O{{"k", "index"},
                     {"base", expr(AS->getBase(), Depth + 1)},
                     {"idx", expr(AS->getIdx(), Depth + 1)},
                     {"type", typeStr(AS->getType())}};
      // element count when the base is a fixed-size array
      QualType BT = AS->getBase()->IgnoreParenImpCasts()->getType();
      if (const auto *CAT = Ctx.getAsConstantArrayType(BT))
        O["bound"] = (int64_t)CAT->getSize().getZExtValue();
      return std::move(O);
    }
    if (const auto *CE = dyn_cast<CallExpr>(E)) {
      json::Object O{{"k", "call"}};
      if (const FunctionDecl *FD = CE->getDirectCallee())
        O["callee"] = FD->getNameAsString();
      else
        O["fnexpr"] = expr(CE->getCallee(), Depth + 1);
      json::Array A;
      for (const Expr *Arg : CE->arguments())
        A.push_back(expr(Arg, Depth + 1));
      O["args"] = std::move(A);
      O["type"] = typeStr(CE->getType());
      bool P;
      std::string R = recordOf(CE->getType(), &P);
      if (!R.empty()) {
        O["record"] = R;
        O["ptr"] = P;
      }
      O["loc"] = locStr(CE->getBeginLoc());
      return std::move(O);
    }
    if (const auto *SL = dyn_cast<StringLiteral>(E))
      return json::Object{{"k", "str"}, {"v", SL->getBytes().str()}};
    if (const auto *IL = dyn_cast<InitListExpr>(E)) {
      const InitListExpr *Sem = IL->isSemanticForm() ? IL : IL->getSemanticForm();
      if (!Sem)
        Sem = IL;
      json::Object O{{"k", "init"}};
      json::Array A;
      const RecordDecl *RD = nullptr;
      if (const auto *RT = Sem->getType()->getAs<RecordType>())
        RD = RT->getDecl();
      if (RD && !RD->isUnion()) {
        json::Object Fs;
        unsigned I = 0;
        for (const FieldDecl *F : RD->fields()) {
          if (I < Sem->getNumInits())
            Fs[F->getNameAsString()] = expr(Sem->getInit(I), Depth + 1);
          ++I;
        }
        O["fields"] = std::move(Fs);
        O["record"] = recName(RD);
        noteRecord(RD);
      } else {
        for (unsigned I = 0; I < Sem->getNumInits(); ++I)
          A.push_back(expr(Sem->getInit(I), Depth + 1));
        O["elems"] = std::move(A);
      }
      return std::move(O);
    }
    if (isa<ImplicitValueInitExpr>(E))
      return json::Object{{"k", "int"}, {"v", 0}, {"implicit", true}};
    if (const auto *SE = dyn_cast<StmtExpr>(E)) {
      // value of the last expression statement
      const CompoundStmt *CS = SE->getSubStmt();
      if (!CS->body_empty())
        if (const auto *Last = dyn_cast<Expr>(CS->body_back()))
          return json::Object{{"k", "stmtexpr"}, {"e", expr(Last, Depth + 1)}};
      return json::Object{{"k", "stmtexpr"}};
    }
    if (const auto *CL = dyn_cast<CompoundLiteralExpr>(E))
      return json::Object{{"k", "compound"}, {"e", expr(CL->getInitializer(), Depth + 1)}};
    if (const auto *UE = dyn_cast<UnaryExprOrTypeTraitExpr>(E)) {
      return json::Object{{"k", "sizeof"}, {"arg", sizeofArg(UE)}};
    }
    if (const auto *FL = dyn_cast<FloatingLiteral>(E))
      return json::Object{{"k", "float"}};
    if (const auto *VA = dyn_cast<VAArgExpr>(E))
      return json::Object{{"k", "va_arg"}};
    if (const auto *PE = dyn_cast<PredefinedExpr>(E))
      return json::Object{{"k", "str"}, {"v", "__func__"}};
    (void)Orig;
    return json::Object{{"k", "other"}, {"cls", E->getStmtClassName()}};
  }

  json::Value sizeofArg(const UnaryExprOrTypeTraitExpr *UE) {
    if (UE->isArgumentType())
      return json::Object{{"type", typeStr(UE->getArgumentType())},
                          {"record", recordOf(UE->getArgumentType())}};
    return json::Object{{"expr", expr(UE->getArgumentExpr(), 1)},
                        {"type", typeStr(UE->getArgumentExpr()->getType())}};
  }

  // ---- events ----------------------------------------------------------
  // With setAllAlwaysAdd every sub-expression is a CFG element, in evaluation
  // order.  We emit an event for the ones that have an effect or read memory.
  bool isInsideContainerOfOrSizeof(const Stmt *S, ParentMap &PM) {
    // loads that belong to the offsetof idiom / unevaluated operands are noise
    const Stmt *P = S;
    int Guard = 0;
    while (P && Guard++ < 64) {
      if (const auto *UE = dyn_cast<UnaryExprOrTypeTraitExpr>(P))
        return true;
      P = PM.getParent(P);
    }
    return false;
  }

  void emitEvents(const Stmt *S, ParentMap &PM, json::Array &Out) {
    const Expr *E = dyn_cast<Expr>(S);
    if (const auto *DS = dyn_cast<DeclStmt>(S)) {
      for (const Decl *D : DS->decls())
        if (const auto *VD = dyn_cast<VarDecl>(D)) {
          if (VD->getName().startswith("__ptr") && VD->hasInit()) {
            // container_of temporary: not a user-visible local
            continue;
          }
          json::Object O{{"ev", "decl"},
                         {"name", varName(VD)},
                         {"type", typeStr(VD->getType())},
                         {"loc", locStr(VD->getLocation())}};
          bool P;
          std::string R = recordOf(VD->getType(), &P);
          if (!R.empty()) {
            O["record"] = R;
            O["ptr"] = P;
          }
          if (VD->isStaticLocal())
            O["static"] = true;
          if (VD->hasInit())
            O["init"] = expr(VD->getInit());
          if (const auto *VAT = Ctx.getAsVariableArrayType(VD->getType()))
            O["vla_size"] = expr(VAT->getSizeExpr());
          if (const auto *CAT = Ctx.getAsConstantArrayType(VD->getType()))
            O["bound"] = (int64_t)CAT->getSize().getZExtValue();
          Out.push_back(std::move(O));
        }
      return;
    }
    if (const auto *RS = dyn_cast<ReturnStmt>(S)) {
      json::Object O{{"ev", "ret"}, {"loc", locStr(RS->getBeginLoc())}};
      if (RS->getRetValue())
        O["value"] = expr(RS->getRetValue());
      Out.push_back(std::move(O));
      return;
    }
    if (!E)
      return;
    const Expr *P = E->IgnoreParens();
    if (P != E)
      return; // the inner expression is its own element
    if (const auto *CE = dyn_cast<CallExpr>(E)) {
      json::Object O{{"ev", "call"}, {"loc", locStr(CE->getBeginLoc())}};
      if (const FunctionDecl *FD = CE->getDirectCallee()) {
        O["callee"] = FD->getNameAsString();
        if (FD->isNoReturn())
          O["noreturn"] = true;
      } else {
        O["fnexpr"] = expr(CE->getCallee());
      }
      json::Array A;
      for (const Expr *Arg : CE->arguments())
        A.push_back(expr(Arg));
      O["args"] = std::move(A);
      // is the result used?
      const Stmt *Par = PM.getParentIgnoreParenCasts(const_cast<CallExpr *>(CE));
      bool Used = Par && (isa<Expr>(Par) || isa<ReturnStmt>(Par) || isa<DeclStmt>(Par) ||
                          isa<IfStmt>(Par) || isa<WhileStmt>(Par) || isa<ForStmt>(Par) ||
                          isa<DoStmt>(Par) || isa<SwitchStmt>(Par));
      if (Par && isa<Expr>(Par)) {
        // `(void)f()` or comma LHS do not use the value; cheap approximation
        if (const auto *CS = dyn_cast<CStyleCastExpr>(Par))
          if (CS->getType()->isVoidType())
            Used = false;
      }
      if (Par && (isa<ForStmt>(Par))) {
        const auto *FS = cast<ForStmt>(Par);
        Used = (FS->getCond() && FS->getCond()->IgnoreParenCasts() == CE);
      }
      if (Par && isa<StmtExpr>(Par))
        Used = true;
      if (CE->getType()->isVoidType())
        Used = false;
      O["used"] = Used;
      Out.push_back(std::move(O));
      return;
    }
    if (const auto *BO = dyn_cast<BinaryOperator>(E)) {
      if (BO->isAssignmentOp()) {
        Out.push_back(json::Object{{"ev", "store"},
                                   {"op", BO->getOpcodeStr().str()},
                                   {"lhs", expr(BO->getLHS())},
                                   {"rhs", expr(BO->getRHS())},
                                   {"loc", locStr(BO->getOperatorLoc())}});
      }
      return;
    }
    if (const auto *UO = dyn_cast<UnaryOperator>(E)) {
      if (UO->isIncrementDecrementOp()) {
        Out.push_back(json::Object{{"ev", "store"},
                                   {"op", UO->isIncrementOp() ? "++" : "--"},
                                   {"lhs", expr(UO->getSubExpr())},
                                   {"loc", locStr(UO->getOperatorLoc())}});
      }
      return;
    }
    if (const auto *ICE = dyn_cast<ImplicitCastExpr>(E)) {
      if (ICE->getCastKind() == CK_LValueToRValue) {
        if (isInsideContainerOfOrSizeof(S, PM))
          return;
        const Expr *Sub = ICE->getSubExpr()->IgnoreParens();
        // loads of plain locals/params are not memory events of interest,
        // but rules about stale pointers need "pointer value used": they see
        // them through the enclosing member/deref load.  Emit all loads;
        // Python filters.
        Out.push_back(json::Object{{"ev", "load"},
                                   {"e", expr(Sub)},
                                   {"loc", locStr(ICE->getBeginLoc())}});
      }
      return;
    }
  }

  // ---- CFG -------------------------------------------------------------
  json::Value function(const FunctionDecl *FD) {
    json::Object F{{"name", FD->getNameAsString()},
                   {"loc", locStr(FD->getLocation())},
                   {"file", fileOf(FD->getLocation())},
                   {"static", FD->getStorageClass() == SC_Static},
                   {"inline", FD->isInlineSpecified()},
                   {"noreturn", FD->isNoReturn()},
                   {"ret", typeStr(FD->getReturnType())},
                   {"endloc", locStr(FD->getEndLoc())}};
    if (FD->hasAttr<ConstructorAttr>())
      F["constructor"] = true;
    json::Array Ps;
    for (const ParmVarDecl *P : FD->parameters()) {
      json::Object O{{"name", P->getNameAsString()}, {"type", typeStr(P->getType())}};
      bool IsP;
      std::string R = recordOf(P->getType(), &IsP);
      if (!R.empty()) {
        O["record"] = R;
        O["ptr"] = IsP;
      }
      Ps.push_back(std::move(O));
    }
    F["params"] = std::move(Ps);

    nameLocals(FD);
    CFG::BuildOptions BO;
    BO.setAllAlwaysAdd();
    BO.PruneTriviallyFalseEdges = false; // keep `while (1)` exits etc. uniform
    std::unique_ptr<CFG> G = CFG::buildCFG(FD, FD->getBody(), &Ctx, BO);
    if (!G) {
      F["cfg_error"] = true;
      return std::move(F);
    }
    ParentMap PM(FD->getBody());
    json::Array Blocks;
    for (const CFGBlock *B : *G) {
      json::Object JB{{"id", (int64_t)B->getBlockID()}};
      json::Array Ev;
      for (const CFGElement &El : *B) {
        if (auto CS = El.getAs<CFGStmt>())
          emitEvents(CS->getStmt(), PM, Ev);
      }
      JB["events"] = std::move(Ev);
      json::Array Succ;
      for (auto I = B->succ_begin(); I != B->succ_end(); ++I) {
        const CFGBlock *S = I->getReachableBlock();
        if (!S)
          S = I->getPossiblyUnreachableBlock();
        if (S)
          Succ.push_back((int64_t)S->getBlockID());
        else
          Succ.push_back(nullptr);
      }
      JB["succ"] = std::move(Succ);
      if (const Stmt *T = B->getTerminatorStmt()) {
        json::Object JT{{"cls", T->getStmtClassName()}, {"loc", locStr(T->getBeginLoc())}};
        if (const auto *BOp = dyn_cast<BinaryOperator>(T))
          JT["op"] = BOp->getOpcodeStr().str();
        const Expr *Cond = B->getLastCondition();
        if (!Cond)
          if (const Stmt *TC = B->getTerminatorCondition())
            Cond = dyn_cast<Expr>(TC);
        if (Cond)
          JT["cond"] = expr(Cond);
        if (const auto *SS = dyn_cast<SwitchStmt>(T)) {
          // case labels of the successors, in successor order
          json::Array Labels;
          for (auto I = B->succ_begin(); I != B->succ_end(); ++I) {
            const CFGBlock *S = I->getReachableBlock();
            if (!S)
              S = I->getPossiblyUnreachableBlock();
            if (!S) {
              Labels.push_back(nullptr);
              continue;
            }
            const Stmt *L = S->getLabel();
            if (const auto *CS = dyn_cast_or_null<CaseStmt>(L)) {
              Expr::EvalResult R;
              if (CS->getLHS()->EvaluateAsInt(R, Ctx))
                Labels.push_back(R.Val.getInt().getExtValue());
              else
                Labels.push_back("?");
            } else if (dyn_cast_or_null<DefaultStmt>(L)) {
              Labels.push_back("default");
            } else {
              Labels.push_back("default"); // implicit default: falls out of the switch
            }
          }
          JT["cases"] = std::move(Labels);
          (void)SS;
        }
        JB["term"] = std::move(JT);
      }
      if (B->hasNoReturnElement())
        JB["noreturn"] = true;
      if (const Stmt *LS = B->getLoopTarget())
        JB["looptarget"] = locStr(LS->getBeginLoc());
      Blocks.push_back(std::move(JB));
    }
    F["blocks"] = std::move(Blocks);
    F["entry"] = (int64_t)G->getEntry().getBlockID();
    F["exit"] = (int64_t)G->getExit().getBlockID();
    return std::move(F);
  }

  json::Value global(const VarDecl *VD) {
    json::Object O{{"name", VD->getNameAsString()},
                   {"type", typeStr(VD->getType())},
                   {"static", VD->getStorageClass() == SC_Static},
                   {"extern_decl", !VD->isThisDeclarationADefinition()},
                   {"loc", locStr(VD->getLocation())},
                   {"file", fileOf(VD->getLocation())}};
    bool P;
    std::string R = recordOf(VD->getType(), &P);
    if (!R.empty()) {
      O["record"] = R;
      O["ptr"] = P;
    }
    if (const auto *CAT = Ctx.getAsConstantArrayType(VD->getType()))
      O["bound"] = (int64_t)CAT->getSize().getZExtValue();
    if (VD->hasInit())
      O["init"] = expr(VD->getInit());
    if (VD->getTLSKind() != VarDecl::TLS_None)
      O["tls"] = true;
    return std::move(O);
  }

  json::Value record(const RecordDecl *RD) {
    json::Object O{{"name", recName(RD)},
                   {"union", RD->isUnion()},
                   {"loc", locStr(RD->getLocation())}};
    if (RD->isInvalidDecl() || !RD->isCompleteDefinition())
      return std::move(O);
    const ASTRecordLayout &L = Ctx.getASTRecordLayout(RD);
    O["size"] = (int64_t)L.getSize().getQuantity();
    json::Array Fs;
    unsigned I = 0;
    for (const FieldDecl *F : RD->fields()) {
      json::Object JF{{"name", F->getNameAsString()},
                      {"type", typeStr(F->getType())},
                      {"offset", (int64_t)(L.getFieldOffset(I) / 8)}};
      bool P;
      std::string R = recordOf(F->getType(), &P);
      if (!R.empty()) {
        JF["record"] = R;
        JF["ptr"] = P;
      }
      if (F->getType()->isFunctionPointerType())
        JF["fnptr"] = true;
      if (const auto *CAT = Ctx.getAsConstantArrayType(F->getType()))
        JF["bound"] = (int64_t)CAT->getSize().getZExtValue();
      if (!F->getType()->isIncompleteType())
        JF["size"] = (int64_t)Ctx.getTypeSizeInChars(F->getType()).getQuantity();
      Fs.push_back(std::move(JF));
      ++I;
    }
    O["fields"] = std::move(Fs);
    return std::move(O);
  }
};

class Consumer : public ASTConsumer {
public:
  void HandleTranslationUnit(ASTContext &Ctx) override {
    Extractor X(Ctx);
    json::Array Fns, Globals, Recs;
    const TranslationUnitDecl *TU = Ctx.getTranslationUnitDecl();
    for (const Decl *D : TU->decls()) {
      if (const auto *FD = dyn_cast<FunctionDecl>(D)) {
        if (FD->doesThisDeclarationHaveABody() && X.inRepo(FD->getLocation()))
          Fns.push_back(X.function(FD));
      } else if (const auto *VD = dyn_cast<VarDecl>(D)) {
        if (X.inRepo(VD->getLocation()))
          Globals.push_back(X.global(VD));
      } else if (const auto *RD = dyn_cast<RecordDecl>(D)) {
        if (X.inRepo(RD->getLocation()))
          X.noteRecord(RD);
      }
    }
    // records referenced anywhere (transitively noted while serialising)
    std::set<std::string> Seen;
    // noteRecord may add while we iterate: loop to fixpoint over a copy
    size_t Prev = 0;
    std::vector<const RecordDecl *> Order;
    while (Prev != X.Records.size()) {
      Prev = X.Records.size();
      std::vector<const RecordDecl *> Copy(X.Records.begin(), X.Records.end());
      for (const RecordDecl *RD : Copy)
        for (const FieldDecl *F : RD->fields())
          (void)X.recordOf(F->getType());
    }
    for (const RecordDecl *RD : X.Records) {
      std::string N = X.recName(RD);
      if (!Seen.insert(N).second)
        continue;
      Recs.push_back(X.record(RD));
    }
    json::Object Root{{"functions", std::move(Fns)},
                      {"globals", std::move(Globals)},
                      {"records", std::move(Recs)}};
    llvm::outs() << json::Value(std::move(Root)) << "\n";
  }
};

class Action : public ASTFrontendAction {
public:
  std::unique_ptr<ASTConsumer> CreateASTConsumer(CompilerInstance &CI,
                                                 StringRef) override {
    return std::make_unique<Consumer>();
  }
};

} // namespace

int main(int argc, const char **argv) {
  auto Opts = CommonOptionsParser::create(argc, argv, Cat);
  if (!Opts) {
    llvm::errs() << llvm::toString(Opts.takeError()) << "\n";
    return 2;
  }
  ClangTool Tool(Opts->getCompilations(), Opts->getSourcePathList());
  int R = Tool.run(newFrontendActionFactory<Action>().get());
  return R ? 2 : 0;
}
