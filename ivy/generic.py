"""Generic, repository-wide rules that several properties instantiate:
NULL-CONTRADICTION, INIT-COMPLETE."""
from .core import (AnalysisBroken, Inliner, canon, strip, strip_load, walk, norm_cond, forward,
                   last_member, evloc, relpath, root_var, PRIMITIVES)
from .analyses import delta_analysis, is_fail, is_call, path_to, describe

# --------------------------------------------------------------------------
# NULL-CONTRADICTION
# --------------------------------------------------------------------------


def _top_deref(x):
    """Variable dereferenced by evaluating the access path x itself (not by
    evaluating loads nested in it, which are events of their own)."""
    x = strip(x) if isinstance(x, dict) and x.get('k') in ('cast', 'stmtexpr') else x
    while isinstance(x, dict):
        k = x.get('k')
        if k == 'member':
            if x['arrow']:
                b = strip(x['base'])
                return b if isinstance(b, dict) and b.get('k') == 'var' else None
            x = x['base']
        elif k == 'deref':
            b = strip(x['e'])
            return b if isinstance(b, dict) and b.get('k') == 'var' else None
        elif k == 'index':
            b = strip(x['base'])
            if isinstance(b, dict) and b.get('k') == 'var' and 'bound' not in x:
                return b
            x = x['base']
        elif k in ('cast', 'addr'):
            x = x['e']
        else:
            return None
    return None


def _derefs_of(e, names):
    """Dereferences of a variable in `names` performed by event e itself:
    the path of a load, the lvalue of a store, `&v->f` handed to a callee."""
    out = []
    cands = []
    if e['ev'] == 'load':
        cands.append(e['e'])
    elif e['ev'] == 'store':
        cands.append(e['lhs'])
    elif e['ev'] in ('call', 'enter'):
        for a in e.get('args', []):
            a2 = strip(a)
            if isinstance(a2, dict) and a2.get('k') == 'addr':
                cands.append(a2['e'])
    for x in cands:
        v = _top_deref(x)
        if v is not None and v['name'] in names:
            out.append((v['name'], canon(x)))
    return out


def null_contradiction(fn):
    """Reports [(event, var, access)] where a pointer variable that the function
    itself compared with NULL is dereferenced on a path on which the NULL edge
    was taken and the variable not reassigned since."""
    # candidate variables: locals/params compared against NULL somewhere
    cands = set()
    for b in fn.blocks.values():
        c = b.term.get('cond') if b.term else None
        if c is None:
            continue
        for pol in (True, False):
            for (op, lc, rc, l, r) in norm_cond(c, pol):
                lv = strip(l)
                if op in ('==', '!=') and rc == '0' and isinstance(lv, dict) and lv.get('k') == 'var' \
                        and lv.get('vk') in ('local', 'param') and '*' in lv.get('type', ''):
                    cands.add(lv['name'])
    if not cands:
        return [], 0

    def transfer(e, S):
        if not S:
            return S
        if e['ev'] == 'store':
            l = strip(e['lhs'])
            if l.get('k') == 'var' and l['name'] in S:
                return S - {l['name']}
        elif e['ev'] == 'decl' and e['name'] in S:
            return S - {e['name']}
        elif e['ev'] == 'call':
            # address of the variable escapes: it may be reassigned
            ks = set()
            for a in e.get('args', []):
                a = strip(a)
                if isinstance(a, dict) and a.get('k') == 'addr':
                    v = strip(a['e'])
                    if v.get('k') == 'var' and v['name'] in S:
                        ks.add(v['name'])
            if ks:
                return S - ks
        return S

    def edge(blk, si, S):
        if not blk.term or len(blk.succ) != 2 or blk.term.get('cond') is None:
            return S
        if blk.term.get('cls') in ('SwitchStmt', 'MethodDispatch'):
            return S
        for (op, lc, rc, l, r) in norm_cond(blk.term['cond'], si == 0):
            lv = strip(l)
            if rc == '0' and isinstance(lv, dict) and lv.get('k') == 'var' and lv['name'] in cands:
                if op == '==':
                    S = S | {lv['name']}
                elif op == '!=':
                    S = S - {lv['name']}
        return S

    _, ev_in = forward(fn, frozenset(), transfer, lambda a, b: a | b, edge=edge)
    reports = []
    for b, blk in fn.blocks.items():
        for i, e in enumerate(blk.events):
            S = ev_in.get((b, i))
            if not S:
                continue
            for (v, acc) in _derefs_of(e, S):
                reports.append((e, v, acc))
    # de-duplicate: one report per (var, access, loc)
    seen = set()
    out = []
    for (e, v, acc) in reports:
        k = (v, acc, e.get('loc'))
        if k not in seen:
            seen.add(k)
            out.append((e, v, acc))
    return out, len(cands)


# --------------------------------------------------------------------------
# INIT-COMPLETE
# --------------------------------------------------------------------------

# calls that (un)initialise the object whose address they are handed
WRITE_VIA_ADDR = {'INIT_IV_LIST_HEAD': [0], 'iv_list_add': [0], 'iv_list_add_tail': [0],
                  'iv_avl_tree_insert': [1], '___mutex_init': [0], 'spin_init': [0],
                  '__iv_list_steal_elements': [1], 'memset': [0], 'memcpy': [0],
                  'pthr_create': [0], 'sigfillset': [0], 'sigemptyset': [0]}
READ_VIA_ADDR = {'iv_list_del': [0], 'iv_list_del_init': [0], 'iv_list_empty': [0],
                 'iv_avl_tree_delete': [1], '___mutex_lock': [0], '___mutex_unlock': [0],
                 '___mutex_destroy': [0], 'iv_list_splice': [0, 1], 'iv_list_splice_tail': [0, 1],
                 '__iv_list_steal_elements': [0], 'pthr_join': [0]}


def _obj_field(x, record):
    """If x is an access path v->a.b.c... where v is a variable whose pointee
    record is `record`, returns (v name, 'a.b.c' path inside the object, top field)."""
    x = strip(x)
    chain = []
    while isinstance(x, dict) and x.get('k') in ('member', 'index'):
        if x.get('k') == 'index':
            if 'bound' not in x:
                chain = []          # element of a pointed-to array: a different object
            x = strip_load(x['base'])
            continue
        chain.append(x)
        if x['arrow']:
            break
        x = strip(x['base'])
    if not chain:
        return None
    top = chain[-1]
    if not top['arrow'] or top.get('record') != record:
        return None
    b = strip(top['base'])
    path = '.'.join(c['field'] for c in reversed(chain))
    if isinstance(b, dict) and b.get('k') == 'var':
        return (b['name'], path, top['field'])
    return ('<%s>' % canon(b), path, top['field'])


def _covers(written, v, path):
    """Is a read of v->path covered by the written set {(v, path)}: the path
    itself, a prefix of it, or (whole-object read) some sub-path of it."""
    parts = path.split('.')
    for i in range(1, len(parts) + 1):
        if (v, '.'.join(parts[:i])) in written:
            return True
    pre = path + '.'
    return any(w[0] == v and w[1].startswith(pre) for w in written)


def field_accesses(e, record):
    """[(kind 'r'|'w'|'addr', var, path)] accesses of fields of `record`
    objects made by one event."""
    out = []
    ev = e['ev']
    if ev == 'store':
        of = _obj_field(e['lhs'], record)
        if of:
            if e['op'] != '=':
                out.append(('r', of[0], of[1]))
            out.append(('w', of[0], of[1]))
    elif ev == 'load':
        of = _obj_field(e['e'], record)
        if of:
            out.append(('r', of[0], of[1]))
    elif ev in ('call',):
        nm = e.get('callee')
        for i, a in enumerate(e.get('args', [])):
            a = strip(a)
            if isinstance(a, dict) and a.get('k') == 'addr':
                of = _obj_field(a['e'], record)
                if not of:
                    continue
                if nm in WRITE_VIA_ADDR and i in WRITE_VIA_ADDR[nm]:
                    out.append(('w', of[0], of[1]))
                elif nm in READ_VIA_ADDR and i in READ_VIA_ADDR[nm]:
                    out.append(('r', of[0], of[1]))
                elif nm is not None and nm.startswith('IV_') and nm.endswith('_INIT'):
                    out.append(('w', of[0], of[1]))
                else:
                    out.append(('addr', of[0], of[1]))
    return out


def must_written(fn, record, success_only=True):
    """Fields of `record` objects (keyed var->field) written on every path to
    every success return of (inlined) fn."""
    def tr(e, S):
        for (k, v, f) in field_accesses(e, record):
            if k == 'w':
                S = S | {('*', f)}
        return S
    _, ev_in = forward(fn, frozenset(), tr, lambda a, b: a & b)
    # classify returns
    res = delta_analysis(fn, [])
    fail_only = {}
    for (e, d, rc, p) in res.rets:
        if e is None:
            continue
        fail_only.setdefault(id(e), []).append(is_fail(rc))
    result = None
    nret = 0
    for b, blk in fn.blocks.items():
        for i, e in enumerate(blk.events):
            if e['ev'] == 'ret' and not e.get('chain'):
                cls = fail_only.get(id(e))
                if cls is None:
                    continue  # unreachable
                if success_only and all(cls):
                    continue
                nret += 1
                S = ev_in.get((b, i), frozenset())
                result = S if result is None else (result & S)
    if fn.ret == 'void' or result is None:
        S = ev_in.get((fn.exit, 0))
        if S is not None:
            nret += 1
            result = S if result is None else (result & S)
    return (result or frozenset()), nret


def read_before_write(fn, record):
    """{field: [event]} loads of record fields in fn not preceded, on some path
    from fn's entry, by a full write of that field of the same variable."""
    def tr(e, S):
        for (k, v, f) in field_accesses(e, record):
            if k == 'w':
                S = S | {(v, f)}
        if e['ev'] == 'store':
            l = strip(e['lhs'])
            if l.get('k') == 'var':
                S = frozenset(x for x in S if x[0] != l['name'])
        return S
    _, ev_in = forward(fn, frozenset(), tr, lambda a, b: a & b)
    out = {}
    for b, blk in fn.blocks.items():
        for i, e in enumerate(blk.events):
            S = ev_in.get((b, i))
            if S is None:
                continue
            for (k, v, f) in field_accesses(e, record):
                if k == 'r' and not _covers(S, v, f):
                    out.setdefault(f, []).append(e)
    return out


# Library object kinds: record, user-initialised fields (documented as set by
# the caller before registration), register functions, mandatory INIT function.
OBJECT_KINDS = [
    dict(rec='iv_fd_', user=['fd', 'cookie', 'handler_in', 'handler_out', 'handler_err'],
         reg=['iv_fd_register', 'iv_fd_register_try'], init='IV_FD_INIT', per_method=True),
    dict(rec='iv_task_', user=['cookie', 'handler'], reg=['iv_task_register'], init='IV_TASK_INIT'),
    dict(rec='iv_timer_', user=['expires', 'cookie', 'handler'], reg=['iv_timer_register'], init='IV_TIMER_INIT',
         guarded={'list_expired': 'read only on the index == 0 arm of unregister / in the runner, i.e. after the runner '
                                  'linked it on the path that stored index = 0'}),
    dict(rec='iv_event', user=['cookie', 'handler'], reg=['iv_event_register'], init='IV_EVENT_INIT'),
    dict(rec='iv_event_raw', user=['cookie', 'handler'], reg=['iv_event_raw_register'], init='IV_EVENT_RAW_INIT'),
    dict(rec='iv_signal', user=['signum', 'flags', 'cookie', 'handler'], reg=['iv_signal_register'], init='IV_SIGNAL_INIT'),
    dict(rec='iv_wait_interest', user=['pid', 'cookie', 'handler'],
         reg=['iv_wait_interest_register', 'iv_wait_interest_register_spawn'], init='IV_WAIT_INTEREST_INIT'),
    dict(rec='iv_inotify', user=[], reg=['iv_inotify_register'], init='IV_INOTIFY_INIT', optional=True),
    dict(rec='iv_inotify_watch', user=['inotify', 'pathname', 'mask', 'cookie', 'handler'],
         reg=['iv_inotify_watch_register'], init='IV_INOTIFY_WATCH_INIT', optional=True),
    dict(rec='iv_work_pool', user=['max_threads', 'cookie', 'thread_start', 'thread_stop'],
         reg=['iv_work_pool_create'], init='IV_WORK_POOL_INIT'),
    dict(rec='iv_work_item', user=['cookie', 'work', 'completion'],
         reg=['iv_work_pool_submit_work', 'iv_work_pool_submit_continuation'], init='IV_WORK_ITEM_INIT'),
    dict(rec='iv_popen_request', user=['file', 'argv', 'type'], reg=['iv_popen_request_submit'], init='IV_POPEN_REQUEST_INIT'),
    dict(rec='iv_fd_pump', user=['from_fd', 'to_fd', 'cookie', 'set_bands', 'flags'], reg=['iv_fd_pump_init'], init='IV_FD_PUMP_INIT'),
    dict(rec='iv_tls_user', user=['sizeof_state', 'init_thread', 'deinit_thread'], reg=['iv_tls_user_register'], init=None),
]
KIND_RECORDS = {k['rec'] for k in OBJECT_KINDS} | {'iv_fd', 'iv_task', 'iv_timer'}


def _method_private(prog):
    """{function q: set of tables whose slots (transitively, by direct calls) reach it};
    functions absent from the map are common code."""
    tables = prog.method_tables()
    reach = {}
    for t, slots in tables.items():
        work = []
        for slot, v in slots.items():
            if v and v[0] != 'str':
                f = prog.resolve(v[0], v[1])
                if f is not None:
                    work.append(f)
        seen = set()
        while work:
            f = work.pop()
            if f.q in seen:
                continue
            seen.add(f.q)
            if not (f.file.endswith('iv_fd_epoll.c') or f.file.endswith('iv_fd_poll.c')
                    or f.file.endswith('iv_fd_kqueue.c') or f.file.endswith('iv_fd_port.c')
                    or f.file.endswith('iv_fd_dev_poll.c')):
                continue
            reach.setdefault(f.q, set()).add(t)
            unit = prog.unit_of(f)
            for e in f.events():
                if e['ev'] == 'call' and 'callee' in e:
                    g = prog.resolve(unit, e['callee']) if unit else None
                    if g is not None:
                        work.append(g)
    return reach


def init_complete(ctx, rid, kinds=None, files=None):
    """INIT-COMPLETE: every private field of an object kind that some library
    function may read before writing it is must-written on every success path
    of the kind's register function(s) or of its INIT function."""
    prog = ctx.prog
    mpriv = _method_private(prog)
    tables = sorted(prog.method_tables())
    n = 0
    for K in OBJECT_KINDS:
        if kinds is not None and K['rec'] not in kinds:
            continue
        rec = K['rec']
        if rec not in prog.records or 'fields' not in prog.records[rec]:
            if K.get('optional'):
                continue
            raise AnalysisBroken('record %s not found' % rec)
        regs = [r for r in K['reg'] if prog.has_fn(r)]
        if not regs:
            if K.get('optional'):
                continue
            raise AnalysisBroken('register function of %s not found' % rec)
        fields = {f['name']: f for f in prog.records[rec]['fields']}
        private = [f for f in fields if f not in K['user'] and fields[f].get('record') not in KIND_RECORDS]
        variants = tables if K.get('per_method') else [None]
        for table in variants:
            inl = Inliner(prog, method_table=table, expand_methods=table is not None)
            mw_init = frozenset()
            if K['init'] and prog.has_fn(K['init']):
                mw_init, _ = must_written(inl.inline(prog.fn(K['init'])), rec, success_only=False)
            mw_reg = None
            rbw_reg = {}
            for r in regs:
                g = inl.inline(prog.fn(r))
                w, nret = must_written(g, rec)
                if nret == 0:
                    raise AnalysisBroken('%s has no success return' % r)
                mw_reg = w if mw_reg is None else (mw_reg & w)
                for fld, evs in read_before_write(g, rec).items():
                    rbw_reg.setdefault(fld, []).extend((r, e) for e in evs)
            # reads anywhere else
            rbw = {}
            skip = set(regs) | ({K['init']} if K['init'] else set())
            for f in prog.all_funcs():
                if f.name in skip:
                    continue
                if table is not None and f.q in mpriv and table not in mpriv[f.q]:
                    continue
                # helpers that are only ever entered from the register functions are
                # covered by the inlined register analysis
                for fld, evs in read_before_write(f, rec).items():
                    rbw.setdefault(fld, []).extend((f.q, e) for e in evs)
            allpaths = sorted(set(rbw) | set(rbw_reg))
            for fld in allpaths:
                topf = fld.split('.')[0]
                if topf not in private:
                    continue
                readers = rbw.get(fld, [])
                rreaders = rbw_reg.get(fld, [])
                ok = True
                why = ''
                if rreaders and not _covers(mw_init, '*', fld):
                    # read inside register itself before register wrote it
                    ok = False
                    why = 'read by %s before any write; %s does not initialise it' % (rreaders[0][0], K['init'] or 'no INIT function')
                if readers and not _covers(mw_init | mw_reg, '*', fld):
                    # helper functions reached only from register after the write are not readers
                    real = [(q, e) for (q, e) in readers if not _only_called_after_write(prog, q, regs, rec, fld)]
                    if real:
                        ok = False
                        why = 'read by %s (%s) but not written on every success path of %s nor by %s' % (
                            real[0][0], relpath(real[0][1]['loc']), '/'.join(regs), K['init'] or 'an INIT function')
                        readers = real
                inst = '%s.%s%s' % (rec, fld, (' [%s]' % table.replace('iv_fd_poll_method_', '')) if table else '')
                if not ok and topf in K.get('guarded', {}):
                    ctx.exempt(rid, inst, K['guarded'][topf])
                    ok = True
                    why = 'guarded: ' + K['guarded'][topf]
                loc = (readers or rreaders)[0][1]['loc']
                ctx.ob(rid, inst, ok, loc=loc,
                       detail=why or 'written by %s before any library read' % ('INIT' if _covers(mw_init, '*', fld) else 'registration'),
                       fn=(readers or rreaders)[0][0])
                n += 1
    return n


def _only_called_after_write(prog, q, regs, rec, fld):
    """True when function q is a static helper whose callers are all register
    functions of the kind (its reads are then seen by the inlined analysis)."""
    f = prog.funcs.get(q)
    if f is None or not f.static:
        return False
    cs = prog.callers_of(f.name)
    cs = [c for c, e in cs if prog.resolve(prog.unit_of(c), f.name) is f] if cs else []
    return bool(cs) and all(c.name in regs for c in cs)
