"""Helpers of the C02 rules (hardening round).

Two small evaluators that make the C02 obligations independent of how the
source is cut into helpers, which locals cache which fields and how the
branches are written:

  * AbsInt  -- disjunctive forward analysis over a finite domain.  A state maps
    keys (locals, fields of local structs, a few *typed* memory fields chosen by
    the rule) to integers / 'nz'.  Branches the state decides are followed on one
    side only, undecided ones on both (with refinement of the tested key).  The
    rule reads the states that reach a *site* (a call of epoll_ctl, a store to
    pollfd.events, an indirect call through the method table, ...).
  * Sym     -- path-wise symbolic evaluation of a loop-free root with terms over
    the entry memory (`ld(addr)`), used for the swap-remove of the poll array
    where the obligation relates two array slots and two descriptors.

plus role helpers (nearest roots of a site, local access paths).
"""
from ..core import (AnalysisBroken, PRIMITIVES, canon, strip, walk, lvalue_root, norm_cond, forward)
from ..analyses import callback_kind, liveness
from .. import roles

NZ = 'nz'


# --------------------------------------------------------------------------
# roles
# --------------------------------------------------------------------------

def nearest_roots(prog, pred):
    """Roots (exported functions, installed handlers, method slots) closest to the functions whose own
    body contains an event satisfying pred: static helpers are climbed through, roots are not."""
    owners = roles.functions_with(prog, pred)
    rts = {r.q for r in roles.roots(prog)}
    out, seen, work = {}, set(), list(owners)
    while work:
        f = work.pop()
        if f.q in seen:
            continue
        seen.add(f.q)
        if f.q in rts:
            out[f.q] = f
            continue
        for (c, e) in prog.callers_of(f.name):
            u = prog.unit_of(c)
            t = prog.resolve(u, e['callee']) if u else prog.funcs.get(e['callee'])
            if t is not None and t.q != f.q:
                continue
            work.append(c)
    return [out[q] for q in sorted(out)]


def inlined(prog, f, **kw):
    """Inliner(prog, **kw).inline(f), cached *on the program object* (roles.inlined caches by id(prog), which a
    later program loaded in the same process can reuse)."""
    cache = prog.__dict__.setdefault('_h02_inlined', {})
    key = (f.q, tuple(sorted(kw.items())))
    if key not in cache:
        from ..core import Inliner
        cache[key] = Inliner(prog, **kw).inline(f)
    return cache[key]


def local_path(e):
    """(local variable, ((record, field), ...)) for `v.a.b` (dot steps only), else None."""
    steps = []
    x = e
    while isinstance(x, dict) and x.get('k') in ('cast', 'load', 'stmtexpr') and 'e' in x:
        x = x['e']
    while isinstance(x, dict) and x.get('k') == 'member' and not x.get('arrow'):
        steps.append((x.get('record'), x['field']))
        x = x['base']
        while isinstance(x, dict) and x.get('k') == 'cast':
            x = x['e']
    if steps and isinstance(x, dict) and x.get('k') == 'var' and x.get('vk') in ('local', 'param'):
        return (x['name'], tuple(reversed(steps)))
    return None


def local_vars_in(x):
    return {y['name'] for y in walk(x) if y.get('k') == 'var' and y.get('vk') in ('local', 'param')}


def obj_pointer_names(lhs):
    """Spellings of the pointer to the object a member lvalue `p->f` / `o.f` lives in (for comparing with
    a call argument): canon(p) resp. '&' + canon(o), plus the cached-local spellings."""
    m = strip(lhs)
    if not (isinstance(m, dict) and m.get('k') == 'member'):
        return set()
    from ..core import names_of
    if m.get('arrow'):
        return set(names_of(m['base'])) | {canon(m['base'])}
    return {'&' + canon(m['base'])}


# --------------------------------------------------------------------------
# finite-domain disjunctive abstract interpretation
# --------------------------------------------------------------------------

def _truth(v):
    if v is None:
        return None
    if v == NZ:
        return True
    return bool(v)


_ARITH = {'+': lambda a, b: a + b, '-': lambda a, b: a - b, '*': lambda a, b: a * b,
          '&': lambda a, b: a & b, '|': lambda a, b: a | b, '^': lambda a, b: a ^ b,
          '<<': lambda a, b: a << b if 0 <= b < 64 else None, '>>': lambda a, b: a >> b if 0 <= b < 64 else None,
          '/': lambda a, b: (abs(a) // abs(b)) * (1 if (a < 0) == (b < 0) else -1) if b else None,
          '%': lambda a, b: a - b * ((abs(a) // abs(b)) * (1 if (a < 0) == (b < 0) else -1)) if b else None}
_CMP = {'==': lambda a, b: a == b, '!=': lambda a, b: a != b, '<': lambda a, b: a < b, '>': lambda a, b: a > b,
        '<=': lambda a, b: a <= b, '>=': lambda a, b: a >= b}


def binop(op, a, b):
    """value of `a op b` over ints / NZ / None."""
    if isinstance(a, int) and isinstance(b, int):
        if op in _ARITH:
            v = _ARITH[op](a, b)
            return v if v is None or abs(v) < (1 << 40) else None
        if op in _CMP:
            return int(_CMP[op](a, b))
        return None
    if op == '&' and ((isinstance(a, int) and a == 0) or (isinstance(b, int) and b == 0)):
        return 0
    if op == '*' and ((isinstance(a, int) and a == 0) or (isinstance(b, int) and b == 0)):
        return 0
    if op in ('==', '!=') and ((a == NZ and isinstance(b, int) and b == 0) or (b == NZ and isinstance(a, int) and a == 0)):
        return int(op == '!=')
    if op == '|' and (a == NZ or b == NZ) and (a is not None and b is not None):
        return NZ
    return None


class AbsInt:
    """keys: ('v', local) | ('l', local, ((rec, field), ...)) | whatever mem_key() returns for a member node
       (convention ('m', record, field)) | ('x', name) pseudo keys owned by the rule's hooks.

       mem_key(member node) -> key or None       typed memory fields the rule tracks (one abstract object per key)
       fork(key)            -> tuple of values    finite domain of a tracked key (unknown store -> one state per value)
       norm(key, v, event)  -> v                  value normalisation on store (e.g. pointer -> 0/1)
       pinned               -> keys never written or forgotten (parameters of the abstract run)
       on_event(e, s, ai)   -> dict or None       rule hook, runs before the built-in transfer
       on_edge(blk, si, s, ai) -> dict or None    rule hook on a feasible conditional edge
       quiet_calls          -> callees that do not write through their pointer arguments"""

    def __init__(self, fn, mem_key=None, fork=None, norm=None, pinned=(), on_event=None, on_edge=None,
                 quiet_calls=(), prog=None, max_states=6000, on_nested_init=None):
        self.fn = fn
        self.mem_key = mem_key
        self.fork = fork or (lambda k: None)
        self.norm = norm
        self.pinned = set(pinned)
        self.on_event = on_event
        self.on_edge = on_edge
        self.quiet = set(quiet_calls)
        self.prog = prog
        self.max_states = max_states
        self.on_nested_init = on_nested_init
        names = set()
        for e in fn.events():
            if e['ev'] == 'decl':
                names.add(e['name'])
            elif e['ev'] == 'store':
                l = strip(e['lhs'])
                if isinstance(l, dict) and l.get('k') == 'var':
                    names.add(l['name'])
                else:
                    r = lvalue_root(e['lhs'])
                    if r is not None:
                        names.add(r['name'])
        self.live = liveness(fn, names) if names else {}
        self.tracked_locals = names

    # -- expressions ---------------------------------------------------------
    def key_of(self, e):
        x = e
        while isinstance(x, dict) and x.get('k') in ('load', 'cast', 'stmtexpr') and 'e' in x:
            x = x['e']
        if not isinstance(x, dict):
            return None
        k = x.get('k')
        if k == 'var' and x.get('vk') in ('local', 'param'):
            return ('v', x['name'])
        if k == 'member':
            if self.mem_key:
                mk = self.mem_key(x)
                if mk is not None:
                    return mk
            lp = local_path(x)
            if lp:
                return ('l',) + lp
        return None

    def ev(self, e, s):
        if not isinstance(e, dict):
            return None
        k = e.get('k')
        if k == 'int':
            return e['v']
        if k == 'null':
            return 0
        if k in ('load', 'cast', 'stmtexpr', 'compound'):
            return self.ev(e.get('e'), s)
        if k == 'var':
            vk = e.get('vk')
            if vk == 'func':
                return NZ
            if vk == 'enum':
                return e.get('v')
            if vk in ('local', 'param'):
                return s.get(('v', e['name']))
            return None
        if k in ('str', 'addr'):
            return NZ
        if k == 'member':
            key = self.key_of(e)
            return s.get(key) if key is not None else None
        if k == 'un':
            v = self.ev(e['e'], s)
            if e['op'] == '!':
                t = _truth(v)
                return None if t is None else int(not t)
            if isinstance(v, int):
                if e['op'] == '-':
                    return -v
                if e['op'] == '~':
                    return ~v
                if e['op'] == '+':
                    return v
            return None
        if k == 'bin':
            op = e['op']
            if op in ('&&', '||'):
                a = _truth(self.ev(e['l'], s))
                if op == '&&' and a is False:
                    return 0
                if op == '||' and a is True:
                    return 1
                b = _truth(self.ev(e['r'], s))
                if op == '&&':
                    if b is False:
                        return 0
                    return 1 if (a and b) else None
                if b is True:
                    return 1
                return 0 if (a is False and b is False) else None
            return binop(op, self.ev(e['l'], s), self.ev(e['r'], s))
        if k == 'cond':
            c = _truth(self.ev(e['c'], s))
            if c is True:
                return self.ev(e['c'], s) if e.get('gnu') else self.ev(e['a'], s)
            if c is False:
                return self.ev(e['b'], s)
            a, b = self.ev(e['a'], s), self.ev(e['b'], s)
            return a if (a is not None and a == b) else None
        return None

    # -- transfer ------------------------------------------------------------
    def _kill_local(self, s, name):
        for key in [k for k in s if (k[0] == 'v' and k[1] == name) or (k[0] == 'l' and k[1] == name)]:
            if key not in self.pinned:
                del s[key]

    def _set(self, s, key, v, e=None):
        """-> list of states"""
        if key in self.pinned:
            return [s]
        if self.norm:
            v = self.norm(key, v, e)
        if v is None:
            dom = self.fork(key)
            if dom:
                # the unknown value of a plain local (a handler parameter) is decided together with the field
                src = strip(e.get('rhs')) if (e is not None and e.get('op') == '=' and 'rhs' in e) else None
                bind = src['name'] if (isinstance(src, dict) and src.get('k') == 'var' and src.get('vk') in ('local', 'param')
                                       and tuple(dom) == (0, 1) and self.norm is not None) else None
                out = []
                for d in dom:
                    s2 = dict(s)
                    s2[key] = d
                    if bind is not None:
                        s2[('v', bind)] = NZ if d else 0
                    out.append(s2)
                return out
            s.pop(key, None)
        else:
            s[key] = v
        return [s]

    def havoc(self, e):
        """does this call run code that may change the tracked memory fields?"""
        if 'fnexpr' in e:
            ck = callback_kind(e)
            return not (ck and ck[0] == 'method')
        nm = e.get('callee')
        if nm in PRIMITIVES or nm in self.quiet:
            return False
        if self.prog is not None:
            t = [f for f in self.prog.funcs.values() if f.name == nm and f.blocks]
            return bool(t)
        return False

    def step(self, e, s):
        if self.on_event:
            r = self.on_event(e, s, self)
            if r is not None:
                s = r
        ev = e['ev']
        if ev == 'store':
            l = strip(e['lhs'])
            key = self.key_of(e['lhs'])
            op = e['op']
            if isinstance(l, dict) and l.get('k') == 'var' and op == '=':
                s = dict(s)
                for k2 in [k for k in s if k[0] == 'l' and k[1] == l['name'] and k not in self.pinned]:
                    del s[k2]
            if key is None:
                return [s]
            if op == '=':
                v = self.ev(e.get('rhs'), s)
            elif op in ('++', '--'):
                v = None
            else:
                v = binop(op[:-1], s.get(key), self.ev(e.get('rhs'), s))
            return self._set(dict(s), key, v, e)
        if ev == 'decl':
            s = dict(s)
            self._kill_local(s, e['name'])
            init = e.get('init')
            while isinstance(init, dict) and init.get('k') == 'compound':
                init = init.get('e')
            if isinstance(init, dict) and init.get('k') == 'init' and isinstance(init.get('fields'), dict):
                # `struct T v = { .a = x, .u.p = y }`: the initialiser is the first store to every field
                rec = init.get('record') or e.get('record')
                for fld, x in init['fields'].items():
                    key = ('l', e['name'], ((rec, fld),))
                    if isinstance(x, dict) and x.get('k') == 'init':
                        if self.on_nested_init:
                            self.on_nested_init(s, e['name'], rec, fld, x)
                        continue
                    v = self.ev(x, s)
                    if self.norm:
                        v = self.norm(key, v, {'rhs': x, 'op': '='})
                    if v is not None and key not in self.pinned:
                        s[key] = v
            return [s]
        if ev == 'call':
            s2 = None
            if e.get('callee') not in self.quiet:
                for a in e.get('args', []):
                    a = strip(a)
                    if isinstance(a, dict) and a.get('k') == 'addr':
                        r = lvalue_root(a['e'])
                        if r is not None and r.get('vk') in ('local', 'param'):
                            s2 = dict(s) if s2 is None else s2
                            self._kill_local(s2, r['name'])
            if self.havoc(e):
                s2 = dict(s) if s2 is None else s2
                for k in [k for k in s2 if k[0] == 'm' and k not in self.pinned]:
                    del s2[k]
            return [s2 if s2 is not None else s]
        return [s]

    def _cmp_known(self, cur, op, rv):
        if isinstance(cur, int) and isinstance(rv, int) and op in _CMP:
            return _CMP[op](cur, rv)
        if cur == NZ and isinstance(rv, int) and rv == 0 and op in ('==', '!='):
            return op == '!='
        return None

    def edge_one(self, blk, si, s):
        if not blk.term or len(blk.succ) < 2:
            return s
        cls = blk.term.get('cls')
        c = blk.term.get('cond')
        if cls == 'MethodDispatch' or c is None:
            return s
        if cls == 'SwitchStmt':
            v = self.ev(c, s)
            if isinstance(v, int):
                cases = blk.term.get('cases', [])
                pick = [i for i, cv in enumerate(cases) if cv == v] or [i for i, cv in enumerate(cases) if cv == 'default']
                if pick and len(cases) == len(blk.succ) and blk.succ[si] not in {blk.succ[i] for i in pick}:
                    return None
            return s
        if len(blk.succ) != 2:
            return s
        t = _truth(self.ev(c, s))
        if t is not None:
            if t != (si == 0):
                return None
        else:
            for (op, lc, rc, l, r) in norm_cond(c, si == 0):
                if op == 'const' or not isinstance(l, dict):
                    continue
                key = self.key_of(l)
                if key is None or key in self.pinned:
                    continue
                rv = self.ev(r, s) if isinstance(r, dict) else None
                cur = s.get(key)
                if cur is not None:
                    if self._cmp_known(cur, op, rv) is False:
                        return None
                    continue
                dom = self.fork(key)
                if op == '==' and isinstance(rv, int):
                    if dom and rv not in dom:
                        return None
                    s = dict(s)
                    s[key] = rv
                elif op == '!=' and isinstance(rv, int):
                    if dom:
                        rest = [d for d in dom if d != rv]
                        if not rest:
                            return None
                        if len(rest) == 1:
                            s = dict(s)
                            s[key] = rest[0]
                    elif rv == 0:
                        s = dict(s)
                        s[key] = NZ
        if self.on_edge:
            r2 = self.on_edge(blk, si, s, self)
            if r2 is not None:
                s = r2
        return s

    def run(self, init_states):
        fn = self.fn
        live = self.live

        def freeze(s):
            return frozenset(s.items())

        def transfer(e, S):
            out = set()
            la = live.get((e.get('_b'), e.get('_i')))
            for fs in S:
                for s2 in self.step(e, dict(fs)):
                    if la is not None:
                        for k in [k for k in s2 if k[0] in ('v', 'l') and k[1] in self.tracked_locals
                                  and k[1] not in la and k not in self.pinned]:
                            del s2[k]
                    out.add(freeze(s2))
            if len(out) > self.max_states:
                raise AnalysisBroken('abstract interpretation of %s: more than %d states' % (fn.name, self.max_states))
            return frozenset(out)

        def edge(blk, si, S):
            out = set()
            for fs in S:
                s2 = self.edge_one(blk, si, dict(fs))
                if s2 is not None:
                    out.add(freeze(s2))
            return frozenset(out) if out else None

        init = frozenset(freeze(dict(s)) for s in init_states)
        _, ev_in = forward(fn, init, transfer, lambda a, b: a | b, edge=edge)
        return ev_in

    def root_exits(self, ev_in):
        """[(event or None, states)] at the normal returns of the root."""
        out = []
        fn = self.fn
        for b, blk in fn.blocks.items():
            for i, e in enumerate(blk.events):
                if e['ev'] == 'ret' and not e.get('chain'):
                    S = ev_in.get((b, i))
                    if S:
                        out.append((e, S))
        S = ev_in.get((fn.exit, 0))
        if S and fn.ret == 'void':
            out.append((None, S))
        return out


# --------------------------------------------------------------------------
# path-wise symbolic evaluation (terms over the entry memory)
# --------------------------------------------------------------------------

def t_int(n):
    return ('int', n)


def t_add(t, n):
    if n == 0:
        return t
    if t[0] == 'int':
        return ('int', t[1] + n)
    if t[0] == 'add':
        return t_add(t[1], t[2] + n)
    return ('add', t, n)


def term_root(a):
    """base of an address term below its fld/elem steps"""
    while isinstance(a, tuple) and a and a[0] in ('fld', 'elem'):
        a = a[1]
    return a


def term_contains(t, sub):
    if t == sub:
        return True
    if isinstance(t, tuple):
        return any(term_contains(x, sub) for x in t)
    return False


def term_replace(t, old, new):
    if t == old:
        return new
    if isinstance(t, tuple):
        return tuple(term_replace(x, old, new) for x in t)
    return t


class SymPath:
    def __init__(self, M, facts, cut=False):
        self.M = M
        self.facts = facts
        self.cut = cut

    def read(self, a):
        return self.M.get(a, ('ld', a))

    def known_equal(self, a, b):
        return a == b or ('==', a, b) in self.facts or ('==', b, a) in self.facts


class Sym:
    """Enumerates the paths of a (practically loop-free) inlined root; memory is a map from address terms
    to value terms, both built over `('ld', addr)` = contents at entry.  Syntactically different address
    terms are taken to be different locations (no may-alias reasoning: this is a checker for missing or
    wrong stores, not a verifier)."""

    def __init__(self, fn, max_paths=4000, max_visits=2):
        self.fn = fn
        self.max_paths = max_paths
        self.max_visits = max_visits
        self.types = {}

    # -- terms -----------------------------------------------------------------
    def addr(self, e, M):
        if not isinstance(e, dict):
            return ('unk', '?')
        k = e.get('k')
        if k in ('cast', 'stmtexpr', 'compound', 'load'):
            return self.addr(e.get('e'), M)
        if k == 'var':
            if e.get('vk') in ('local', 'param'):
                return ('var', e['name'])
            return ('glob', e['name'])
        if k == 'member':
            base = self.val(e['base'], M) if e.get('arrow') else self.addr(e['base'], M)
            a = ('fld', base, e.get('record'), e['field'])
            self.types[a] = e.get('type')
            return a
        if k == 'index':
            b = e['base']
            base = self.val(b, M) if (isinstance(b, dict) and b.get('k') == 'load') else self.addr(b, M)
            a = ('elem', base, self.val(e['idx'], M))
            self.types[a] = e.get('type')
            return a
        if k == 'deref':
            return self.val(e['e'], M)
        return ('unk', canon(e))

    def read(self, a, M):
        if a in M:
            return M[a]
        # field of a struct that was copied as a whole
        if a[0] == 'fld' and a[1] in M:
            v = M[a[1]]
            if isinstance(v, tuple) and v[0] == 'ld':
                return ('ld', ('fld', v[1], a[2], a[3]))
            if isinstance(v, tuple) and v[0] == 'struct':
                return dict(v[2]).get(a[3], ('int', 0))
            return ('fieldof', v, a[2], a[3])
        return ('ld', a)

    def val(self, e, M):
        if not isinstance(e, dict):
            return ('unk', '?')
        k = e.get('k')
        if k == 'int':
            return ('int', e['v'])
        if k == 'null':
            return ('int', 0)
        if k == 'load':
            inner = e['e']
            while isinstance(inner, dict) and inner.get('k') in ('cast', 'compound') and 'e' in inner:
                inner = inner['e']
            if isinstance(inner, dict) and inner.get('k') == 'init':
                return self.val(inner, M)          # value of a compound literal
            return self.read(self.addr(e['e'], M), M)
        if k in ('cast', 'stmtexpr', 'compound'):
            return self.val(e.get('e'), M)
        if k == 'var':
            if e.get('vk') == 'func':
                return ('fn', e['name'])
            if e.get('vk') == 'enum':
                return ('int', e.get('v'))
            return self.addr(e, M)          # array decays to its address
        if k == 'addr':
            return self.addr(e['e'], M)
        if k in ('member', 'index', 'deref'):
            return self.read(self.addr(e, M), M)
        if k == 'incdec':
            t = self.read(self.addr(e['e'], M), M)      # the side effect was emitted as an earlier store event
            if e.get('prefix'):
                return t
            return t_add(t, -1 if e['op'] == '++' else 1)
        if k == 'un':
            v = self.val(e['e'], M)
            if v[0] == 'int':
                if e['op'] == '-':
                    return ('int', -v[1])
                if e['op'] == '!':
                    return ('int', int(not v[1]))
                if e['op'] == '~':
                    return ('int', ~v[1])
            return ('op', e['op'], v)
        if k == 'bin':
            a, b = self.val(e['l'], M), self.val(e['r'], M)
            op = e['op']
            if op == '+' and b[0] == 'int':
                return t_add(a, b[1])
            if op == '+' and a[0] == 'int':
                return t_add(b, a[1])
            if op == '-' and b[0] == 'int':
                return t_add(a, -b[1])
            if a[0] == 'int' and b[0] == 'int':
                r = binop(op, a[1], b[1]) if op not in ('&&', '||') else \
                    int((bool(a[1]) and bool(b[1])) if op == '&&' else (bool(a[1]) or bool(b[1])))
                if isinstance(r, int):
                    return ('int', r)
            if op in ('==', '!=') and a == b:
                return ('int', int(op == '=='))
            return ('op', op, a, b)
        if k == 'cond':
            c = self.val(e['c'], M)
            if c[0] == 'int':
                return self.val(e['a'] if c[1] else e['b'], M)
            return ('op', '?:', c, self.val(e['a'], M), self.val(e['b'], M))
        if k == 'call':
            return ('call', e.get('callee') or canon(e.get('fnexpr')), tuple(self.val(a, M) for a in e.get('args', [])))
        if k == 'assign':
            return self.read(self.addr(e['l'], M), M)
        if k == 'container_of':
            return ('container_of', self.val(e['e'], M), e.get('record'), e.get('member'))
        if k == 'init' and isinstance(e.get('fields'), dict):
            return ('struct', e.get('record'), tuple(sorted((f, self.val(x, M)) for f, x in e['fields'].items())))
        return ('unk', canon(e))

    # -- execution -------------------------------------------------------------
    def _exec(self, e, M):
        ev = e['ev']
        if ev == 'store':
            a = self.addr(e['lhs'], M)
            op = e['op']
            if op == '=':
                v = self.val(e.get('rhs'), M)
            elif op in ('++', '--'):
                v = t_add(self.read(a, M), 1 if op == '++' else -1)
            elif op in ('+=', '-=') and self.val(e.get('rhs'), M)[0] == 'int':
                n = self.val(e['rhs'], M)[1]
                v = t_add(self.read(a, M), n if op == '+=' else -n)
            else:
                v = ('op', op[:-1], self.read(a, M), self.val(e.get('rhs'), M))
            for k in [k for k in M if k[0] == 'fld' and k[1] == a]:
                del M[k]
            M[a] = v
        elif ev == 'decl':
            a = ('var', e['name'])
            for k in [k for k in M if k == a or term_root(k) == a]:
                del M[k]
        elif ev == 'call':
            if e.get('callee') in ('memcpy', 'memmove', '__builtin_memcpy', '__builtin_memmove') and len(e.get('args', [])) == 3:
                dst, src = self.val(e['args'][0], M), self.val(e['args'][1], M)
                for k in [k for k in M if k[0] == 'fld' and k[1] == dst]:
                    del M[k]
                M[dst] = self.read(src, M)
                return
            for x in e.get('args', []):
                x = strip(x)
                if isinstance(x, dict) and x.get('k') == 'addr':
                    r = lvalue_root(x['e'])
                    if r is not None and r.get('vk') in ('local', 'param'):
                        a = ('var', r['name'])
                        for k in [k for k in M if k == a or term_root(k) == a]:
                            M[k] = ('unk', 'after %s' % e.get('callee'))

    def _decide(self, atom, M, facts):
        (op, lc, rc, l, r) = atom
        if op == 'const':
            return (lc == 'True'), None
        a = self.val(l, M) if isinstance(l, dict) else ('unk', lc)
        b = self.val(r, M) if isinstance(r, dict) else ('unk', rc)
        if a[0] == 'int' and b[0] == 'int' and op in _CMP:
            return _CMP[op](a[1], b[1]), None
        if op in ('==', '!='):
            if a == b:
                return op == '==', None
            if ('==', a, b) in facts or ('==', b, a) in facts:
                return op == '==', None
            if ('!=', a, b) in facts or ('!=', b, a) in facts:
                return op == '!=', None
            return None, (op, a, b)
        return None, (op, a, b)

    def run(self):
        fn = self.fn
        paths = []
        stack = [(fn.entry, {}, frozenset(), {})]
        steps = 0
        while stack:
            b, M, facts, visits = stack.pop()
            steps += 1
            if steps > 200000 or len(paths) > self.max_paths:
                raise AnalysisBroken('symbolic evaluation of %s: too many paths' % fn.name)
            n = visits.get(b, 0) + 1
            if n > self.max_visits:
                paths.append(SymPath(M, facts, cut=True))
                continue
            visits = dict(visits)
            visits[b] = n
            blk = fn.blocks[b]
            M = dict(M)
            ended = False
            for e in blk.events:
                self._exec(e, M)
                if e['ev'] == 'ret' and not e.get('chain'):
                    paths.append(SymPath(M, facts))
                    ended = True
                    break
            if ended:
                continue
            if blk.noreturn:
                continue
            succ = [s_ for s_ in blk.succ]
            if not succ or b == fn.exit:
                paths.append(SymPath(M, facts))
                continue
            c = blk.term.get('cond') if blk.term else None
            if len(succ) == 2 and c is not None and blk.term.get('cls') not in ('SwitchStmt', 'MethodDispatch'):
                for si in (0, 1):
                    if succ[si] is None:
                        continue
                    feasible, newf = True, set()
                    for atom in norm_cond(c, si == 0):
                        d, f = self._decide(atom, M, facts)
                        if d is False:
                            feasible = False
                            break
                        if f is not None:
                            newf.add(f)
                    if feasible:
                        stack.append((succ[si], M, facts | frozenset(newf), visits))
            else:
                for s_ in succ:
                    if s_ is not None:
                        stack.append((s_, M, facts, visits))
        return paths
