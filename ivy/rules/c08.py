"""C08 — iv_event: posts from any thread are never lost, over-delivered or misrouted.

The schedule-level guarantee (no lost wake-up for any interleaving) is not
decided; claimed are the structural clauses it rests on.

All rules are evaluated on entry points (exported functions, installed handlers, poll slots) with the
static helpers inlined and values cached in locals resolved (h08.normalise); anchors are roles
(the indirect call through iv_event.handler, list primitives applied to iv_state.events_pending /
iv_event.list, the wake-up primitives), never names of static functions or of variables.
"""
import re

from ..core import (AnalysisBroken, canon, strip, strip_load, last_member, lvalue_steps, norm_cond, walk, forward, root_var)
from ..analyses import (is_call, holding, atoms_imply, path_to, describe, exits_of, callback_kind,
                        locksets, held, lock_effect, force_edges, prune_infeasible)
from .c11 import null_rule
from . import h08
from .h08 import K
from .. import roles

ADD = ('iv_list_add', 'iv_list_add_tail')
UNLINK = ('iv_list_del', 'iv_list_del_init')
WAKE = ('iv_task_register', 'iv_event_raw_post')
WAITS = {'epoll_wait': 1, 'epoll_pwait': 1, 'epoll_pwait2': 1}
KERNEL_RECORDS = ('epoll_event', 'epoll_data')
WRAPPER = 'iv_event_run_pending_events'        # exported (iv_private.h): runs the calling thread's own events


def run(ctx):
    ctx.rule('R-C08a', 'KICK-ON-EMPTY: the emptiness test of the owner\'s pending list and the add are in one region of the owner\'s '
                       'list mutex, test first; every path on which the list was empty reaches a wake-up of the owner '
                       '(local task / raw-event post / poll-method send), the chain being exhaustive', floor=4)
    ctx.rule('R-C08b', 'the runner touches the pending list, the detached batch and the links of its events only under the owner\'s mutex '
                       '(detach, batch re-test, element reads); the handler is called with no lock held', floor=4)
    ctx.rule('R-C08c', 'an event is unlinked from the batch, under the mutex, between the definition of the object and its handler call '
                       '(a post during the handler re-queues it); no second handler call without a new unlink', floor=1)
    ctx.rule('R-C08d', 'only the owner runs its events: every entry point that reaches the handler call is the handler of the state\'s own '
                       'local task / kick raw event (cookie = that state), the wrapper that runs the calling thread\'s state, or a poll '
                       'slot that saw this thread\'s own kick token', floor=4)
    ctx.rule('R-C08e', 'TRANSPORT-FOLLOWS-COUNT (multi-threaded application): a thread\'s registration count is non-zero only while its '
                       'wake-up transport is set up and never under-counts the registered events: a registration returns with the count '
                       'raised only if the count was non-zero before or the set-up it triggered (count found at 0) succeeded; a set-up '
                       'that failed, or whose result was not examined, leaves the count at its entry value 0, so that the next '
                       'registration triggers it again; unregistration takes the count down by at most one and tears the transport '
                       'down only where the count has reached 0', floor=4)
    ctx.rule('R-C08f', 'WAKE-OUTLIVES-PENDING: the wake-up that is outstanding for a non-empty pending list goes away only together with '
                       'the list\'s content: an entry point that is entered because the wake-up fired (handler of the state\'s local task / '
                       'kick raw event, the wrapper) finds the pending list empty or detaches it whole, under the owner\'s mutex, on every '
                       'path to its return; the owner-local wake-up task of a state is cancelled (iv_task_unregister) only where that '
                       'state\'s pending list was found empty under its mutex and nothing was queued or called back since -- in particular '
                       'an entry point that takes a single event off its list (unregistration) leaves the wake-up of the others alone',
             floor=2)
    ctx.rule('R-C08g', 'NULL-CONTRADICTION in iv_event.c', floor=0)
    ctx.rule('R-C08h', 'BATCH-DRAINED: every event taken off the pending list has its handler called before the runner returns: in '
                       'every entry point that reaches the handler call, every path from the detach of the pending list to a return '
                       'passes, after the batch was last filled, a point at which the local batch is known to be empty (its emptiness '
                       'test came out true, directly or through a value that implies it; the fact is stable, only this thread links '
                       'to its local head), or splices what is left back onto the owner\'s pending list under the mutex and then '
                       'issues a wake-up of the owner', floor=4)
    ctx.rule('R-C08i', 'KICK-NOT-FORGOTTEN: a wake-up (the one-shot kick) consumed by the kernel wait is never forgotten: in every poll '
                       'slot that runs the pending events, on every path on which an entry of the batch the wait returned was '
                       'identified as this thread\'s kick token, the pending list is looked at under the owner\'s mutex (the runner '
                       'is entered) before the slot returns -- for every position of the kick in the batch: the local that records '
                       'it is not cleared or overwritten by a later batch entry, and the branch that decides whether the events are '
                       'run is refuted only where no kick was seen', floor=2)
    derive_keys(ctx.prog)
    ctx.section(post)
    ctx.section(runner)
    ctx.section(who_runs)
    ctx.section(transport_follows_count)
    ctx.section(wake_outlives_pending)
    ctx.section(batch_drained)
    ctx.section(kick_not_forgotten)


def pt(e):
    return (e['_b'], e['_i'])


def derive_keys(prog):
    """The fields of the per-thread state the rules speak about.  While the library still has the fields under
    today's names they are used as they are.  When one of them is gone (renamed, or the event fields were grouped
    into a sub-structure) all four are identified by what the exported poster does with them: the list head the
    posted event's own link (public iv_event.list) is added to; the one mutex member it locks; the raw event it
    posts; the task it registers."""
    def has(key):
        r = prog.records.get(key[0]) or {}
        return any(fl.get('name') == key[1] for fl in r.get('fields', []))
    K.set(**K.DEFAULTS)
    if all(has(k) for k in K.DEFAULTS.values()):
        return
    f = prog.fn('iv_event_post')                      # exported API
    g = h08.inline(prog, f, stop=lambda t: t.name in WAKE + ('iv_task_registered',))

    def mkey(x):
        m = h08.member_of(x)
        return (m.get('record'), m['field']) if m is not None else None
    found = {'PENDING': set(), 'EVL_KEY': set(), 'KICK': set(), 'LOCAL': set()}
    for e in g.events():
        if e['ev'] != 'call' or not e.get('args'):
            continue
        if is_call(e, ADD) and len(e['args']) == 2 and mkey(e['args'][0]) == K.LINK:
            found['PENDING'].add(mkey(e['args'][1]))
        elif lock_effect(e):
            found['EVL_KEY'].add(mkey(e['args'][0]))
        elif is_call(e, 'iv_event_raw_post'):
            found['KICK'].add(mkey(e['args'][0]))
        elif is_call(e, 'iv_task_register'):
            found['LOCAL'].add(mkey(e['args'][0]))
    bad = sorted(k for k, v in found.items() if len(v) != 1 or None in v)
    if bad:
        raise AnalysisBroken('state fields of the iv_event machinery renamed and not identifiable by role in iv_event_post: %s' % ', '.join(bad))
    K.set(**{k: next(iter(v)) for k, v in found.items()})


class Acc:
    """obligations about a source construct, aggregated over its copies (flag partitioning, inlining,
    calling contexts): the construct satisfies the obligation iff every copy does"""
    def __init__(self):
        self.d = {}
        self.order = []

    def add(self, rid, inst, loc, ok, detail, fn=None, path=None):
        k = (rid, inst, loc)
        if k not in self.d:
            self.d[k] = [True, detail, fn, None]
            self.order.append(k)
        r = self.d[k]
        if not ok and r[0]:
            r[0], r[1], r[2], r[3] = False, detail, fn, path
        return ok

    def emit(self, ctx):
        for k in self.order:
            ok, detail, fn, path = self.d[k]
            ctx.ob(k[0], k[1], ok, loc=k[2], detail=detail, fn=fn, path=path)


# --------------------------------------------------------------------------
# R-C08a: the poster
# --------------------------------------------------------------------------

def post(ctx):
    prog = ctx.prog
    f = prog.fn('iv_event_post')                      # exported API
    if not f.params:
        raise AnalysisBroken('iv_event_post: no parameter')
    P = f.params[0]['name']
    g = h08.inline(prog, f, stop=lambda t: t.name in WAKE + ('iv_task_registered',))
    if P in h08.written_vars(g):
        raise AnalysisBroken('iv_event_post: the event parameter is reassigned')
    for e in g.events():
        if e['ev'] == 'store' and K.OWNER in lvalue_steps(e['lhs']):
            raise AnalysisBroken('iv_event_post writes iv_event.owner')
    acc = Acc()

    # the class of values "owner of the event being posted": E->owner for the parameter E, every local that
    # holds a copy of it, and what compared equal to it on the edge taken
    def posted_event(x):
        return P in h08.spellings(x)

    def owner_direct(x):
        m = strip(x)
        return isinstance(m, dict) and m.get('k') == 'member' and (m.get('record'), m['field']) == K.OWNER and posted_event(m['base'])

    def owner_gen(x, S):
        return h08.in_class(x, S, owner_direct)
    OWN = h08.value_sets(g, owner_gen)

    # the calling thread's own state (iv_get_state(), directly or through a local) designates the owner on paths
    # over an edge on which the two compared equal
    SELF = h08.value_sets(g, lambda x, S: h08.in_class(x, S, _is_own_state))

    def self_is_owner_edge(blk, si, s):
        if blk.term and blk.term.get('cond') is not None and len(blk.succ) == 2 and blk.term.get('cls') not in ('SwitchStmt', 'MethodDispatch'):
            at_end = (blk.id, len(blk.events))
            for (op, lc, rc, l, r) in norm_cond(blk.term['cond'], si == 0):
                if op == '==' and isinstance(l, dict) and isinstance(r, dict):
                    for a, b in ((l, r), (r, l)):
                        if owner_gen(a, OWN.get(at_end, frozenset())) and h08.in_class(b, SELF.get(at_end, frozenset()), _is_own_state):
                            return True
        return s
    _, SELF_OWNS = forward(g, False, lambda e, s: s, lambda a, b: a and b, edge=self_is_owner_edge)

    def owner_at(x, e):
        if x is None:
            return False
        if owner_gen(x, OWN.get(pt(e), frozenset())):
            return True
        return bool(SELF_OWNS.get(pt(e))) and h08.in_class(x, SELF.get(pt(e), frozenset()), _is_own_state)

    ls = locksets(g)
    adds = [e for e in g.events() if e['ev'] == 'call' and is_call(e, ADD) and len(e['args']) == 2
            and (h08.list_class(e['args'][0], ()) == 'link' or h08.list_class(e['args'][1], ()) == 'pending')]
    tests = [e for (e, cls, what) in h08.list_accesses(g, ())
             if (cls == 'pending' and is_call(e, 'iv_list_empty')) or (cls == 'node of pending' and e['ev'] == 'load')]
    if not adds or not tests:
        raise AnalysisBroken('iv_event_post: add or emptiness test of the pending list not found')
    testids = {id(e) for e in tests}

    # since the last lock operation on the list mutex, the emptiness of the pending list was read (with the mutex held)
    def tr_tested(e, s):
        if any(lid == K.EVL for (_, lid) in lock_effect(e)):
            return False
        if id(e) in testids:
            return K.EVL in held(ls.get(pt(e)))
        return s
    _, tested = forward(g, False, tr_tested, lambda a, b: a and b)
    def region(e):
        return frozenset(x for x in (ls.get(pt(e)) or ()) if x[0] == K.EVL)
    # ... and the emptiness is never sampled in a critical section other than one that performs the add
    tests_locked = all(region(t) and any(region(t) == region(a) for a in adds) for t in tests)
    for a in adds:
        ok = K.EVL in held(ls.get(pt(a))) and bool(tested.get(pt(a))) and tests_locked
        acc.add('R-C08a', 'iv_event_post:test-then-add-one-region', a['loc'], ok,
                'the emptiness of the pending list is read before the add, inside the same acquisition of the owner\'s '
                'event_list_mutex; no such read happens without the mutex or in another critical section', f.q, None if ok else path_to(g, a))
        # ... and it is the owner's list the event is queued on
        ev_ok = posted_event(h08.container_ptr(a['args'][0], K.LINK) or {})
        head_ok = owner_at(h08.container_ptr(a['args'][1], K.PENDING), a)
        acc.add('R-C08a', 'iv_event_post:queued-on-owners-list', a['loc'], ev_ok and head_ok,
                'the posted event\'s own link is added to the pending list of the state its owner field designates: %s' % describe(a), f.q)
    for t in tests:
        x = t['args'][0] if t['ev'] == 'call' else _head_of(strip_load(t['e']))
        acc.add('R-C08a', 'iv_event_post:tests-owners-list', t['loc'], owner_at(h08.container_ptr(x, K.PENDING), t),
                'the pending list whose emptiness decides the kick is the owner\'s: %s' % describe(t), f.q)
    for e in g.events():
        if e['ev'] == 'call' and any(lid == K.EVL for (_, lid) in lock_effect(e)):
            acc.add('R-C08a', 'iv_event_post:region-of-owners-mutex', e['loc'], owner_at(h08.container_ptr(e['args'][0], K.EVL_KEY), e),
                    'the list mutex taken/released is the owner\'s: %s' % describe(e), f.q)

    # force the "was empty" edge and require a wake-up on every remaining path.  The outcome of the test may
    # also sit in a plain local (`was_empty = iv_list_empty(&dst->events_pending)`): the class of variables
    # holding the result of an emptiness test of the pending list / of the event's own link
    def result_of(gx, callee, key):
        def direct(x):
            c = strip(x)
            return isinstance(c, dict) and c.get('k') == 'call' and c.get('callee') == callee and c.get('args') \
                and last_member(h08.member_of(c['args'][0])) == key
        sets = h08.value_sets(gx, lambda x, S: h08.in_class(x, S, direct))

        def truth(at, blk):
            """'true' / 'false' when the atom (taken at the end of blk) says the call returned non-zero / zero"""
            (op, lc, rc, l, r) = at
            if rc != '0' or op not in ('==', '!=') or not isinstance(l, dict):
                return None
            if direct(l) or h08.in_class(l, sets.get((blk.id, len(blk.events)), frozenset()), lambda x: False):
                return 'true' if op == '!=' else 'false'
            return None
        return truth
    # (the classes are must-facts: recomputed on the forced graph until no further edge falls, so that a path that
    # was cut -- event already queued, flag left at its initial 0 -- does not blur the class at a join)
    gf = g
    for _ in range(6):
        pending_empty = result_of(gf, 'iv_list_empty', K.PENDING)
        unqueued = result_of(gf, 'iv_list_empty', K.LINK)

        def keep(blk, si, atoms):
            for at in atoms:
                if pending_empty(at, blk) == 'false' or unqueued(at, blk) == 'false':
                    return False       # pending list not empty: no kick owed; event already queued: nothing added
            return None
        before = sum(len(b.succ) for b in gf.blocks.values())
        gf = force_edges(gf, keep)
        prune_infeasible(gf)
        # "the chain being exhaustive" is judged over the values the transport selector can hold (a file-scope
        # scalar nobody's address is taken of, only ever assigned constants), not over the shape of the chain: a
        # `switch` with a case for each of them has no fall-off path
        h08.prune_by_selector_range(prog, gf)
        if sum(len(b.succ) for b in gf.blocks.values()) == before:
            break
    task_registered = result_of(gf, 'iv_task_registered', K.LOCAL)

    def send_site(e):
        return e['ev'] == 'call' and callback_kind(e) == ('method', 'event_send')

    def woke(e):
        return (e['ev'] == 'call' and is_call(e, WAKE)) or send_site(e)

    def tr(e, s):
        return True if woke(e) else s

    def edge(blk, si, s):
        if blk.term and blk.term.get('cond') is not None and len(blk.succ) == 2:
            for at in norm_cond(blk.term['cond'], si == 0):
                if task_registered(at, blk) == 'true':
                    return True       # the owner-local task is already registered: it will run the events
        return s
    _, ev_in = forward(gf, False, tr, lambda a, b: a and b, edge=edge)
    pts = [(pb, pi) for (pb, pi, _) in exits_of(gf)] + [(gf.exit, 0)]
    reach = [p for p in pts if p in ev_in]
    if not reach:
        raise AnalysisBroken('iv_event_post: no exit reachable on the list-was-empty path')
    ctx.ob('R-C08a', 'iv_event_post:empty-implies-wake', all(ev_in[p] for p in reach), loc=f.loc,
           detail='on every path on which the pending list was empty and the event was added, the owner is woken '
                  '(iv_task_register / already registered, iv_event_raw_post, method->event_send)', fn=f.q)

    # the wake-up goes to the owner of the event, over the transport the owner listens on
    modes = _raw_mode_flags(prog)
    hd = holding(g, user_call_kills=False)

    from ..core import NEG

    def in_mode(e, positive):
        """the registration condition (a conjunction of atoms over the mode variables) holds / is refuted here"""
        A = hd.get(pt(e), frozenset())
        if positive:
            return all(atoms_imply(A, op, m, c) for (op, m, c) in modes)
        return any(atoms_imply(A, NEG[op], m, c) for (op, m, c) in modes)
    cond_txt = ' && '.join('%s %s %s' % (m, op, c) for (op, m, c) in sorted(modes))
    kinds = set()
    for e in g.events():
        if not woke(e):
            continue
        a0 = e['args'][0] if e.get('args') else None
        if is_call(e, 'iv_event_raw_post') or send_site(e):
            raw = is_call(e, 'iv_event_raw_post')
            acc.add('R-C08a', 'iv_event_post:transport-matches-registration:%s' % ('raw' if raw else 'send'), e['loc'],
                    in_mode(e, raw),
                    'the %s is used only where %s %s, the condition under which iv_event_register %s the owner\'s kick raw event'
                    % ('raw-event post' if raw else 'poll-method send', cond_txt, 'holds' if raw else 'does not hold',
                       'registers' if raw else 'does not register'), f.q)
        if is_call(e, 'iv_event_raw_post'):
            kinds.add('raw event')
            acc.add('R-C08a', 'iv_event_post:raw-post-targets-owner', e['loc'], owner_at(h08.container_ptr(a0, K.KICK), e),
                    'the raw event posted is the kick of the owner, not the poster\'s (%s)' % canon(a0), f.q)
        elif send_site(e):
            kinds.add('method send')
            acc.add('R-C08a', 'iv_event_post:send-targets-owner', e['loc'], owner_at(a0, e),
                    'method->event_send(%s) is given the owner' % canon(a0), f.q)
        else:
            kinds.add('local task')
            acc.add('R-C08a', 'iv_event_post:local-task-is-owners', e['loc'], owner_at(h08.container_ptr(a0, K.LOCAL), e),
                    'the local task registered (in the calling thread) is the owner\'s, i.e. on the edge poster == owner (%s)' % canon(a0), f.q)
        acc.add('R-C08a', 'iv_event_post:wake-outside-list-lock:%s' % (e.get('callee') or 'event_send'), e['loc'],
                K.EVL not in held(ls.get(pt(e))), 'the wake-up is issued without the owner\'s list mutex held', f.q)
    acc.emit(ctx)
    # each transport arm is present
    ctx.ob('R-C08a', 'iv_event_post:three-transports', kinds == {'local task', 'raw event', 'method send'}, loc=f.loc,
           detail='wake-up transports present: %s' % sorted(kinds), fn=f.q)


def _raw_mode_flags(prog):
    """The condition on file-scope mode variables (atoms `v != 0`, `v == c`, ...; plain globals or members of a
    file-scope struct) under which iv_event_register registers the owner's kick raw event: the transport selector
    the poster has to agree with."""
    f = prog.fn('iv_event_register')                  # exported API
    g = h08.inline(prog, f, stop=lambda t: t.name == 'iv_event_raw_register')
    sites = [e for e in g.events() if e['ev'] == 'call' and is_call(e, 'iv_event_raw_register') and e.get('args')
             and last_member(h08.member_of(e['args'][0])) == K.KICK]
    if not sites:
        raise AnalysisBroken('iv_event_register: registration of the kick raw event not found')
    shared = h08.global_paths(g)
    hd = holding(g, user_call_kills=False)
    modes = None
    for e in sites:
        here = {(a[0], a[1], a[2]) for a in hd.get(pt(e), frozenset())
                if a[0] in ('==', '!=') and a[2].lstrip('-').isdigit() and a[1] in shared}
        modes = here if modes is None else (modes & here)
    # the selector is a variable the registration itself decides (assigns); other globals that happen to be
    # tested on the way are not part of the condition
    tested = set()
    for blk in g.blocks.values():
        if blk.term and blk.term.get('cond') is not None and len(blk.succ) == 2:
            for pol in (True, False):
                tested |= {(op, lc, rc) for (op, lc, rc, l, r) in norm_cond(blk.term['cond'], pol)}
    if modes:
        modes = {m for m in modes if m in tested}       # what the code branches on, not what a store happens to imply
    # ... and the tested atoms that hold at every site path by path (the flag was found set on one path and is set
    # on the other: `if (!raw) { if (!rx_on()) return 0; raw = 1; } return raw_register()`), which the intersection
    # of atom sets at the join does not show
    cs = h08.CountStates(g, ())
    reach = [S for e in sites for S in cs.at(e)]
    if reach:
        modes = set(modes or ()) | {(op, lc, rc) for (op, lc, rc) in tested
                                    if op in ('==', '!=') and lc in shared and rc.lstrip('-').isdigit()
                                    and all(cs.flag_implies(S, lc, op, int(rc)) for S in reach)}
    written = {canon(e['lhs']) for e in g.events() if e['ev'] == 'store'} & shared
    if modes and any(m[1] in written for m in modes):
        modes = {m for m in modes if m[1] in written}
    if not modes:
        raise AnalysisBroken('iv_event_register: no mode flag governs the registration of the kick raw event')
    return modes


def _head_of(m):
    """for a read of H.next / p->next: the list head pointer expression (&H / p)"""
    m = strip(m)
    if isinstance(m, dict) and m.get('k') == 'member':
        return m['base'] if m['arrow'] else {'k': 'addr', 'e': m['base']}
    return None


# --------------------------------------------------------------------------
# R-C08e: the registration count decides whether the wake-up transport is (to be) set up
# --------------------------------------------------------------------------

def _transport_contexts(prog, what):
    """[(root, inlined root, CountStates, [site events])] for every entry point from which a set-up (what == 'setup')
    or tear-down of a thread's wake-up transport is reachable: the raw-event API applied to the state's kick raw
    event, or the poll method's event_rx_on / event_rx_off slot.  The raw-event API itself is not entered."""
    names = (h08.RAW_SETUP, h08.SLOT_SETUP) if what == 'setup' else (h08.RAW_TEARDOWN, h08.SLOT_TEARDOWN)

    def anchor(e):
        if e['ev'] != 'call':
            return False
        return e.get('callee') == names[0] or callback_kind(e) == ('method', names[1])
    owners = roles.functions_with(prog, anchor)
    if not owners:
        raise AnalysisBroken('no %s of a wake-up transport (%s / method->%s) in the library' % (what, names[0], names[1]))
    out, seen = [], set()
    work = sorted(h08.nearest_roots(prog, owners).items())
    while work:
        q, r = work.pop(0)
        if q in seen:
            continue
        seen.add(q)
        g = h08.inline(prog, r, stop=lambda t: t.name in (h08.RAW_SETUP, h08.RAW_TEARDOWN))
        sites = [e for e in g.events() if e['ev'] == 'call' and (h08.transport_site(e) or ('', ''))[0] == what]
        if not any(h08.transport_site(e)[1] == 'raw' for e in sites):
            continue                        # the kick raw event of a state is not concerned
        tracked = h08.counter_fields(g)
        if not tracked:
            # an entry point that only performs the set-up / tear-down (moved behind a non-static function): the
            # count is kept by its callers in the library, which are judged with it inlined
            up = [c for (c, e) in prog.callers_of(r.name) if prog.resolve(prog.unit_of(c), r.name) is r]
            if up:
                work.extend(sorted(h08.nearest_roots(prog, up).items()))
                continue
        cs = h08.CountStates(g, tracked)
        sites = [e for e in sites if cs.at(e)]
        if not sites:
            continue                        # dead in this context (a merged helper entered with the other constant)
        out.append((r, g, cs, sites))
    if not out:
        raise AnalysisBroken('no entry point performs the %s of the kick raw event (%s(&state->%s))' % (what, names[0], K.KICK[1]))
    return out


def transport_follows_count(ctx):
    prog = ctx.prog
    regs = _transport_contexts(prog, 'setup')
    unregs = _transport_contexts(prog, 'teardown')

    # the registration count, by role: the integer member of the state whose value on entry is known to be 0 wherever
    # the registering entry point reaches a set-up, and whose current value is known to be 0 wherever the unregistering
    # entry point reaches a tear-down
    def zero_on_entry(cs, F, S):
        c = S['f0'].get(F)
        return bool(c) and c == ('==', 0)

    def zero_now(cs, F, S):
        return cs.field_value(F, S) == ('c', 0)

    def governed(ctxs, pred):
        out = None
        for root, g, cs, sites in ctxs:
            here = {F for F in cs.tracked if all(pred(cs, F, S) for e in sites for S in cs.at(e))}
            out = here if out is None else (out & here)
        return out or set()
    by_reg, by_unreg = governed(regs, zero_on_entry), governed(unregs, zero_now)
    cands = (by_reg & by_unreg) or (by_reg | by_unreg)
    if len(cands) != 1:
        raise AnalysisBroken('the registration count that governs the set-up / tear-down of the wake-up transport is not identifiable '
                             '(tested == 0 before every set-up: %s; == 0 at every tear-down: %s)'
                             % (sorted(by_reg) or '-', sorted(by_unreg) or '-'))
    F = next(iter(cands))
    Fn = '%s.%s' % F
    acc = Acc()

    def fmt(d):
        return 'unknown' if d is None else ('%+d' % d if d else 'none')

    def attempts(cs, S):
        return ', '.join('%s %s' % ({'raw': '%s(&state->%s)' % (h08.RAW_SETUP, K.KICK[1]), 'slot': 'method->%s' % h08.SLOT_SETUP}[k],
                                    {'pending': 'called, result not examined', 'ok': 'succeeded', 'failed': 'failed'}[v])
                         for k, v in sorted(cs.attempted(S).items()))

    for root, g, cs, sites in regs:
        for S in cs.at_exit():
            if S['mt'] is False:
                continue                    # single-threaded process: no poster in another thread, no transport needed
            loc = S['ret'][0] if S['ret'] else root.loc
            d = cs.delta(F, S)
            up = cs.transport_up(S)       # (the attempt made last decides: it is the transport the code settled for)
            if S['att'] and not up:
                acc.add('R-C08e', '%s:failed-setup-leaves-count-at-entry' % root.name, loc, d == 0,
                        'on a return path on which the set-up of the wake-up transport did not succeed (%s) %s is back at the value '
                        'it had on entry (0 = not set up): the next registration in this thread triggers the set-up again instead of '
                        'relying on a transport that does not exist; net change of the count on this path: %s'
                        % (attempts(cs, S), Fn, fmt(d)), root.q)
                continue
            acc.add('R-C08e', '%s:registration-counted' % root.name, loc, d is not None and d >= 1,
                    'a registration that returns with the transport up or not needed leaves %s raised (an event that is not counted '
                    'lets the unregistration of another one tear the transport down); net change on this path: %s' % (Fn, fmt(d)), root.q)
            c0 = S['f0'].get(F)
            was_nonzero = bool(c0) and ((c0[0] == '!=' and 0 in c0[1]) or (c0[0] == '==' and c0[1] != 0))
            acc.add('R-C08e', '%s:first-registration-sets-up' % root.name, loc, up or was_nonzero,
                    'a registration returns without a successful set-up of the wake-up transport only where %s was found non-zero '
                    '(the transport is up since the registration that raised it from 0); on this path: %s, %s'
                    % (Fn, attempts(cs, S) or 'no set-up attempted',
                       'count on entry %s' % ('== %d' % c0[1] if c0 and c0[0] == '==' else ('!= 0' if was_nonzero else 'not tested'))), root.q)
    for root, g, cs, sites in unregs:
        for e in sites:
            kind = h08.transport_site(e)[1]
            ok = all(cs.field_value(F, S) == ('c', 0) for S in cs.at(e))
            acc.add('R-C08e', '%s:teardown-only-at-zero:%s' % (root.name, kind), e['loc'], ok,
                    'the wake-up transport is torn down (%s) only where %s has reached 0: no registered event is left behind '
                    'without a transport' % (describe(e), Fn), root.q, None if ok else path_to(g, e))
        for S in cs.at_exit():
            if S['mt'] is False:
                continue
            loc = S['ret'][0] if S['ret'] else root.loc
            d = cs.delta(F, S)
            acc.add('R-C08e', '%s:count-down-at-most-one' % root.name, loc, d is not None and d >= -1,
                    'an unregistration takes %s down by at most one (a count below the number of registered events makes the '
                    'next registration skip, or another unregistration perform, the set-up / tear-down); net change: %s' % (Fn, fmt(d)), root.q)
    acc.emit(ctx)


# --------------------------------------------------------------------------
# R-C08b/c: the runner, in every context that reaches the handler call
# --------------------------------------------------------------------------

def _detaches(g):
    return [e for e in g.events() if e['ev'] == 'call' and e.get('callee') in h08.DETACH and len(e['args']) == 2
            and h08.list_class(e['args'][0], ()) == 'pending']


def runner(ctx):
    prog = ctx.prog
    ctxs, _ = h08.root_contexts(prog, h08.is_event_site, 'runner', anchor=h08.touches_event_handler)
    acc = Acc()
    for root, g, sites in ctxs:
        ls = locksets(g)
        det = _detaches(g)
        if not det:
            raise AnalysisBroken('runner (%s): detach of the pending list not found' % root.name)
        batches = {canon(e['args'][1]) for e in det}

        # a local head nothing was linked to yet is private memory
        def tr_pub(e, s):
            if e['ev'] == 'call' and e.get('callee') in h08.LIST_WRITERS and e['callee'] != 'INIT_IV_LIST_HEAD' \
                    and any(canon(a) in batches for a in e.get('args', [])):
                return True
            return s
        _, published = forward(g, False, tr_pub, lambda a, b: a or b)
        for (e, cls, what) in h08.list_accesses(g, batches):
            if is_call(e, 'INIT_IV_LIST_HEAD') and cls == 'batch' and not published.get(pt(e)):
                continue
            if e in det:
                inst = 'runner:detach-under-lock'
                detail = 'the pending list is detached with the owner\'s mutex held'
            elif is_call(e, 'iv_list_empty') and cls == 'batch':
                inst = 'runner:batch-test-under-lock'
                detail = 'emptiness of the detached batch is read with the mutex held (posters unlink/relink events under it)'
            else:
                inst = 'runner:list-access-under-lock'
                detail = '%s (%s) happens with the owner\'s mutex held' % (what, cls)
            ok = K.EVL in held(ls.get(pt(e)))
            acc.add('R-C08b', inst, e['loc'], ok, detail, root.q, None if ok else path_to(g, e))
        for cs in sites:
            acc.add('R-C08b', 'runner:handler-without-lock', cs['loc'], not held(ls.get(pt(cs))),
                    'handler is called with no lock held', root.q)
            ok, obj = _unlinked_before(g, cs, ls)
            acc.add('R-C08c', 'runner:unlinked-before-handler', cs['loc'], ok,
                    'between the definition of %s and %s the event\'s link is removed from the batch (iv_list_del*) with the mutex held, '
                    'on every path' % (obj, describe(cs)), root.q, None if ok else path_to(g, cs))
    acc.emit(ctx)
    null_rule(ctx, 'R-C08g', ('iv_event.c',))


def _ident(x):
    """spellings that designate the event an expression refers to, as object pointer or as pointer to its link
    (container_of and &E->list are bijections between the two): &O->list is O, container_of(p, iv_event, list) is p"""
    y = strip(x)
    if isinstance(y, dict) and y.get('k') == 'container_of' and (y.get('record'), y.get('member')) == K.LINK:
        return _ident(y['e'])
    o = h08.container_ptr(x, K.LINK)
    if o is not None:
        return _ident(o)
    return frozenset(h08.spellings(x))


def _designates_event(x):
    """the value is (derived from) a pointer to an iv_event or to a list link"""
    y = strip(x)
    if not isinstance(y, dict):
        return False
    if y.get('k') == 'container_of':
        return (y.get('record'), y.get('member')) == K.LINK
    if h08.container_ptr(x, K.LINK) is not None:
        return True
    return y.get('k') == 'member' and y.get('record') == 'iv_list_head' and y.get('field') in ('next', 'prev')


_IDENT = re.compile(r'[A-Za-z_$][A-Za-z0-9_$@~]*')


def _unlinked_before(g, cs, ls):
    """Since the last handler call the event whose handler is called was taken off its list and its link
    re-initialised (iv_list_del_init, or iv_list_del followed by INIT_IV_LIST_HEAD) under the list mutex.
    Independent of the loop form and of the order in which the object pointer and the unlink are written:
    every variable that designates an event -- as object pointer or as pointer to its link, derived with
    container_of / &E->list, copied, or read from a neighbour's link -- carries the status of that event
    (D queued / X unlinked but poisoned / U unlinked) and the names under which the same event is known;
    names that are link reads (`batch.next`) are forgotten when a list is changed."""
    fe = strip(cs['fnexpr'])
    objx = fe['base']
    obj = canon(objx)

    def cell(lhs):
        """a plain variable, or a member selected with `.` from a local aggregate (`b.cur`): a place that only
        stores naming it change"""
        n = h08.var_name(lhs)
        if n is not None:
            return n
        m = strip(lhs)
        while isinstance(m, dict) and m.get('k') == 'member' and not m.get('arrow'):
            m = strip_load(m['base'])
        if isinstance(m, dict) and m.get('k') == 'var' and m.get('vk') in ('local', 'param') and strip(lhs).get('k') == 'member':
            return canon(lhs)
        return None

    def mentions(i, v):
        return re.search(r'(?<![\w$@~.>])' + re.escape(v) + r'(?![\w$@~])', i) is not None

    def forget_var(st, v):
        out = {}
        for w, (status, ids) in st.items():
            if w == v or mentions(w, v):
                continue
            out[w] = (status, frozenset(i for i in ids if not mentions(i, v)))
        return out

    def forget_links(st):
        return {w: (status, frozenset(i for i in ids if _IDENT.fullmatch(i) or i in st)) for w, (status, ids) in st.items()}

    def tr(e, st):
        ev = e['ev']
        if ev == 'store':
            v = cell(e['lhs'])
            if v is not None:
                rhs = e.get('rhs') if e.get('op') == '=' else None
                if rhs is not None and isinstance(strip(rhs), dict) and (strip(rhs).get('k') == 'null' or
                                                                         (strip(rhs).get('k') == 'int' and strip(rhs).get('v') == 0)):
                    # the null pointer designates no event (no handler is called through it): nothing is owed for it,
                    # the demand is decided by the other definitions that reach the call
                    st = forget_var(st, v)
                    st[v] = ('U', frozenset())
                    return st
                ids = _ident(rhs) - {v} if rhs is not None else frozenset()
                src = [w for w in st if w != v and (w in ids or (ids & st[w][1]))]
                track = rhs is not None and (_designates_event(rhs) or bool(src))
                status = 'D'
                if src:
                    ss = {st[w][0] for w in src}
                    status = 'D' if 'D' in ss else ('X' if 'X' in ss else 'U')
                st = forget_var(st, v)
                if track:
                    for w in src:
                        if w in st:
                            st[w] = (st[w][0], st[w][1] | {v})
                    st[v] = (status, frozenset(i for i in ids if not mentions(i, v)))
                return st
            return st
        if ev == 'decl':
            return forget_var(st, e['name']) if e['name'] in st else st
        if ev == 'call':
            if h08.is_event_site(e):
                return {}                   # the handler ran: every event may be queued again
            if is_call(e, UNLINK + ('INIT_IV_LIST_HEAD',)) and e.get('args'):
                ids = _ident(e['args'][0])
                locked = K.EVL in held(ls.get(pt(e)))
                out = {}
                for w, (status, wi) in st.items():
                    if w in ids or (ids & wi):
                        if is_call(e, 'iv_list_del_init'):
                            status = 'U' if locked else 'D'
                        elif is_call(e, 'iv_list_del'):
                            # taken off the list, but the link is poisoned: reads as queued until it is re-initialised
                            status = 'X' if locked else 'D'
                        elif status == 'X':
                            status = 'U' if locked else 'D'
                    out[w] = (status, wi)
                return forget_links(out)
            if e.get('callee') in h08.LIST_WRITERS or 'fnexpr' in e:
                st = forget_links(st)
            for a in e.get('args', []):
                a = strip(a)
                if isinstance(a, dict) and a.get('k') == 'addr' and h08.var_name(a['e']) in st:
                    st = forget_var(st, h08.var_name(a['e']))
            return st
        return st

    def join(a, b):
        out = {}
        for w in a:
            if w in b:
                sa, sb = a[w][0], b[w][0]
                status = sa if sa == sb else ('D' if 'D' in (sa, sb) else 'X')
                out[w] = (status, a[w][1] & b[w][1])
        return out
    _, ev_in = forward(g, {}, tr, join)
    st = ev_in.get(pt(cs)) or {}
    ids = _ident(objx)
    hit = [w for w in st if w in ids or (ids & st[w][1])]
    return bool(hit) and all(st[w][0] == 'U' for w in hit), obj


# --------------------------------------------------------------------------
# R-C08f: the wake-up of a non-empty pending list is not taken away
# --------------------------------------------------------------------------

TASK_API = ('iv_task_register', 'iv_task_unregister', 'iv_task_registered')
RAW_API = ('iv_event_raw_register', 'iv_event_raw_unregister', 'iv_event_raw_post')


def _mentions_var(text, v):
    return re.search(r'(?<![\w$@~.>])' + re.escape(v) + r'(?![\w$@~])', text) is not None


def _pending_known_empty(g, ls, transfer_only=False):
    """Forward must-analysis.  State (KNOWN, DRAINED): KNOWN = the spellings of the states whose pending list is known
    to be empty as far as this thread is concerned -- it was found empty (iv_list_empty, directly in the branch or
    through a local that holds the result of the test) or detached whole, with the owner's list mutex held, and since
    then this thread queued nothing and called nothing back (a poster in another thread that queues afterwards finds
    the list empty and sends its own cross-thread kick); DRAINED = such a point was passed at all."""
    def sampled(x):
        """for an emptiness test of a pending list: the pointer to the state it belongs to"""
        c = strip(x)
        if isinstance(c, dict) and c.get('k') == 'call' and c.get('callee') == 'iv_list_empty' and c.get('args'):
            return h08.container_ptr(c['args'][0], K.PENDING)
        return None

    def direct(x):
        return sampled(x) is not None
    flags = h08.value_sets(g, lambda x, S: h08.in_class(x, S, direct))
    # what a local that holds the result of the test speaks about: the state sampled, and whether under the mutex
    fdefs = {}
    for e in g.events():
        if e['ev'] == 'store' and h08.var_name(e['lhs']) is not None and e.get('op') == '=' and 'rhs' in e and direct(e['rhs']):
            fdefs.setdefault(h08.var_name(e['lhs']), []).append(
                (frozenset(h08.spellings(sampled(e['rhs']))), K.EVL in held(ls.get(pt(e)))))

    def forget(known, v):
        return frozenset(t for t in known if t != v and not _mentions_var(t, v))

    def tr(e, st):
        known, drained = st
        ev = e['ev']
        if ev == 'store':
            v = h08.var_name(e['lhs'])
            if v is not None:
                return (forget(known, v), drained)
            if K.OWNER in lvalue_steps(e['lhs']):
                return (frozenset(), drained)
            return st
        if ev == 'decl':
            return (forget(known, e['name']), drained)
        if ev == 'call':
            if e.get('callee') in h08.DETACH and len(e.get('args', [])) == 2 and h08.list_class(e['args'][0], ()) == 'pending':
                if K.EVL in held(ls.get(pt(e))):
                    X = h08.container_ptr(e['args'][0], K.PENDING)
                    return (known | frozenset(h08.spellings(X)), True)
                return st
            if e.get('callee') in h08.LIST_WRITERS and e['callee'] != 'INIT_IV_LIST_HEAD' and e['callee'] not in UNLINK \
                    and any(h08.list_class(a, ()) in ('pending', 'link') for a in e.get('args', [])):
                return (frozenset(), drained)          # something is queued
            if 'fnexpr' in e and (callback_kind(e) or ('', ''))[0] != 'method':
                return (frozenset(), drained)          # user code: may post
            for a in e.get('args', []):
                a = strip(a)
                if isinstance(a, dict) and a.get('k') == 'addr' and h08.var_name(a['e']) is not None:
                    known = forget(known, h08.var_name(a['e']))
            return (known, drained)
        return st

    def edge(blk, si, st):
        known, drained = st
        t = blk.term
        if t and t.get('cond') is not None and len(blk.succ) == 2 and t.get('cls') not in ('SwitchStmt', 'MethodDispatch'):
            at_end = (blk.id, len(blk.events))
            for (op, lc, rc, l, r) in norm_cond(t['cond'], si == 0):
                if op != '!=' or rc != '0' or not isinstance(l, dict):
                    continue
                X = sampled(l)
                if X is not None:
                    # the call event of the test evaluated in this block tells what was held
                    cl = canon(strip(l))
                    evs = [e for e in blk.events if e['ev'] == 'call' and is_call(e, 'iv_list_empty') and e.get('args')
                           and canon({'k': 'call', 'callee': 'iv_list_empty', 'args': e['args']}) == cl]
                    locked = bool(evs) and K.EVL in held(ls.get(pt(evs[-1])))
                    if not evs:
                        locked = K.EVL in held(ls.get(at_end))
                    if locked:
                        known, drained = known | frozenset(h08.spellings(X)), True
                    continue
                v = h08.var_name(l)
                if v is None:
                    y = strip(l)
                    v = y.get('_was') if isinstance(y, dict) else None
                if v is not None and v in flags.get(at_end, frozenset()) and fdefs.get(v) and all(lk for (_, lk) in fdefs[v]):
                    common = frozenset.intersection(*[sp for (sp, _) in fdefs[v]])
                    if common:
                        known, drained = known | common, True
        return (known, drained)

    def join(a, b):
        return (a[0] & b[0], a[1] and b[1])
    if transfer_only:
        # (R-C08i composes the DRAINED component with its own state)
        return tr, edge
    _, ev_in = forward(g, (frozenset(), False), tr, join, edge=edge)
    return ev_in


def _cancels_local_wake(e):
    return e['ev'] == 'call' and is_call(e, 'iv_task_unregister') and e.get('args') \
        and last_member(h08.member_of(e['args'][0])) == K.LOCAL


def wake_outlives_pending(ctx):
    prog = ctx.prog
    acc = Acc()

    # (i) consumption: the entry points entered when the wake-up fired.  (A poll slot consumes the kick token and calls
    # the wrapper; only its paths behind the token reach the runner, R-C08d.)
    ctxs, _ = h08.root_contexts(prog, h08.is_event_site, 'runner', anchor=h08.touches_event_handler)
    polls = {f.q for f in prog.slot_targets('poll')}
    taken = roles.address_taken(prog)
    consumers = [(root, g) for (root, g, sites) in ctxs
                 if root.q not in polls and (root.q in taken or (not root.static and root.name == WRAPPER))]
    if not consumers:
        raise AnalysisBroken('no entry point other than a poll slot runs the pending events (handler of the wake-up task / kick raw event)')
    for root, g in consumers:
        ls = locksets(g)
        facts = _pending_known_empty(g, ls)
        pts = [((pb, pi), e['loc']) for (pb, pi, e) in exits_of(g)]
        if (g.exit, 0) in facts:
            pts.append(((g.exit, 0), root.loc))
        pts = [(p, loc) for (p, loc) in pts if p in facts]
        if not pts:
            raise AnalysisBroken('%s: no return reachable' % root.name)
        ok = all(facts[p][1] for (p, _) in pts)
        badp = [p for (p, _) in pts if not facts[p][1]]
        path = None
        if badp:
            tgt = [e for (pb, pi, e) in exits_of(g) if (pb, pi) in badp]
            path = path_to(g, tgt[0]) if tgt else None
        acc.add('R-C08f', '%s:consumed-wake-empties-pending' % root.name, root.loc, ok,
                'entered because the owner\'s wake-up fired (which is thereby used up), every path to the return finds the pending '
                'list empty or detaches it whole with the owner\'s mutex held: no queued event is left behind without a wake-up',
                root.q, path)

    # (ii) cancellation of the owner-local wake-up task, in the entry points that deal with an event's link or with the task
    def role_anchor(e):
        if e['ev'] not in ('call', 'store', 'load'):
            return False
        return any(x.get('k') == 'member' and (x.get('record'), x.get('field')) in (K.LINK, K.LOCAL) for x in walk(e))
    owners = roles.functions_with(prog, role_anchor)
    if not owners:
        raise AnalysisBroken('no function touches %s.%s / %s.%s' % (K.LINK + K.LOCAL))
    runner_roots = {root.q for (root, g, sites) in ctxs}
    unlinkers = 0
    for q, r in sorted(h08.nearest_roots(prog, owners).items()):
        g = h08.inline(prog, r, stop=lambda t: t.name in TASK_API + RAW_API)
        cancels = [e for e in g.events() if _cancels_local_wake(e)]
        unlinks = [e for e in g.events() if e['ev'] == 'call' and is_call(e, UNLINK) and e.get('args')
                   and h08.list_class(e['args'][0], ()) == 'link']
        is_runner = q in runner_roots or any(h08.is_event_site(e) for e in g.events())
        # the unlink of unregistration: of the event the entry point was handed (its own, never reassigned parameter),
        # as opposed to the runner's unlink of an element it took from the batch (R-C08c)
        given = {p['name'] for p in r.params} - h08.written_vars(g)
        handed = [u for u in unlinks if given & set(h08.spellings(h08.container_ptr(u['args'][0], K.LINK) or {}))]
        unlinks = handed or ([] if is_runner else unlinks)
        if not cancels and not unlinks:
            continue
        ls = locksets(g)
        facts = _pending_known_empty(g, ls)
        all_ok = True
        for c in cancels:
            S = h08.container_ptr(c['args'][0], K.LOCAL)
            st = facts.get(pt(c))
            ok = st is None or bool(frozenset(h08.spellings(S)) & st[0])        # (None: dead code in this context)
            all_ok = all_ok and ok
            acc.add('R-C08f', '%s:cancel-only-when-pending-empty' % r.name, c['loc'], ok,
                    '%s takes away the wake-up outstanding for the pending list of %s: on every path to it that list was found empty '
                    '(or detached whole) with the owner\'s mutex held, and nothing was queued or called back since; otherwise the events '
                    'still queued -- and every later post, which finds the list non-empty and sends nothing -- are never delivered'
                    % (describe(c), canon(S) if S is not None else '?'), r.q, None if ok else path_to(g, c))
        if unlinks:
            for u in unlinks:
                unlinkers += 1
                acc.add('R-C08f', '%s:unlink-leaves-wake-up' % r.name, u['loc'], all_ok,
                        'taking one event off its list (%s) does not take the wake-up of the other queued events away: the entry point '
                        'cancels the owner-local task nowhere (%d cancellation(s)), or only where the pending list is known empty'
                        % (describe(u), len(cancels)), r.q)
    if not unlinkers:
        raise AnalysisBroken('no entry point outside the runner unlinks an event (%s.%s) from its list: unregistration not found' % K.LINK)
    acc.emit(ctx)


# --------------------------------------------------------------------------
# R-C08h: what was detached is delivered before the runner returns
# --------------------------------------------------------------------------

def _local_cell(x):
    """a plain local / parameter, or a member selected with `.` from a local aggregate (`b.more`): its spelling"""
    y = strip(x)
    if not isinstance(y, dict):
        return None
    if y.get('k') == 'var':
        return y['name'] if y.get('vk') in ('local', 'param') else None
    m = y
    while isinstance(m, dict) and m.get('k') == 'member' and not m.get('arrow'):
        m = strip_load(m['base'])
    if y.get('k') == 'member' and isinstance(m, dict) and m.get('k') == 'var' and m.get('vk') in ('local', 'param'):
        return canon(y)
    return None


def _wakes_owner(e):
    """a wake-up primitive applied to a state's own local task / kick raw event, or the poll method's event_send"""
    args = e.get('args') or []
    return (e.get('callee') in WAKE and bool(args) and last_member(h08.member_of(args[0])) in (K.LOCAL, K.KICK)) \
        or (e['ev'] == 'call' and callback_kind(e) == ('method', 'event_send'))


def _batch_known_empty(g, batches, ls):
    """Forward must-analysis for the local list head(s) the pending list is detached to.  State (E, W, I0, I1):
    E  = the batch is known to be empty: nothing was detached to it yet, or it was found empty since it was last
         filled.  The fact is stable: nobody but this thread links anything to the local head (posters queue on the
         pending list, and only events whose own link reads unqueued), unregistration and the runner only take
         elements off; it is therefore kept across unlock / handler calls and dropped only where this thread fills
         the batch again.
    W  = what was left of the batch was spliced back onto the owner's pending list and no wake-up was issued since.
    I0 / I1 = the locals v for which `v == 0` / `v != 0` implies that the batch is empty (a sampled emptiness test,
         its negation, a constant stored where the answer was known, the pointer to the element that was popped,
         and && / || / ! / ?: combinations and copies of these).  With E every local is in both."""
    # locals whose address escapes: passed to a call that was not entered, or stored (an out-parameter of an inlined
    # helper has been substituted: `*&v = x` is `v = x`)
    addr_taken = set()
    for e in g.events():
        if e['ev'] == 'call':
            srcs = e.get('args') or []
        elif e['ev'] == 'store' and e.get('rhs') is not None:
            if e.get('is_param') and h08.var_name(e['lhs']) is not None:
                # the argument copy of an inlined helper: dead when every use of the parameter was substituted
                pn = h08.var_name(e['lhs'])
                if not any(x.get('k') == 'var' and x.get('name') == pn for e2 in g.events() if e2 is not e and e2['ev'] != 'enter'
                           for x in walk(e2)) and not any(
                        x.get('k') == 'var' and x.get('name') == pn for b in g.blocks.values()
                        if b.term and b.term.get('cond') is not None for x in walk(b.term['cond'])):
                    continue
            srcs = [e['rhs']]
        else:
            continue
        for a in srcs:
            addr_taken |= {h08.var_name(x['e']) for x in walk(a) if x.get('k') == 'addr'} - {None}

    # the destination of the detach under every spelling: `&events`, and a pointer local that only ever holds that address
    names = set(batches)
    defs = {}
    for e in g.events():
        if e['ev'] == 'store' and h08.var_name(e['lhs']) is not None:
            defs.setdefault(h08.var_name(e['lhs']), []).append(e)
    for v, ds in defs.items():
        if len(ds) == 1 and ds[0].get('op') == '=' and ds[0].get('rhs') is not None and v not in addr_taken:
            r = strip(ds[0]['rhs'])
            if isinstance(r, dict) and r.get('k') == 'addr' and (canon(r) in names or v in names):
                names |= {v, canon(r)}

    def is_batch(x):
        return h08.list_class(x, names) == 'batch' or (isinstance(strip(x), dict) and canon(strip(x)) in names)

    def impl(x, st):
        """(x == 0 implies empty, x != 0 implies empty)"""
        E, W, I0, I1 = st
        if E:
            return (True, True)
        y = strip(x)
        if not isinstance(y, dict):
            return (False, False)
        k = y.get('k')
        if k == 'paren' and isinstance(y.get('e'), dict):
            return impl(y['e'], st)
        if k == 'int':
            return (y['v'] != 0, y['v'] == 0)       # vacuous on the side the constant is not on
        if k == 'null':
            return (False, True)
        if k in ('container_of', 'addr'):
            return (True, False)                    # an object's address is not null
        c = _local_cell(x)
        if c is not None:
            return (c in I0, c in I1)
        was = None
        z = x
        while isinstance(z, dict):
            if z.get('_was') is not None:
                was = z['_was']
                break
            if z.get('k') in ('load', 'cast', 'paren', 'stmtexpr') and isinstance(z.get('e'), dict):
                z = z['e']
            else:
                break
        if k == 'call' and y.get('callee') == 'iv_list_empty' and y.get('args') and is_batch(y['args'][0]):
            return (False, True)
        if k == 'un' and y.get('op') == '!':
            a = impl(y['e'], st)
            return (a[1], a[0])
        if k == 'assign' and y.get('op') == '=':
            # `(v = x)` used as a value: the store was already carried out as an event of the block
            return impl(y['l'], st)
        if k == 'bin':
            op = y.get('op')
            if op in ('==', '!='):
                l, r = y['l'], y['r']
                for a, b in ((l, r), (r, l)):
                    sb = strip(b)
                    if isinstance(sb, dict) and (sb.get('k') == 'null' or (sb.get('k') == 'int' and sb['v'] == 0)):
                        ia = impl(a, st)
                        return ia if op == '!=' else (ia[1], ia[0])
                    # open-coded emptiness test of the batch: BATCH.next == &BATCH
                    sa = strip(a)
                    if isinstance(sa, dict) and sa.get('k') == 'member' and sa.get('record') == 'iv_list_head' \
                            and sa.get('field') in ('next', 'prev') and is_batch(_head_of(sa)) and is_batch(b):
                        return (False, True) if op == '==' else (True, False)
                return (False, False)
            if op == '&&':
                a, b = impl(y['l'], st), impl(y['r'], st)
                return (a[0] and b[0], a[1] or b[1])
            if op == '||':
                a, b = impl(y['l'], st), impl(y['r'], st)
                return (a[0] or b[0], a[1] and b[1])
            return (False, False)
        if k == 'cond':
            a, b = impl(y['a'], st), impl(y['b'], st)
            return (a[0] and b[0], a[1] and b[1])
        if was is not None:
            return (was in I0, was in I1)
        return (False, False)

    def drop(st, v):
        E, W, I0, I1 = st
        if v in I0 or v in I1:
            return (E, W, I0 - {v}, I1 - {v})
        return st

    def tr(e, st):
        E, W, I0, I1 = st
        ev = e['ev']
        if ev == 'store':
            v = _local_cell(e['lhs'])
            if v is None:
                return st
            root = v.split('.')[0]
            if E:
                return st
            if e.get('op') == '=' and e.get('rhs') is not None and root not in addr_taken:
                i0, i1 = impl(e['rhs'], st)
                return (E, W, (I0 | {v}) if i0 else (I0 - {v}), (I1 | {v}) if i1 else (I1 - {v}))
            return drop(st, v)
        if ev == 'decl':
            n = e.get('name')
            if n is None or E:
                return st
            return (E, W, frozenset(w for w in I0 if w != n and not w.startswith(n + '.')),
                    frozenset(w for w in I1 if w != n and not w.startswith(n + '.')))
        if ev == 'call':
            args = e.get('args') or []
            cal = e.get('callee')
            if cal in h08.DETACH + ('iv_list_splice', 'iv_list_splice_tail') and len(args) == 2:
                if is_batch(args[1]):
                    return (False, W, frozenset(), frozenset())          # the batch is filled
                if is_batch(args[0]) and h08.list_class(args[1], batches) == 'pending':
                    # what is left goes back where the next run finds it -- if the list is the owner's, under its
                    # mutex (R-C08b), and a wake-up follows
                    if K.EVL in held(ls.get(pt(e))):
                        return (True, True, frozenset(), frozenset())
                    return st
            if cal in ADD and len(args) == 2 and is_batch(args[1]):
                return (False, W, frozenset(), frozenset())
            if _wakes_owner(e):
                W = False
            elif W and cal in ADD and len(args) == 2 and any(
                    x.get('k') == 'member' and (x.get('record'), x.get('field')) == K.LOCAL for x in walk(args[0])):
                W = False                   # (iv_task_register inlined into this context: the task's link is queued)
            return (E, W, I0, I1)
        return st

    def edge(blk, si, st):
        t = blk.term
        if not t or t.get('cond') is None or len(blk.succ) != 2 or t.get('cls') in ('SwitchStmt', 'MethodDispatch'):
            return st
        if st[1]:
            for (op, lc, rc, l, r) in norm_cond(t['cond'], si == 0):
                c = strip(l) if isinstance(l, dict) else None
                if rc != '0' or not isinstance(c, dict) or c.get('k') != 'call' or not c.get('args'):
                    continue
                m = h08.member_of(c['args'][0])
                # iv_task_registered(&S->LOCAL) is true, or (the same, with the task API inlined) the task's own link
                # does not read as unqueued: the owner-local task is registered already and will run them
                if (op == '!=' and c.get('callee') == 'iv_task_registered' and last_member(m) == K.LOCAL) or \
                        (op == '==' and c.get('callee') == 'iv_list_empty' and m is not None and m.get('record') in ('iv_task_', 'iv_task')
                         and any(x.get('k') == 'member' and (x.get('record'), x.get('field')) == K.LOCAL for x in walk(m['base']))):
                    st = (st[0], False, st[2], st[3])
        if st[0]:
            return st
        i0, i1 = impl(t['cond'], st)
        if (si == 0 and i1) or (si == 1 and i0):
            return (True, st[1], frozenset(), frozenset())
        return st

    def join(a, b):
        if a[0] and b[0]:
            return (True, a[1] or b[1], frozenset(), frozenset())
        if a[0]:
            return (False, a[1] or b[1], b[2], b[3])
        if b[0]:
            return (False, a[1] or b[1], a[2], a[3])
        return (False, a[1] or b[1], a[2] & b[2], a[3] & b[3])
    return forward(g, (True, False, frozenset(), frozenset()), tr, join, edge=edge)


def batch_drained(ctx):
    prog = ctx.prog
    ctxs, _ = h08.root_contexts(prog, h08.is_event_site, 'runner', anchor=h08.touches_event_handler)
    acc = Acc()
    n = 0
    for root, g, sites in ctxs:
        det = _detaches(g)
        if not det:
            raise AnalysisBroken('runner (%s): detach of the pending list not found' % root.name)
        batches = {canon(e['args'][1]) for e in det}
        ls = locksets(g)
        instate, ev_in = _batch_known_empty(g, batches, ls)
        rets = [(e, ev_in[(pb, pi)]) for (pb, pi, e) in exits_of(g) if (pb, pi) in ev_in]
        final = instate.get(g.exit)
        if final is None and not rets:
            raise AnalysisBroken('%s: no return reachable' % root.name)
        states = [s for (_, s) in rets] + ([final] if final is not None else [])
        stranded = [e for (e, s) in rets if not s[0]]
        unwoken = [e for (e, s) in rets if s[0] and s[1]]
        ok_e = all(s[0] for s in states)
        ok_w = all(not s[1] for s in states)
        what = ', '.join(sorted(batches))
        for d in det:
            n += 1
            acc.add('R-C08h', '%s:batch-empty-at-return' % root.name, d['loc'], ok_e,
                    'every event detached from the pending list (%s) is run before the entry point returns: on every path from '
                    'the detach to a return the local batch %s was found empty since it was last filled (an emptiness test of the '
                    'batch, or a value that implies its outcome), or what was left was spliced back onto the owner\'s pending list '
                    'under the mutex; an event left on the dead on-stack list reads as queued for ever: that post and every later '
                    'one to it are never delivered' % (describe(d), what), root.q,
                    None if ok_e else (path_to(g, stranded[0]) if stranded else None))
            acc.add('R-C08h', '%s:requeued-batch-is-woken' % root.name, d['loc'], ok_w,
                    'where the rest of the batch is put back on the pending list, a wake-up of the owner (local task / raw-event '
                    'post / poll-method send) follows before the return', root.q,
                    None if ok_w else (path_to(g, unwoken[0]) if unwoken else None))
    acc.emit(ctx)


# --------------------------------------------------------------------------
# R-C08d: who enters the runner, for which state
# --------------------------------------------------------------------------

def who_runs(ctx):
    prog = ctx.prog
    ctxs, cl = h08.root_contexts(prog, h08.is_event_site, 'runner', anchor=h08.touches_event_handler)
    rts = {r.q: r for r in roles.roots(prog)}
    polls = {f.q for f in prog.slot_targets('poll')}
    acc = Acc()

    # 1. classification of every entry point from which the handler call is reachable
    # 2. an entry point whose address is taken is an installed handler: in every context that mentions it, its address is
    #    only stored into the handler field of a state's own local task / kick raw event, with that state as cookie
    kind = {}
    taken = roles.address_taken(prog)
    for q in sorted(cl):
        if q not in rts:
            continue
        r = cl[q]
        if q in polls:
            kind[q] = 'poll slot'
            det = 'poll slot (gated by the kick token, below)'
        elif q in taken:
            ninst, others = _installations(prog, r, acc)
            kind[q] = 'handler' if ninst and not others else None
            det = 'its address is used only for %d handler installations (targets and cookies checked separately)' % ninst if kind[q] else \
                'address-taken entry point with %d installations as handler and other uses: %s' % (ninst, '; '.join(others[:4]) or '-')
        elif not r.static and r.name == WRAPPER:
            kind[q] = 'wrapper'
            det = 'exported wrapper, address never taken (runs the calling thread\'s state, checked below)'
        else:
            kind[q] = None
            det = 'unexpected entry point (%s) from which the iv_event handler call is reachable' % ('static' if r.static else 'external linkage')
        ctx.ob('R-C08d', 'runner:entry:%s' % r.name, kind[q] is not None, loc=r.loc, detail=det, fn=r.q)
    if 'handler' not in kind.values():
        raise AnalysisBroken('no installed handler reaches the iv_event handler call')

    # 3. the state whose events are run: the cookie (handler roots) or the calling thread's own state
    handlers = {q for q, k in kind.items() if k == 'handler'}
    for root, g, sites in ctxs:
        for d in _detaches(g):
            X = h08.container_ptr(d['args'][0], K.PENDING)
            rv = root_var(X) if X is not None else None
            origin = 'unknown'
            if rv is not None and rv.get('vk') in ('local', 'param'):
                # (a file-scope variable keeps its value across calls and threads: of unknown origin)
                # every value the variable may hold: the root's own (never written) parameter, or iv_get_state()
                name = rv['name']
                wr = h08.written_vars(g)
                params = {p['name'] for p in root.params} - wr
                defs = [e for e in g.events() if e['ev'] == 'store' and h08.var_name(e['lhs']) == name]
                kinds_ = set()
                handed = set()
                if not defs:
                    kinds_.add('cookie' if name in params else 'unknown')
                    handed.add(name)
                for e in defs:
                    r = e.get('rhs') if e.get('op') == '=' else None
                    if r is not None and _is_own_state(r):
                        kinds_.add('own')
                    elif r is not None and h08.var_name(r) in params and name not in {p['name'] for p in root.params}:
                        kinds_.add('cookie')
                        handed.add(h08.var_name(r))
                    else:
                        kinds_.add('unknown')
                origin = 'unknown' if 'unknown' in kinds_ else ('cookie' if 'cookie' in kinds_ else 'own')
                if origin == 'cookie' and kind.get(root.q) in ('poll slot', 'wrapper') \
                        and all(_param_is_own(prog, root, pn, polls, taken, handlers=handlers) for pn in handed):
                    # not a cookie of its own: a state pointer handed down, unchanged, by callers that all obtained it
                    # from iv_get_state() -- or that are themselves installed handlers (classified above: address only
                    # ever installed as handler of a state's local task / kick raw event with that state as cookie) and
                    # pass their never-reassigned cookie on (struct iv_state is private to the library: every caller
                    # is in view)
                    origin = 'own'
            ok = origin == 'own' or (origin == 'cookie' and kind.get(root.q) == 'handler')
            acc.add('R-C08d', 'runner:runs-state-of:%s' % root.name, d['loc'], ok,
                    'entered through %s the runner detaches the pending list of %s: %s' % (
                        root.name, canon(X) if X is not None else '?',
                        {'own': 'the calling thread\'s state (iv_get_state())' if kind.get(root.q) == 'handler' or not handed else
                                'a parameter that every caller fills with iv_get_state() or, being an installed handler of the '
                                'state\'s own task / raw event, with its cookie',
                         'cookie': 'the cookie its handler was installed with (or, where the code says so, iv_get_state())'
                         if kind.get(root.q) == 'handler' else 'a parameter that not every caller fills with iv_get_state()',
                         'unknown': 'a state of unknown origin'}[origin]), root.q)

    # 4. poll slots: the handler call is reached only over an edge on which a token the kernel reported
    #    compared equal to this thread's own state
    for root, g, sites in ctxs:
        if kind.get(root.q) != 'poll slot':
            continue
        token_test = _kick_token_tests(root, g)[0]
        ev_in = _seen_or_const(g, token_test)
        for cs in sites:
            ok = ev_in.get(pt(cs)) is True
            acc.add('R-C08d', '%s:own-kick-token' % root.name, root.loc, ok,
                    'pending events are run only if a batch entry carried this thread\'s own state pointer as token', root.q,
                    None if ok else path_to(g, cs))
    acc.emit(ctx)

    # 5. every poll method that offers the kick transport consumes the kick: its poll slot reaches the runner
    for t, slots in sorted(prog.method_tables().items()):
        if not slots.get('event_send'):
            continue
        pf = prog.resolve(*slots['poll']) if slots.get('poll') else None
        ctx.ob('R-C08d', 'kick-consumer:%s' % t.replace('iv_fd_poll_method_', ''), pf is not None and kind.get(pf.q) == 'poll slot',
               loc=pf.loc if pf is not None else None,
               detail='the poll slot of a method with an event_send slot runs the pending events', fn=pf.q if pf is not None else None)


def _param_is_own(prog, f, pname, polls, taken, depth=0, handlers=frozenset()):
    """Parameter pname (a struct iv_state *) of f always carries the state whose events the entry may run: f is only
    entered by direct calls (or, for a poll slot, through method->poll) and every call passes either
    iv_get_state() -- directly or through a local that holds nothing else -- or the caller's own parameter for
    which the same holds, or the caller is an installed handler (handlers: entry points whose address is only ever
    installed as handler of a state's own local task / kick raw event, with that state as cookie: runner:installed-as,
    runner:cookie) and passes its own, never reassigned cookie parameter: the state whose wake-up fired."""
    idx = [i for i, p in enumerate(f.params) if p['name'] == pname and p.get('record') == 'iv_state']
    if not idx or depth > 4:
        return False
    idx = idx[0]
    sites = []
    if f.q in polls:
        for c in prog.all_funcs():
            sites += [(c, e) for e in c.events() if e['ev'] == 'call' and callback_kind(e) == ('method', 'poll')]
    elif f.q in taken:
        return False
    sites += [(c, e) for (c, e) in prog.callers_of(f.name) if prog.resolve(prog.unit_of(c), f.name) is f]
    if not sites:
        return False
    for (c, e) in sites:
        if len(e.get('args', [])) <= idx:
            return False
        a = e['args'][idx]
        if _is_own_state(a):
            continue
        v = h08.var_name(a)
        if v is None:
            # a cached read the core propagated: judge by the local it was cached in
            v = strip(a).get('_was') if isinstance(strip(a), dict) else None
            if v is None:
                return False
        if c.q in handlers:
            # the only parameter of a task / raw-event handler is the cookie it was installed with
            if len(c.params) == 1 and v == c.params[0]['name'] and v not in h08.written_vars(c):
                continue
            return False
        if v in h08.written_vars(c) or any(e2['ev'] == 'store' and h08.var_name(e2['lhs']) == v for e2 in c.events()):
            defs = [e2 for e2 in c.events() if e2['ev'] == 'store' and h08.var_name(e2['lhs']) == v]
            addr = any(isinstance(strip(x), dict) and strip(x).get('k') == 'addr' and h08.var_name(strip(x)['e']) == v
                       for e2 in c.events() if e2['ev'] == 'call' for x in e2.get('args', []))
            if addr or not defs or not all(d.get('op') == '=' and 'rhs' in d and _is_own_state(d['rhs']) for d in defs):
                return False
        elif not _param_is_own(prog, c, v, polls, taken, depth + 1, handlers):
            return False
    return True


def _kick_token_tests(root, g):
    """For a poll slot (inlined, normalised): (token_test, token_rel).  token_test(c, pol): the condition, taken with
    this polarity, says that a token the kernel wait reported is this thread's state (the slot's struct iv_state *
    parameter compared equal to a value read from the array the wait filled: member of epoll_event / epoll_data, or
    rooted at the array passed to epoll_wait*).  token_rel(x): +1 if the expression is true exactly when the token
    is the state, -1 if exactly when it is not, 0 otherwise."""
    stp = [p['name'] for p in root.params if p.get('record') == 'iv_state']
    if not stp:
        raise AnalysisBroken('%s: no state parameter' % root.name)
    arrays = set()
    for e in g.events():
        if e['ev'] == 'call' and e.get('callee') in WAITS:
            rv = root_var(e['args'][WAITS[e['callee']]])
            if rv is not None:
                arrays.add(rv['name'])

    def is_state(x, stp=stp):
        return isinstance(x, dict) and stp[0] in h08.spellings(x)

    def is_token(x, arrays=arrays):
        if not isinstance(x, dict) or h08.var_name(x) is not None:
            return False
        if any(y.get('k') == 'member' and y.get('record') in KERNEL_RECORDS for y in walk(x)):
            return True
        rv = root_var(x)
        return rv is not None and rv['name'] in arrays

    def token_test(c, pol=True):
        """the condition, taken with this polarity, says that a reported token is this thread's state"""
        return any(op == '==' and ((is_state(l) and is_token(r)) or (is_state(r) and is_token(l)))
                   for (op, lc, rc, l, r) in norm_cond(c, pol) if isinstance(l, dict) and isinstance(r, dict))

    def token_rel(x):
        x = strip(x)
        if not isinstance(x, dict):
            return 0
        if x.get('k') == 'load':
            return 0
        if x.get('k') == 'un' and x.get('op') == '!':
            return -token_rel(x['e'])
        if x.get('k') == 'bin' and x.get('op') in ('==', '!='):
            l, r = x['l'], x['r']
            if (is_state(l) and is_token(r)) or (is_state(r) and is_token(l)):
                return 1 if x['op'] == '==' else -1
            for a, b in ((l, r), (r, l)):
                sb = strip(b)
                if isinstance(sb, dict) and (sb.get('k') == 'null' or (sb.get('k') == 'int' and sb['v'] == 0)):
                    t = token_rel(a)
                    if t:
                        return -t if x['op'] == '==' else t
        return 0
    return token_test, token_rel



_CMP = {'==': lambda a, b: a == b, '!=': lambda a, b: a != b, '<': lambda a, b: a < b, '>': lambda a, b: a > b,
        '<=': lambda a, b: a <= b, '>=': lambda a, b: a >= b}


def _seen_or_const(g, witness):
    """Forward analysis of the invariant  SEEN or (v == c for every v -> c in Z), SEEN being `a branch condition
    or a stored comparison for which witness(cond, polarity) holds was true on the way`.  The state is True (SEEN on
    every path) or the dict Z.  A plain local v enters Z at `v = <constant>` (or a copy of a variable in Z); a store
    to v of a value that differs from its constant only when the witness comparison holds (`v = A == B`,
    `v |= A == B`, `v += A == B`) keeps the invariant; any other store removes v.  An edge whose condition
    contradicts v == c can only be taken when SEEN: the state becomes True.  This is what a flag, a counter or an
    inverted flag that records the kick looks like, whether or not flag partitioning resolved it."""
    addr_taken = {h08.var_name(x['e']) for e in g.events() for x in walk(e) if x.get('k') == 'addr'} - {None}

    def const_of(x, Z):
        x = strip(x)
        if not isinstance(x, dict):
            return None
        if x.get('k') == 'int':
            return x['v']
        if x.get('k') == 'null':
            return 0
        n = h08.var_name(x)
        if n is not None and n in Z:
            return Z[n]
        return None

    def witness_value(x):
        """x is 1 when the witness comparison holds, else 0"""
        x = strip(x)
        while isinstance(x, dict) and x.get('k') == 'un' and x.get('op') == '!' and isinstance(strip(x['e']), dict) \
                and strip(x['e']).get('k') == 'un' and strip(x['e']).get('op') == '!':
            x = strip(strip(x['e'])['e'])
        if isinstance(x, dict) and x.get('k') == 'cond':
            a, b = strip(x['a']), strip(x['b'])
            if isinstance(b, dict) and b.get('k') == 'int' and b['v'] == 0 and witness(x['c'], True):
                return True         # C ? n : 0
            if isinstance(a, dict) and a.get('k') == 'int' and a['v'] == 0 and witness(x['c'], False):
                return True         # C ? 0 : n
            return False
        return isinstance(x, dict) and x.get('k') == 'bin' and x.get('op') == '==' and witness(x, True)

    def tr(e, Z):
        if Z is True:
            return Z
        if e['ev'] == 'store':
            v = h08.var_name(e['lhs'])
            if v is None:
                return Z
            l = strip(e['lhs'])
            rhs = e.get('rhs')
            if l.get('vk') in ('local', 'param') and v not in addr_taken and rhs is not None:
                op = e.get('op')
                if op == '=':
                    c = const_of(rhs, Z)
                    if c is not None:
                        return dict(Z, **{v: c})
                    if witness_value(rhs):
                        return dict(Z, **{v: 0})
                elif v in Z and op in ('|=', '+=') and Z[v] == 0 and (witness_value(rhs) or const_of(rhs, Z) == 0):
                    return Z
                elif v in Z and op in ('&=', '*=') and Z[v] == 0:
                    return Z
            if v in Z:
                Z = {w: c for w, c in Z.items() if w != v}
            return Z
        if e['ev'] == 'decl' and e.get('name') in Z:
            return {w: c for w, c in Z.items() if w != e['name']}
        return Z

    def edge(blk, si, Z):
        if Z is True:
            return Z
        if blk.term and blk.term.get('cond') is not None and len(blk.succ) == 2 \
                and blk.term.get('cls') not in ('SwitchStmt', 'MethodDispatch'):
            if witness(blk.term['cond'], si == 0):
                return True
            for (op, lc, rc, l, r) in norm_cond(blk.term['cond'], si == 0):
                if op in _CMP and isinstance(l, dict) and h08.var_name(l) in Z:
                    k = const_of(r, Z) if isinstance(r, dict) else (int(rc) if rc.lstrip('-').isdigit() else None)
                    if k is not None and not _CMP[op](Z[h08.var_name(l)], k):
                        return True         # v == c contradicts the condition: only SEEN remains
        return Z

    def join(a, b):
        if a is True:
            return b
        if b is True:
            return a
        return {w: c for w, c in a.items() if b.get(w) == c}
    _, ev_in = forward(g, {}, tr, join, edge=edge)
    return ev_in


def _installations(prog, r, acc):
    """Uses of r's address in every entry-point context that mentions it: (#handler installations, [other uses]).
    A store into a plain local (parameter passing, caching) is not a use: reads of the local are resolved by
    h08.normalise, so the use shows up where the value ends."""
    def fref(x):
        x = strip(x)
        if isinstance(x, dict) and x.get('k') == 'addr':
            x = strip(x['e'])
        return isinstance(x, dict) and x.get('k') == 'var' and x.get('vk') == 'func' and x['name'] == r.name

    def mentions(e):
        return e['ev'] not in ('enter', 'load') and any(x.get('k') == 'var' and x.get('vk') == 'func' and x['name'] == r.name for x in walk(e))
    ictxs, _ = h08.root_contexts(prog, mentions, 'uses of the address of %s' % r.name)
    ninst, others = set(), []
    for root, g, sites in ictxs:
        for e in sites:
            if not (e['ev'] == 'store' and 'rhs' in e and fref(e['rhs'])):
                others.append('%s in %s' % (describe(e), root.name))
                continue
            if h08.var_name(e['lhs']) is not None:
                continue
            lhs = strip(e['lhs'])
            sub = strip(lhs['base']) if lhs.get('k') == 'member' and not lhs['arrow'] else None
            key = (sub.get('record'), sub['field']) if isinstance(sub, dict) and sub.get('k') == 'member' else None
            ok = lhs.get('k') == 'member' and lhs['field'] == 'handler' and key in (K.LOCAL, K.KICK)
            ninst.add(e['loc'])
            acc.add('R-C08d', 'runner:installed-as', e['loc'], ok,
                    'the runner is installed as handler of a state\'s events_local task / events_kick raw event only: %s' % describe(e), root.q)
            if not ok:
                continue
            state = h08.object_ptr(sub)
            cks = [x for x in g.events() if x['ev'] == 'store' and strip(x['lhs']).get('k') == 'member' and strip(x['lhs'])['field'] == 'cookie'
                   and not strip(x['lhs'])['arrow'] and canon(strip(x['lhs'])['base']) == canon(sub)]
            okc = bool(cks) and all('rhs' in x and h08.same(x['rhs'], state) for x in cks)
            acc.add('R-C08d', 'runner:cookie:%s' % key[1], e['loc'], okc,
                    'the cookie of %s is the state block that contains it (%s): the runner runs the events of the state whose '
                    'task / raw event fired' % (canon(sub), ', '.join(describe(x) for x in cks) or 'no cookie store'), root.q)
    return len(ninst), others


def _is_own_state(x):
    c = strip(x)
    return isinstance(c, dict) and c.get('k') == 'call' and c.get('callee') == 'iv_get_state'


# --------------------------------------------------------------------------
# R-C08i: a kick the kernel wait consumed is never forgotten
# --------------------------------------------------------------------------

def _p_lb(p):
    """lower bound c (value > c) a predicate on an integer gives, or None"""
    return p[1] - 1 if p[0] == '==' else (p[1] if p[0] == '>' else None)


def _p_ne0(p):
    return (p[0] == '==' and p[1] != 0) or (p[0] == '>' and p[1] >= 0) or (p[0] == '!=' and p[1] == 0)


def _p_weaken(a, b):
    """a predicate both imply (finite set of results: termination), or None"""
    if a is None or b is None:
        return None
    if a == b:
        return a
    la, lb = _p_lb(a), _p_lb(b)
    if la is not None and lb is not None:
        m = min(la, lb)
        if m >= 0:
            return ('>', 0)
        if m == -1:
            return ('>', -1)
    if _p_ne0(a) and _p_ne0(b):
        return ('!=', 0)
    return None


def _p_apply(p, op, k):
    """the predicate after `v op k` (k constant)"""
    if op == '=':
        return ('==', k)
    if p is None:
        return ('!=', 0) if op == '|=' and k != 0 else (('==', 0) if op in ('&=', '*=') and k == 0 else None)
    if op in ('+=', '-='):
        return (p[0], p[1] + (k if op == '+=' else -k))
    if p[0] == '==':
        c = p[1]
        try:
            return ('==', {'|=': c | k, '&=': c & k, '*=': c * k, '^=': c ^ k, '<<=': c << k, '>>=': c >> k}[op])
        except (KeyError, ValueError):
            return None
    if op == '|=':
        if k == 0:
            return p
        return ('>', 0) if k > 0 and _p_lb(p) is not None and _p_lb(p) >= -1 else ('!=', 0)
    if op in ('&=', '*=') and k == 0:
        return ('==', 0)
    return None


def _p_refutes(p, op, k):
    """`v op k` cannot hold where p holds of v"""
    if p is None:
        return False
    if p[0] == '==':
        return not _CMP[op](p[1], k)
    if p[0] == '!=':
        return op == '==' and k == p[1]
    c = p[1]                  # v > c
    return (op == '==' and k <= c) or (op == '<' and k <= c + 1) or (op == '<=' and k <= c)


_ARITH = {'+': lambda a, b: a + b, '-': lambda a, b: a - b, '|': lambda a, b: a | b, '&': lambda a, b: a & b,
          '*': lambda a, b: a * b, '&&': lambda a, b: int(bool(a) and bool(b)), '||': lambda a, b: int(bool(a) or bool(b)),
          '==': lambda a, b: int(a == b), '!=': lambda a, b: int(a != b), '<': lambda a, b: int(a < b),
          '>': lambda a, b: int(a > b), '<=': lambda a, b: int(a <= b), '>=': lambda a, b: int(a >= b)}


def _kick_owed(g, token_test, token_rel, ls):
    """Forward analysis of a poll slot, disjunctive (a bounded set of states per point, one per class of paths).
    State (OWED, U, R): OWED = on some path of the class a batch entry was identified as this thread's kick token (an
    edge, or a stored comparison, for which the token test came out true) and the pending events were not looked at
    since (the pending list sampled empty, or detached, under the owner's mutex: the DRAINED points of R-C08f);
    U = predicates (v == c, v > c, v != c) that hold on every path of the class, on the plain locals that can record
    the kick (only ever assigned constants / outcomes of the token test / each other, only ever compared with
    constants) and on the outcome of the token test for the current entry (until a variable it reads changes);
    R = predicates that hold on every path of the class on which the kick is owed: what a flag, a counter or an
    inverted flag that records the kick looks like.  An edge whose condition is refuted by U is not taken, one
    refuted by R is taken only where nothing is owed; a store that overwrites the recording local loses the record,
    and the owed kick then survives the branch that decides whether the events are run.
    Returns (instate, ev_in, number of places at which the token test is observed); a state set is a frozenset of
    (owed, U items, R items)."""
    addr_taken = {h08.var_name(x['e']) for e in g.events() for x in walk(e) if x.get('k') == 'addr'} - {None}
    ptr, pedge = _pending_known_empty(g, ls, transfer_only=True)
    observed = set()
    CAP = 8

    def tok(x):
        """(sign, key) of an expression that is true exactly when (sign > 0) / exactly when not (sign < 0) the token
        of the current entry is the state; key names the comparison"""
        sg = token_rel(x)
        if not sg:
            return 0, None
        y = strip(x)
        while True:
            if y.get('k') == 'un':
                y = strip(y['e'])
                continue
            l, r = strip(y['l']), strip(y['r'])
            if token_rel(y['l']):
                y = l
                continue
            if token_rel(y['r']):
                y = r
                continue
            break
        return sg, '$tok:' + ' == '.join(sorted((canon(y['l']), canon(y['r']))))

    def mentions_token(x):
        return any(token_rel(y) for y in walk(x) if isinstance(y, dict) and y.get('k') in ('bin', 'un'))

    # the locals that can record the kick
    def plain(lhs):
        v = h08.var_name(lhs)
        l = strip(lhs)
        if v is None or not isinstance(l, dict) or l.get('vk') not in ('local', 'param') or v in addr_taken:
            return None
        return v
    stores = {}
    for e in g.events():
        if e['ev'] == 'store' and plain(e['lhs']) is not None:
            stores.setdefault(plain(e['lhs']), []).append(e)

    def simple_rhs(x, cand):
        x = strip(x)
        if not isinstance(x, dict):
            return False
        k = x.get('k')
        if k in ('int', 'null'):
            return True
        if k == 'load':
            return simple_rhs(x['e'], cand)
        n = h08.var_name(x)
        if n is not None:
            return n in cand
        if token_rel(x):
            return True
        if k == 'un':
            return simple_rhs(x['e'], cand)
        if k == 'bin' and x.get('op') in _ARITH:
            return simple_rhs(x['l'], cand) and simple_rhs(x['r'], cand)
        if k == 'cond':
            return simple_rhs(x['c'], cand) and simple_rhs(x['a'], cand) and simple_rhs(x['b'], cand)
        return False
    cand = set(stores)
    for blk in g.blocks.values():
        t = blk.term
        if t and t.get('cond') is not None and t.get('cls') not in ('SwitchStmt', 'MethodDispatch'):
            for (op, lc, rc, l, r) in norm_cond(t['cond'], True):
                v = h08.var_name(l) if isinstance(l, dict) else None
                if v in cand and not (isinstance(rc, str) and rc.lstrip('-').isdigit()) \
                        and not (isinstance(r, dict) and strip(r).get('k') in ('int', 'null')):
                    cand.discard(v)
    while True:
        drop = {v for v in cand if not all(e.get('op') in ('++', '--') or ('rhs' in e and simple_rhs(e['rhs'], cand)) for e in stores[v])}
        if not drop:
            break
        cand -= drop

    def tracked(lhs):
        v = plain(lhs)
        return v if v in cand else None

    def pick(x, matched, env):
        """the sub-expression a conditional expression selects"""
        x = strip(x)
        while isinstance(x, dict) and x.get('k') == 'cond':
            c = ev(x['c'], matched, env)
            if c is None:
                break
            x = strip(x['a'] if c else x['b'])
        return x

    def ev(x, matched, env):
        x = strip(x)
        if not isinstance(x, dict):
            return None
        k = x.get('k')
        if k == 'int':
            return x['v']
        if k == 'null':
            return 0
        if k == 'load':
            return ev(x['e'], matched, env)
        n = h08.var_name(x)
        if n is not None:
            p = env.get(n)
            return p[1] if p is not None and p[0] == '==' else None
        sg, key = tok(x)
        if sg:
            if matched is None:
                p = env.get(key)
                if p is None or p[0] != '==':
                    return None
                matched = bool(p[1])
            return int(matched == (sg > 0))
        if k == 'un':
            a = ev(x['e'], matched, env)
            if a is None:
                return None
            return {'!': int(not a), '-': -a, '~': ~a, '+': a}.get(x.get('op'))
        if k == 'bin' and x.get('op') in _ARITH:
            a, b = ev(x['l'], matched, env), ev(x['r'], matched, env)
            if x['op'] == '&&' and (a == 0 or b == 0):
                return 0
            if x['op'] == '||' and ((a is not None and a != 0) or (b is not None and b != 0)):
                return 1
            if a is None or b is None:
                return None
            return _ARITH[x['op']](a, b)
        if k == 'cond':
            y = pick(x, matched, env)
            return ev(y, matched, env) if y is not x and not (isinstance(y, dict) and y.get('k') == 'cond') else None
        return None

    def norm_p(p):
        return ('>', 0) if p is not None and p[0] == '>' and p[1] > 0 else p

    def eff(st):
        o, U, R = st
        return dict(U, **R) if o else U

    def seen(st):
        return (True, st[1], dict(st[1]))

    def served(st):
        return (False, st[1], {})

    def join1(a, b):
        U = {}
        for v in a[1]:
            if v in b[1]:
                w = _p_weaken(a[1][v], b[1][v])
                if w is not None:
                    U[v] = w
        if not a[0] and not b[0]:
            return (False, U, {})
        if a[0] and b[0]:
            ea, eb = eff(a), eff(b)
            R = {}
            for v in ea:
                if v in eb:
                    w = _p_weaken(ea[v], eb[v])
                    if w is not None:
                        R[v] = w
            return (True, U, R)
        o = a if a[0] else b
        return (True, U, dict(eff(o)))

    def p_implies(p, q):
        return p is not None and (p == q or _p_weaken(p, q) == q)

    def implies(x, y):
        """every concrete situation x describes is described by y"""
        if x[0] and not y[0]:
            return False
        if not all(p_implies(x[1].get(v), q) for v, q in y[1].items()):
            return False
        if y[0] and x[0]:
            ex = eff(x)
            return all(p_implies(ex.get(v), q) for v, q in y[2].items())
        return True

    def freeze(st):
        return (st[0], tuple(sorted(st[1].items())), tuple(sorted(st[2].items())))

    def thaw(f):
        return (f[0], dict(f[1]), dict(f[2]))

    def reduce_(sts):
        out = []
        for x in sts:
            if any(implies(x, y) for y in out):
                continue
            out = [y for y in out if not implies(y, x)] + [x]
        if len(out) > CAP:
            # widening: first merge the states that agree on OWED and on the outcome of the token test for the current
            # entry (counters lose their exact values), then, if that is not enough, everything
            groups = {}
            for x in out:
                gk = (x[0], tuple(sorted((w, p) for w, p in x[1].items() if w.startswith('$tok:'))))
                groups[gk] = join1(groups[gk], x) if gk in groups else x
            out = []
            for gk in sorted(groups, key=repr):
                x = groups[gk]
                if any(implies(x, y) for y in out):
                    continue
                out = [y for y in out if not implies(y, x)] + [x]
            if len(out) > CAP:
                j = out[0]
                for y in out[1:]:
                    j = join1(j, y)
                out = [j]
        return frozenset(freeze(x) for x in out)

    def forget(st, n):
        def keep(w):
            return w != n and not (w.startswith('$tok:') and _mentions_var(w, n))
        return (st[0], {w: p for w, p in st[1].items() if keep(w)}, {w: p for w, p in st[2].items() if keep(w)})

    def setv(st, v, fU, fR):
        """new predicates of v: fU from its unconditional one, fR from the one that holds where the kick is owed"""
        o, U, R = st
        e = eff(st)
        nU, nR = norm_p(fU(U.get(v))), (norm_p(fR(e.get(v))) if o else None)
        st = forget((o, U, dict(e) if o else {}), v)
        if nU is not None:
            st[1][v] = nU
        if nR is not None:
            st[2][v] = nR
        return st

    def assign(st, v, op, rhs, matched):
        if op in ('++', '--'):
            o2 = '+=' if op == '++' else '-='
            return setv(st, v, lambda p: _p_apply(p, o2, 1) if p else None, lambda p: _p_apply(p, o2, 1) if p else None)
        if rhs is None:
            return setv(st, v, lambda p: None, lambda p: None)
        src = pick(rhs, matched, st[1])
        if op == '=' and isinstance(src, dict) and h08.var_name(src) is not None:
            w = h08.var_name(src)
            pu, pr = st[1].get(w), eff(st).get(w)
            return setv(st, v, lambda p: pu, lambda p: pr)
        kU, kR = ev(rhs, matched, st[1]), ev(rhs, matched, eff(st))
        return setv(st, v, lambda p: _p_apply(p, op, kU) if kU is not None else None,
                    lambda p: _p_apply(p, op, kR) if kR is not None else None)

    def with_tok(st, keys, val):
        st = (st[0], dict(st[1]), dict(st[2]))
        for k in keys:
            st[1][k] = ('==', int(val))
            if st[0]:
                st[2][k] = ('==', int(val))
        return st

    def tr1(e, st):
        if e['ev'] == 'store':
            rhs, op = e.get('rhs'), e.get('op')
            has_tok = rhs is not None and mentions_token(rhs)
            keys = sorted({tok(y)[1] for y in walk(rhs) if isinstance(y, dict) and y.get('k') in ('bin', 'un') and token_rel(y)}) if has_tok else []
            v = tracked(e['lhs'])
            n = h08.var_name(e['lhs'])
            if has_tok:
                observed.add(e['loc'])
                if len(keys) == 1 and st[1].get(keys[0], ('?',))[0] == '==':
                    cases = [bool(st[1][keys[0]][1])]             # outcome already known on these paths
                else:
                    cases = [False, True]
                out = []
                for m in cases:
                    s2 = seen(st) if m else st
                    s2 = with_tok(s2, keys, m)
                    if v is not None:
                        s2 = assign(s2, v, op, rhs, m)
                    elif n is not None:
                        s2 = forget(s2, n)        # the outcome went somewhere that is not followed
                    out.append(s2)
                return out
            if v is not None:
                return [assign(st, v, op, rhs, None)]
            if n is not None:
                return [forget(st, n)]
            return [st]
        if e['ev'] == 'decl':
            return [forget(st, e['name'])] if e.get('name') else [st]
        if e['ev'] == 'call':
            if e.get('callee') in WAITS:
                st = (st[0], {w: p for w, p in st[1].items() if not w.startswith('$tok:')},
                      {w: p for w, p in st[2].items() if not w.startswith('$tok:')})
            if st[0] and ptr(e, (frozenset(), False))[1]:
                return [served(st)]
            return [st]
        return [st]

    def edge1(blk, si, st):
        t = blk.term
        if not (t and t.get('cond') is not None and len(blk.succ) == 2 and t.get('cls') not in ('SwitchStmt', 'MethodDispatch')):
            return st
        pol = si == 0
        sg, key = tok(t['cond'])
        if sg:
            observed.add(t.get('loc') or ('blk', blk.id))
            m = (sg > 0) == pol
            p = st[1].get(key)
            if p is not None and p[0] == '==' and bool(p[1]) != m:
                return None                                  # the same comparison came out the other way for this entry
            if m:
                st = seen(st)
            st = with_tok(st, [key], m)
        elif token_test(t['cond'], pol):
            observed.add(t.get('loc') or ('blk', blk.id))
            st = seen(st)
        if st[0] and pedge(blk, si, (frozenset(), False))[1]:
            st = served(st)
        for (op, lc, rc, l, r) in norm_cond(t['cond'], pol):
            if op not in _CMP or not isinstance(l, dict):
                continue
            v = h08.var_name(l)
            if v is None or v not in cand:
                continue
            k = ev(r, None, st[1]) if isinstance(r, dict) else (int(rc) if isinstance(rc, str) and rc.lstrip('-').isdigit() else None)
            if k is None:
                continue
            if _p_refutes(st[1].get(v), op, k):
                return None                                  # not taken at all
            if st[0] and _p_refutes(eff(st).get(v), op, k):
                st = served(st)                              # taken only where no kick is owed
            if op == '==':
                st = setv(st, v, lambda p, k=k: ('==', k), lambda p, k=k: ('==', k))
        return st

    def tr(e, S):
        return reduce_([s2 for f in sorted(S, key=repr) for s2 in tr1(e, thaw(f))])

    def edge(blk, si, S):
        out = [s2 for s2 in (edge1(blk, si, thaw(f)) for f in sorted(S, key=repr)) if s2 is not None]
        return reduce_(out) if out else None

    def join(A, B):
        return reduce_([thaw(f) for f in sorted(A | B, key=repr)])
    instate, ev_in = forward(g, frozenset([freeze((False, {}, {}))]), tr, join, edge=edge)
    return instate, ev_in, len(observed)


def kick_not_forgotten(ctx):
    prog = ctx.prog
    ctxs, cl = h08.root_contexts(prog, h08.is_event_site, 'runner', anchor=h08.touches_event_handler)
    polls = {f.q for f in prog.slot_targets('poll')}
    slots = [(root, g) for (root, g, sites) in ctxs if root.q in polls]
    if not slots:
        if any(s.get('event_send') for s in prog.method_tables().values()):
            raise AnalysisBroken('a poll method offers the kick transport (event_send) but no poll slot reaches the runner')
        return
    acc = Acc()
    for root, g in slots:
        token_test, token_rel = _kick_token_tests(root, g)
        ls = locksets(g)
        instate, ev_in, nobs = _kick_owed(g, token_test, token_rel, ls)
        if not nobs:
            raise AnalysisBroken('%s: no batch entry is compared with this thread\'s kick token' % root.name)
        rets = [(e, ev_in[(pb, pi)]) for (pb, pi, e) in exits_of(g) if (pb, pi) in ev_in]
        final = instate.get(g.exit)
        if final is None and not rets:
            raise AnalysisBroken('%s: no return reachable' % root.name)
        bad = [e for (e, s) in rets if any(f[0] for f in s)]
        ok = not bad and not (final is not None and any(f[0] for f in final))
        acc.add('R-C08i', '%s:seen-kick-runs-events' % root.name, root.loc, ok,
                'on every path on which an entry of the batch the kernel wait returned was identified as this thread\'s kick '
                'token (the one-shot kick is thereby used up), the pending list is looked at under the owner\'s mutex (the pending-'
                'event runner is entered) before the slot returns -- wherever in the batch the kick was: what records it (flag, '
                'counter) is not cleared or overwritten by a later entry%s' % (
                    '' if ok else '; a kick consumed without running the events leaves them queued, and every later post finds '
                                  'the list non-empty and sends no kick: the owner blocks with undelivered posts (the path printed '
                                  'is a shortest one to the return concerned; meant are those that pass a kick entry of the batch first)'),
                root.q, None if ok else (path_to(g, bad[0]) if bad else None))
    acc.emit(ctx)
