"""Helpers of the C18 rules (memory/descriptor hygiene).

Everything in here is property-independent machinery that the C18 rules need and the shared
core does not (yet) offer:

  holding2      branch-atom must analysis; like analyses.holding, but an atom spelled with a
                *caching local* (`idx` for `fd->u.index`) depends on that local only
  View          one function (plain, with helpers inlined, or a root with everything inlined)
                with its atoms, definitions, value ranges, single-definition resolution
  site_verdict  evaluates a site obligation in the function itself, then with its helpers
                inlined, then in every calling context (public/handler roots) that reaches it
  path_states   disjunctive forward analysis (fact x abstract return-value environment)
  path_key      structural identity of an access path (record/field steps, no variable names)
"""
import re

from ..core import (AnalysisBroken, canon, strip, strip_load, walk, norm_cond, forward, last_member,
                    lvalue_steps, names_of, field_chain)
from ..analyses import _mem_keys, atoms_imply, aval, refine, relevant_vars, _envkey, callback_kind
from .. import roles

INF = float('inf')


# --------------------------------------------------------------------------
# structural identity of access paths
# --------------------------------------------------------------------------

def path_key(x):
    """(record, field) steps of an access path `v->a.b.c` / `g.a.b`, without the spelling of the
    root variable: two functions that name their state parameter differently agree on it."""
    x = strip(x)
    if not isinstance(x, dict) or x.get('k') != 'member':
        return None
    base, chain = field_chain(x)
    if not chain:
        return None
    b = strip(base) if isinstance(base, dict) else None
    root = None
    if isinstance(b, dict) and b.get('k') == 'var' and b.get('vk') in ('global', 'staticlocal'):
        root = b['name']
    return (root,) + tuple(chain)


def var_name(x):
    x = strip(x)
    if isinstance(x, dict) and x.get('k') == 'var' and x.get('vk') != 'func':
        return x['name']
    return None


def intlit(s):
    try:
        return int(s)
    except (TypeError, ValueError):
        return None


# --------------------------------------------------------------------------
# atoms that hold (local equivalent of analyses.holding with per-spelling kill keys)
# --------------------------------------------------------------------------

def _akeys(name, expr):
    """kill keys of one operand of an atom that is spelled `name`: when `name` is the local the
    value was cached in (copy propagation replaced its read), the atom speaks about that local."""
    if not isinstance(expr, dict):
        return set()
    if name != canon(expr) and name in names_of(expr):
        return {('var', name)}
    return _mem_keys(expr)


def _unsigned_cast(x):
    while isinstance(x, dict) and x.get('k') in ('load', 'cast', 'paren', 'stmtexpr') and isinstance(x.get('e'), dict):
        if x.get('k') == 'cast' and '*' not in str(x.get('to', '')) and type_range(str(x.get('to', '')))[0] == 0:
            return True
        x = x['e']
    return False


def _pure_path(x):
    for y in walk(x):
        if y.get('k') in ('call', 'assign', 'incdec', 'stmtexpr', 'other', 'deep', 'va_arg', 'cond'):
            return False
    return True


def holding2(fn, user_call_kills=True):
    def gen(blk, si):
        atoms = []
        if blk.term and len(blk.succ) == 2 and blk.term.get('cls') not in ('SwitchStmt', 'MethodDispatch'):
            c = blk.term.get('cond')
            if c is not None:
                for (op, lc, rc, l, r) in norm_cond(c, si == 0):
                    if op == 'const':
                        continue
                    atoms.append((op, lc, rc, frozenset(_akeys(lc, l) | _akeys(rc, r))))
                    # `(unsigned)x < c`: the comparison is made on the converted value, so x is non-negative too
                    n = intlit(rc)
                    if n is not None and n >= 0 and (op in ('<', '<=') or (op == '==')) and _unsigned_cast(l):
                        atoms.append(('>=', lc, '0', frozenset(_akeys(lc, l))))
        return atoms

    def transfer(e, S):
        if S is None:
            return S
        ev = e['ev']
        if ev == 'store':
            l = strip(e['lhs'])
            kills = set(lvalue_steps(e['lhs']))
            if l.get('k') == 'var':
                kills.add(('var', l['name']))
            if l.get('k') in ('deref', 'index'):
                kills.add(('mem', '*'))
            if not kills:
                lm = last_member(e['lhs'])
                if lm:
                    kills.add(lm)
            rc_ = canon(e['rhs']) if 'rhs' in e and e['op'] == '=' else None
            S2 = frozenset(a for a in S if not (a[3] & kills) or (rc_ is not None and a[1] == rc_ and a[2].lstrip('-').isdigit()))
            if e['op'] == '=' and 'rhs' in e:
                v0 = strip(e['rhs'])
                if isinstance(v0, dict) and v0.get('k') == 'incdec' and v0['op'] == '++' and not v0['prefix']:
                    S2 = S2 | {('from++', canon(e['lhs']), canon(v0['e']), frozenset(_mem_keys(e['lhs'])))}
                lkeys = frozenset({('var', l['name'])}) if l.get('k') == 'var' else frozenset(_mem_keys(e['lhs']))
                if isinstance(v0, dict) and v0.get('k') in ('int', 'null'):
                    S2 = S2 | {('==', canon(e['lhs']), '0' if v0.get('k') == 'null' else str(v0['v']), lkeys)}
                if isinstance(v0, dict) and v0.get('k') == 'member' and l.get('k') == 'var' and _pure_path(v0):
                    # a local caching a memory read: equal until either side is written
                    S2 = S2 | {('==', l['name'], canon(v0), frozenset({('var', l['name'])} | _mem_keys(v0)))}
                if isinstance(v0, dict) and v0.get('k') in ('var', 'member'):
                    vc = canon(v0)
                    for a in S:
                        if a[1] == vc and a[2].lstrip('-').isdigit() and a[0] in ('==', '!=', '<', '<=', '>', '>='):
                            S2 = S2 | {(a[0], canon(e['lhs']), a[2], lkeys)}
                        if a[0] == 'from++' and a[1] == vc:
                            S2 = S2 | {('from++', canon(e['lhs']), a[2], lkeys)}
            return S2
        if ev == 'decl' and 'init' in e:
            return frozenset(a for a in S if ('var', e['name']) not in a[3])
        if ev == 'call':
            if 'fnexpr' in e and user_call_kills and (callback_kind(e) or ('?',))[0] != 'method':
                # user code runs (a poll-method slot is library code: like a direct call)
                return frozenset(a for a in S if all(k[0] == 'var' for k in a[3]))
            ks = set()
            for a in e.get('args', []):
                a = strip(a)
                if isinstance(a, dict) and a.get('k') == 'addr':
                    v = strip(a['e'])
                    if isinstance(v, dict) and v.get('k') == 'var':
                        ks.add(('var', v['name']))
            if ks:
                return frozenset(a for a in S if not (a[3] & ks))
        return S

    def edge(blk, si, S):
        g = gen(blk, si)
        return (S | frozenset(g)) if g else S

    _, ev_in = forward(fn, frozenset(), transfer, lambda a, b: a & b, edge=edge)
    return ev_in


# --------------------------------------------------------------------------
# views
# --------------------------------------------------------------------------

TYPE_SIZE = {'char': 1, 'signed char': 1, 'unsigned char': 1, 'uint8_t': 1, 'short': 2, 'unsigned short': 2, 'uint16_t': 2,
             'int': 4, 'unsigned int': 4, 'uint32_t': 4, 'uint64_t': 8, 'long': 8, 'unsigned long': 8, 'size_t': 8, 'ssize_t': 8}


def type_range(t):
    t = (t or '').replace('const ', '').replace('volatile ', '').strip()
    if t in ('unsigned char', 'uint8_t'):
        return (0, 255)
    if t in ('unsigned short', 'uint16_t'):
        return (0, 65535)
    if t in ('_Bool', 'bool'):
        return (0, 1)
    if t.startswith('unsigned') or t in ('uint32_t', 'uint64_t', 'size_t', '__u32', '__u64', 'uintptr_t', 'nfds_t'):
        return (0, INF)
    return (-INF, INF)


def array_type(t):
    """('char', 1024) for 'char[1024]'; None for anything else (pointers, VLAs)."""
    m = re.match(r'^(.*?)\s*\[(\d+)\]$', (t or '').strip())
    if not m:
        return None
    return m.group(1).replace('const ', '').strip(), int(m.group(2))


class View:
    """A function as the rules look at it: atoms, definitions of locals, value ranges."""

    def __init__(self, g, prog=None):
        self.g = g
        self.prog = prog
        self.hd = holding2(g)
        self.defs = {}
        self.escaped = set()
        self.decl = {}
        self.expr_of = {}
        self.root_params = {p['name'] for p in getattr(g, 'params', [])}
        for e in g.events():
            for x in walk(e):
                if x.get('k') == 'addr':
                    v = strip(x['e'])
                    if isinstance(v, dict) and v.get('k') == 'var':
                        self.escaped.add(v['name'])
            if e['ev'] == 'store':
                n = var_name(e['lhs']) if strip(e['lhs']).get('k') == 'var' else None
                if n:
                    self.defs.setdefault(n, []).append(e)
                    r0 = strip(e.get('rhs')) if 'rhs' in e else None
                    if isinstance(r0, dict) and r0.get('k') == 'member':
                        self.expr_of.setdefault(canon(r0), r0)
            elif e['ev'] == 'decl':
                self.decl[e['name']] = e
        for b in g.blocks.values():
            c = b.term.get('cond') if b.term else None
            if c is None:
                continue
            for (op, lc, rc, l, r) in norm_cond(c, True) + norm_cond(c, False):
                if op == 'const':
                    continue
                if isinstance(l, dict) and lc == canon(l):
                    self.expr_of.setdefault(lc, l)
                if isinstance(r, dict) and rc == canon(r):
                    self.expr_of.setdefault(rc, r)
        self._after_dec = {}

    # -- atoms -----------------------------------------------------------------
    def atoms(self, point):
        return self.hd.get(point) or frozenset()

    def at(self, e):
        return self.atoms((e['_b'], e['_i']))

    def spellings(self, x):
        out = set(names_of(x)) if isinstance(x, dict) else set()
        out.add(canon(x))
        s = strip(x)
        if isinstance(s, dict):
            out |= set(names_of(s))
        return out

    def expr_named(self, name):
        """expression an atom operand spelled `name` stands for (a branch operand or a local)"""
        if name in self.expr_of:
            return self.expr_of[name]
        if name in self.defs or name in self.decl:
            d = self.decl.get(name, {})
            return {'k': 'var', 'name': name, 'vk': 'local', 'type': d.get('type', '')}
        return None

    # -- definitions -----------------------------------------------------------
    def is_plain_local(self, x):
        x = strip(x)
        return isinstance(x, dict) and x.get('k') == 'var' and x.get('vk') in ('local', 'param') \
            and x['name'] not in self.escaped and x['name'] not in self.root_params

    def resolve(self, x, seen=()):
        """value-carrying core of x with single-definition locals replaced by what they were assigned
        (flow-insensitive: the value *at the time of that one assignment*)."""
        x = strip(x)
        n = 0
        while self.is_plain_local(x) and n < 8:
            ds = self.defs.get(x['name'], [])
            if len(ds) != 1 or ds[0].get('op') != '=' or 'rhs' not in ds[0] or x['name'] in seen:
                break
            seen = seen + (x['name'],)
            x = strip(ds[0]['rhs'])
            n += 1
        return x

    def sole_def(self, x):
        x = strip(x)
        if self.is_plain_local(x):
            ds = self.defs.get(x['name'], [])
            if len(ds) == 1 and ds[0].get('op') == '=' and 'rhs' in ds[0]:
                return ds[0]
        return None

    # -- value ranges ----------------------------------------------------------
    def range(self, expr, point, seen=frozenset()):
        """[lo, hi] enclosing every value expr can have at `point`: interval evaluation of the
        expression (constants, ?:, masks, arithmetic, locals through all their definitions)
        intersected with the branch atoms that hold at the point under any spelling of expr."""
        lo, hi = self._raw(expr, point, seen)
        names = self.spellings(expr)
        for a in self.atoms(point):
            op, side = a[0], None
            if a[1] in names:
                side, other = 'l', a[2]
            elif a[2] in names and op in ('<', '<=', '>', '>=', '=='):
                side, other = 'r', a[1]
                op = {'<': '>', '<=': '>=', '>': '<', '>=': '<=', '==': '=='}[op]
            if side is None or op not in ('<', '<=', '>', '>=', '==', '!='):
                continue
            n = intlit(other)
            if n is not None:
                olo = ohi = n
            else:
                if other in seen or op == '!=':
                    continue
                oe = self.expr_named(other)
                if oe is None:
                    continue
                olo, ohi = self.range(oe, point, seen | names | {other})
            if op == '<':
                hi = min(hi, ohi - 1)
            elif op == '<=':
                hi = min(hi, ohi)
            elif op == '>':
                lo = max(lo, olo + 1)
            elif op == '>=':
                lo = max(lo, olo)
            elif op == '==':
                lo, hi = max(lo, olo), min(hi, ohi)
            elif op == '!=' and n is not None:
                if lo == n:
                    lo += 1
                if hi == n:
                    hi -= 1
        return lo, hi

    def _raw(self, expr, point, seen):
        x = expr
        while isinstance(x, dict) and x.get('k') in ('load', 'stmtexpr', 'paren') and 'e' in x:
            x = x['e']
        if not isinstance(x, dict):
            return (-INF, INF)
        k = x.get('k')
        if k == 'cast':
            lo, hi = self.range(x['e'], point, seen)
            to = str(x.get('to', ''))
            if '*' in to:
                return (-INF, INF)
            tlo, thi = type_range(to)
            if lo < tlo or hi > thi:          # a narrowing/sign-changing conversion may wrap
                return (tlo, thi)
            return (lo, hi)
        if k == 'int':
            return (x['v'], x['v'])
        if k == 'null':
            return (0, 0)
        if k == 'cond':
            a = self.range(x['a'], point, seen)
            b = self.range(x['b'], point, seen)
            return (min(a[0], b[0]), max(a[1], b[1]))
        if k == 'un':
            if x['op'] == '!':
                return (0, 1)
            if x['op'] == '-':
                lo, hi = self.range(x['e'], point, seen)
                return (-hi, -lo)
            if x['op'] == '+':
                return self.range(x['e'], point, seen)
            return type_range(x.get('type'))
        if k == 'incdec':
            lo, hi = self.range(x['e'], point, seen)
            if x.get('prefix'):
                d = 1 if x['op'] == '++' else -1
                return (lo + d, hi + d)
            return (lo, hi)
        if k == 'bin':
            op = x['op']
            if op in ('==', '!=', '<', '>', '<=', '>=', '&&', '||'):
                return (0, 1)
            l = self.range(x['l'], point, seen)
            r = self.range(x['r'], point, seen)
            res = None
            if op == '&':
                c = [v for v in (l, r) if v[0] == v[1] and v[0] >= 0]
                if c:
                    res = (0, min(v[1] for v in c))
                elif l[0] >= 0 and r[0] >= 0:
                    res = (0, min(l[1], r[1]))
                elif l[0] >= 0:
                    res = (0, l[1])
                elif r[0] >= 0:
                    res = (0, r[1])
            elif op == '+':
                res = (l[0] + r[0], l[1] + r[1])
            elif op == '-':
                res = (l[0] - r[1], l[1] - r[0])
            elif op == '*' and l[0] >= 0 and r[0] >= 0:
                res = (l[0] * r[0], (l[1] * r[1]) if INF not in (l[1], r[1]) else INF)
            elif op == '/' and r[0] == r[1] and r[0] > 0 and l[0] >= 0:
                res = (l[0] // r[0], l[1] if l[1] == INF else l[1] // r[0])
            elif op == '%' and r[0] == r[1] and r[0] > 0:
                res = (0, r[0] - 1) if l[0] >= 0 else (-(r[0] - 1), r[0] - 1)
            elif op == '>>' and l[0] >= 0 and r[0] == r[1] and 0 <= r[0] < 64:
                res = (l[0] >> r[0], l[1] if l[1] == INF else l[1] >> r[0])
            elif op == '<<' and l[0] >= 0 and r[0] == r[1] and 0 <= r[0] < 31 and l[1] != INF:
                res = (l[0] << r[0], l[1] << r[0])
            tr = type_range(x.get('type'))
            if res is None or res[0] != res[0] or res[1] != res[1]:      # None or NaN (inf - inf)
                return tr
            if res[0] < tr[0] or res[1] > tr[1]:
                return tr                     # unsigned wrap-around
            return res
        if k == 'var':
            tr = type_range(x.get('type') or self.decl.get(x['name'], {}).get('type'))
            name = x['name']
            if not self.is_plain_local(x) or name in seen:
                return tr
            ds = self.defs.get(name)
            if not ds:
                return tr
            lo, hi, up, down = INF, -INF, False, False
            for d in ds:
                op = d.get('op')
                if op == '=' and 'rhs' in d:
                    r = self.range(d['rhs'], (d['_b'], d['_i']), seen | {name})
                    lo, hi = min(lo, r[0]), max(hi, r[1])
                elif op == '++':
                    up = True
                elif op == '--':
                    down = True
                elif op in ('+=', '-=') and 'rhs' in d:
                    r = self.range(d['rhs'], (d['_b'], d['_i']), seen | {name})
                    if r[0] >= 0:
                        up, down = (up or op == '+='), (down or op == '-=')
                    elif r[1] <= 0:
                        up, down = (up or op == '-='), (down or op == '+=')
                    else:
                        return tr
                else:
                    return tr
            if lo == INF:
                return tr
            if up:
                hi = INF
            if down:
                lo = -INF
            return (max(lo, tr[0]), min(hi, tr[1]))
        return type_range(x.get('type'))

    def implies_ne(self, expr, point, n):
        A = self.atoms(point)
        return any(atoms_imply(A, '!=', s, str(n)) for s in self.spellings(expr))

    # -- capacity of the object an expression designates -------------------------
    def capacity(self, x):
        """(elements, element size in bytes, symbolic element count or None) of the object the pointer value x
        designates: a local/global array (decays), `&scalar`, `&array[0]`.  None when unknown (heap, parameter)."""
        x = self.resolve(x)
        if not isinstance(x, dict):
            return None
        if x.get('k') == 'addr':
            t = strip(x['e'])
            if isinstance(t, dict) and t.get('k') == 'index' and strip(t['idx']).get('k') == 'int' and strip(t['idx'])['v'] == 0:
                return self.capacity(t['base'])
            if isinstance(t, dict) and t.get('k') in ('var', 'member'):
                ty = (t.get('type') or self.decl.get(t.get('name'), {}).get('type') or '').replace('const ', '').strip()
                at = array_type(ty)
                if at:
                    return None
                sz = TYPE_SIZE.get(ty)
                if sz is None and t.get('record') and not t.get('ptr') and self.prog is not None:
                    sz = self.prog.records.get(t['record'], {}).get('size')
                if sz is None and t.get('trecord') and not t.get('tptr') and self.prog is not None:
                    sz = self.prog.records.get(t['trecord'], {}).get('size')
                if '*' in ty:
                    sz = 8
                return (1, sz, None)
            return None
        if x.get('k') in ('var', 'member'):
            ty = x.get('type') or self.decl.get(x.get('name'), {}).get('type') or ''
            at = array_type(ty)
            if at:
                esz = TYPE_SIZE.get(at[0])
                if esz is None and '*' in at[0]:
                    esz = 8
                if esz is None and at[0].startswith('struct ') and self.prog is not None:
                    esz = self.prog.records.get(at[0][7:].strip(), {}).get('size')
                return (at[1], esz, None)
            d = self.decl.get(x.get('name')) if x.get('k') == 'var' else None
            if d is not None and 'vla_size' in d:
                return (None, None, d['vla_size'])
        return None

    def array_id(self, base):
        """identity of the array a subscript/pointer argument designates: the state field it lives in
        (record/field path) or the local/global array variable."""
        b = self.resolve(strip_load(base) if isinstance(base, dict) else base)
        if isinstance(b, dict) and b.get('k') == 'addr':
            t = strip(b['e'])
            if isinstance(t, dict) and t.get('k') == 'index':
                b = self.resolve(t['base'])
        if isinstance(b, dict) and b.get('k') == 'member':
            pk = path_key(b)
            return ('field',) + pk if pk else None
        if isinstance(b, dict) and b.get('k') == 'var':
            return ('var', b['name'])
        return None


def view_of(prog, g):
    cache = prog.__dict__.setdefault('_h18_views', {})
    v = cache.get(id(g))
    if v is None or v.g is not g:
        v = cache[id(g)] = View(g, prog)
    return v


# --------------------------------------------------------------------------
# site obligations in calling context
# --------------------------------------------------------------------------

def own_events(g, fq):
    """events of function fq inside (possibly inlined) g"""
    for e in g.events():
        if e.get('fn', fq) == fq:
            yield e


def site_verdict(prog, f, collect, prove):
    """Evaluate the site obligations of source function f.

       collect(view, events) -> {site key: [site, ...]}    (sites found among the given events)
       prove(view, site)     -> (proof text or None, detail text)

    A site is discharged when it has a proof in f taken alone (no assumption about callers), or
    in f with its helpers inlined (their results and effects visible), or -- for a helper --
    in *every* public/handler root from which it is reachable, with everything inlined.
    Returns {key: (site in f, proof or None, detail, view kind)}."""
    v1 = view_of(prog, f)
    sites = collect(v1, list(f.events()))
    out = {}
    pending = {}
    for key, copies in sites.items():
        res = [prove(v1, s) for s in copies]
        if all(r[0] for r in res):
            out[key] = (copies[0], res[0][0], res[0][1], 'function')
        else:
            pending[key] = (copies[0], [r for r in res if not r[0]][0][1])
    if not pending:
        return out
    # with helpers inlined
    try:
        g2 = roles.inlined(prog, f)
        v2 = view_of(prog, g2)
        s2 = collect(v2, [e for e in g2.events() if not e.get('chain')])
    except AnalysisBroken:
        s2 = {}
    for key in list(pending):
        copies = s2.get(key)
        if copies:
            res = [prove(v2, s) for s in copies]
            if all(r[0] for r in res):
                out[key] = (pending[key][0], res[0][0], res[0][1], 'function with helpers inlined')
                del pending[key]
    if not pending:
        return out
    # calling contexts
    rts = {r.q: r for r in roles.roots(prog)}
    # an entry point of the library (external linkage / address taken) has callers nobody sees: only the proofs above count
    ctx_roots = [] if f.q in rts else [c for c in roles.callers_closure(prog, f) if c.q in rts]
    per_key = {k: [] for k in pending}
    for r in sorted(ctx_roots, key=lambda r: r.q):
        try:
            g = roles.inlined(prog, r)
        except AnalysisBroken:
            continue
        evs = [e for e in g.events() if e.get('fn') == f.q and e.get('chain')]
        if not evs:
            continue
        v = view_of(prog, g)
        s3 = collect(v, evs)
        for key in pending:
            for s in s3.get(key, []):
                per_key[key].append((r, prove(v, s)))
    for key, (site, det) in pending.items():
        res = per_key[key]
        if res and all(p[0] for (_, p) in res):
            out[key] = (site, res[0][1][0], '%s [in every calling context: %s]' % (res[0][1][1], ', '.join(sorted({r.name for r, _ in res}))), 'contexts')
        else:
            bad = [(r, p) for (r, p) in res if not p[0]]
            if bad:
                det = '%s [calling context %s]' % (bad[0][1][1], bad[0][0].name)
            out[key] = (site, None, det, 'contexts' if res else 'function')
    return out


# --------------------------------------------------------------------------
# disjunctive forward analysis: (fact, abstract values of return-relevant scalars)
# --------------------------------------------------------------------------

def path_states(fn, init_fact, tr_fact, edge_fact=None, maxstates=600):
    """Returns [(ret event or None for falling off the end, fact, return class)] where the return
    class is analyses.aval of the returned expression ('void' when there is none).  Facts are
    hashable; tr_fact(event, fact) -> fact; edge_fact(block, succ index, atoms, fact) -> fact | None."""
    relevant = relevant_vars(fn)

    def transfer(e, S):
        out = set()
        for (fact, envk) in S:
            fact2 = tr_fact(e, fact)
            if e['ev'] == 'store':
                l = strip(e['lhs'])
                if l.get('k') == 'var' and l['name'] in relevant:
                    env = dict(envk)
                    v = aval(e['rhs'], env) if (e['op'] == '=' and 'rhs' in e) else '?'
                    if v == '?':
                        env.pop(l['name'], None)
                    else:
                        env[l['name']] = v
                    envk = _envkey(env)
            elif e['ev'] == 'call':
                env = None
                for a in e.get('args', []):
                    a = strip(a)
                    if isinstance(a, dict) and a.get('k') == 'addr':
                        v = strip(a['e'])
                        if isinstance(v, dict) and v.get('k') == 'var':
                            env = dict(envk) if env is None else env
                            env.pop(v['name'], None)
                if env is not None:
                    envk = _envkey(env)
            out.add((fact2, envk))
        if len(out) > maxstates:
            raise AnalysisBroken('state explosion in path analysis of %s' % fn.name)
        return frozenset(out)

    def edge(blk, si, S):
        if not blk.term or len(blk.succ) < 2 or blk.term.get('cls') in ('SwitchStmt', 'MethodDispatch'):
            return S
        c = blk.term.get('cond')
        if c is None:
            return S
        atoms = norm_cond(c, si == 0)
        out = set()
        for (fact, envk) in S:
            env = refine(dict(envk), atoms, relevant)
            if env is None:
                continue
            v = aval(c, dict(envk))
            if isinstance(v, tuple) and bool(v[1]) != (si == 0):
                continue
            if v == 'nz' and si != 0:
                continue
            f2 = edge_fact(blk, si, atoms, fact) if edge_fact else fact
            if f2 is None:
                continue
            out.add((f2, _envkey(env)))
        return frozenset(out) if out else None

    _, ev_in = forward(fn, frozenset([(init_fact, ())]), transfer, lambda a, b: a | b, edge=edge)
    rets = []
    if fn.ret == 'void':
        # `return;` and falling off the end both arrive at the exit block
        for (fact, envk) in ev_in.get((fn.exit, 0)) or ():
            rets.append((None, fact, 'void'))
        return rets
    for b, blk in fn.blocks.items():
        for i, e in enumerate(blk.events):
            if e['ev'] == 'ret' and not e.get('chain'):
                for (fact, envk) in ev_in.get((b, i)) or ():
                    rc = aval(e['value'], dict(envk)) if 'value' in e else 'void'
                    rets.append((e, fact, rc))
    return rets


# --------------------------------------------------------------------------
# shadowed locals
# --------------------------------------------------------------------------

def _locpos(loc):
    p = (loc or '').rsplit(':', 2)
    try:
        return (int(p[-2]), int(p[-1]))
    except (ValueError, IndexError):
        return (0, 0)


def unshadow(prog):
    """The facts name a local by its identifier only: a local declared again in an inner scope (`int ret;`
    inside a loop body of a function that has its own `ret`) is indistinguishable from the outer one, and a
    flow-insensitive "all definitions of ret" would mix the two.  Occurrences whose most recent declaration
    of that identifier is, on every path, one particular later declaration are renamed `name#k` (in place,
    once per program; inlined copies are made from the renamed events)."""
    if getattr(prog, '_h18_unshadowed', False):
        return
    prog._h18_unshadowed = True
    for f in prog.all_funcs():
        decls = {}
        for e in f.events():
            if e['ev'] == 'decl' and '#' not in e['name']:
                decls.setdefault(e['name'], set()).add(e['loc'])
        sh = {n: sorted(v, key=_locpos) for n, v in decls.items() if len(v) > 1}
        if not sh:
            continue
        newname = {(n, loc): '%s#%d' % (n, i + 1) for n, locs in sh.items() for i, loc in enumerate(locs) if i > 0}

        def tr(e, S):
            if e['ev'] == 'decl' and e['name'].split('#')[0] in sh:
                S = dict(S)
                S[e['name'].split('#')[0]] = e['loc']
                return frozenset(S.items())
            return S

        def jn(a, b):
            da, db = dict(a), dict(b)
            return frozenset((n, da[n] if da.get(n) == db.get(n) else 'AMBIG') for n in set(da) | set(db))
        _, ev_in = forward(f, frozenset(), tr, jn)

        def rename(x, S):
            if isinstance(x, list):
                for y in x:
                    rename(y, S)
            elif isinstance(x, dict):
                if x.get('k') == 'var' and x.get('vk') == 'local' and (x['name'], S.get(x['name'])) in newname:
                    x['name'] = newname[(x['name'], S[x['name']])]
                if isinstance(x.get('_was'), str) and (x['_was'], S.get(x['_was'])) in newname:
                    x['_was'] = newname[(x['_was'], S[x['_was']])]
                for k, v in x.items():
                    if isinstance(v, (dict, list)) and k != 'sizeof':
                        rename(v, S)
        for b, blk in f.blocks.items():
            for i, e in enumerate(blk.events):
                S = dict(tr(e, ev_in.get((b, i), frozenset())))
                if e['ev'] == 'decl':
                    if (e['name'], e['loc']) in newname:
                        e['name'] = newname[(e['name'], e['loc'])]
                    continue
                rename({k: v for k, v in e.items() if isinstance(v, (dict, list))}, S)
            if blk.term and blk.term.get('cond') is not None:
                rename(blk.term['cond'], dict(ev_in.get((b, len(blk.events)), frozenset())))
