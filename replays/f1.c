/* F1: a child without a wait interest exits while SIGCHLD is handled by iv_wait */
#include <stdio.h>
#include <stdlib.h>
#include <unistd.h>
#include <iv.h>
#include <iv_wait.h>
static struct iv_wait_interest wi;
static struct iv_timer tmo;
static void h(void *c, int status, const struct rusage *ru) { printf("interest status %x\n", status); if (WIFEXITED(status)||WIFSIGNALED(status)) iv_wait_interest_unregister(&wi); }
static void child_long(void *c) { sleep(2); _exit(0); }
static void t(void *c) { printf("timer: survived stranger child\n"); iv_wait_interest_kill(&wi, 9); }
int main(void) {
  iv_init();
  IV_WAIT_INTEREST_INIT(&wi); wi.cookie = NULL; wi.handler = h;
  iv_wait_interest_register_spawn(&wi, child_long, NULL);
  if (fork() == 0) _exit(0);      /* stranger child: no interest */
  IV_TIMER_INIT(&tmo); iv_validate_now(); tmo.expires = iv_now; tmo.expires.tv_sec += 1; tmo.handler = t; iv_timer_register(&tmo);
  iv_main(); iv_deinit(); printf("clean exit\n"); return 0; }
