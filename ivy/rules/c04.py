"""C04 — timers fire exactly once, never early; the loop never oversleeps.

Clock values and the repeated-deadline state machine are runtime quantities:
not decided.  Claimed: necessary conditions, each formulated on what the code
does rather than on how it is spelled (see REPORT-C04.md):

  * order-set analysis: which orders of (expiry, loop clock) the branch
    conditions since the definition of a timer still allow where it is expired
    (R-C04a, R-C04a.cmp in context), per definition of the timer variable;
  * exhaustive path evaluation with a small memory model (h04.explore) of the
    keep-armed decision (R-C04f) and of the timeout that reaches the kernel
    (R-C04g) in the calling context (helpers inlined);
  * must / disjunctive dataflow for cache invalidation (R-C04b), re-evaluation
    after a wake (R-C04c), exactly-once structure (R-C04d), deadline origins (R-C04e);
  * evaluation of the exported timer calls on states (h05.Machine, from the facts) over
    bounded histories, observed through the loop's deadline query: the deadline is the
    earliest registered expiry after every register / unregister (R-C04h).

Anchors: exported functions, poll-method slots, sites (method->poll, list links
through list_expired, kernel wait primitives, iv_time_get, timerfd_settime), typed
operands ((record, field) steps); never a static helper's name, a local's name or
expression text.  The state the rules talk about is found by role (h04.bind): the
cached loop time is what iv_time_get() fills, its validity flag and polarity are
what the readers of the clock store next to the read, the timer count is what
register and unregister step, the recorded deadline is what is assigned *request,
the repeat counter is the integer member the poll root keeps between calls.
Every context is normalised (h04.addr_propagate, h04.resolve_joined) so that
cached addresses, out-parameters and kept short-circuit values read like the
plain code.
"""
from ..core import AnalysisBroken, canon, strip, last_member, must_pass, relpath, norm_cond, walk, forward
from ..analyses import is_call, path_to, describe, exits_of, callback_kind, delta_analysis, atoms_imply
from .. import interp
from . import h04 as h


def _heap_order_comparators(prog, comps):
    """Those comparators that are applied to two timers (the heap order): called with the addresses of the expiries of two
    timers -- written out or held in pointer locals -- or, for a comparator of timers, with two timer pointers."""
    byname = {f.name: f for f in comps}
    used = set()
    for f in prog.all_funcs():
        if not any(x.get('callee') in byname for e in f.events() for x in ([e] if e['ev'] == 'call' else []) + list(walk(e))
                   if x.get('k') == 'call' or x.get('ev') == 'call'):
            continue
        copies = h.ptr_copies(f)
        for bid, blk in f.blocks.items():
            srcs = [(e, copies.get((bid, i), {})) for i, e in enumerate(blk.events)]
            if blk.term and blk.term.get('cond') is not None:
                srcs.append((blk.term['cond'], copies.get((bid, len(blk.events)), {})))
            for (e, cp) in srcs:
                for x in ([e] if e.get('ev') == 'call' else []) + list(walk(e)):
                    if not ((x.get('k') == 'call' or x.get('ev') == 'call') and x.get('callee') in byname and len(x.get('args', [])) == 2):
                        continue
                    if byname[x['callee']].params[0].get('record') == 'timespec':
                        zs = [h.deref_target(a_, cp) for a_ in x['args']]
                        if all(z is not None and last_member(z) in (('iv_timer_', 'expires'), ('iv_timer', 'expires')) for z in zs):
                            used.add(x['callee'])
                    else:
                        used.add(x['callee'])
    return used


def cmp_tables(ctx, rid):
    """Every pure two-timespec comparator of the program is evaluated over the 9 orders of (seconds, nanoseconds):
    one that returns a negative value somewhere must be the three-way lexicographic order (a NULL first argument = +infinity
    when it tests for it); one that is applied to two timer expiries (the heap order) must be a lexicographic order, checked order by order
    (which one -- strictly later, or its negation read the other way by the caller -- is judged in use: R-C04h);
    any other 0/1 predicate must at least be one of the four lexicographic orders.  (C04 additionally evaluates the
    expiry decision and the keep-armed decision in context, see expiry / keep_armed.)"""
    prog = ctx.prog
    h.bind(prog)
    comps = h.comparators(prog)
    if not comps:
        raise AnalysisBroken('no pure comparator of two struct timespec found')
    heap = _heap_order_comparators(prog, comps)
    nstrict = 0
    for f in comps:
        tab = h.comparator_table(f)
        vals = list(tab.values())
        if any(isinstance(v, int) and v < 0 for v in vals):
            for (so, no), r in sorted(tab.items()):
                want = {'<': -1, '>': 1, '=': 0}[h.lex((so, no))]
                ok = isinstance(r, int) and ((r < 0) == (want < 0)) and ((r > 0) == (want > 0))
                ctx.ob(rid, '%s:sec%s,nsec%s' % (f.name, so, no), ok, loc=f.loc,
                       detail='returns %s, lexicographic three-way order requires sign %d' % (r, want), fn=f.q)
            a = f.params[0]['name']
            body = getattr(f, '_c04_body', f)
            if any(x.get('k') == 'var' and x['name'] == a for blk in body.blocks.values() if blk.term and blk.term.get('cond') is not None
                   for x in [strip(y) for (_, _, _, y, _) in norm_cond(blk.term['cond'], True) if isinstance(y, dict)]):
                r = interp.run(body, interp.Assignment(bools={a: False, f.params[1]['name']: True}))['ret']
                ctx.ob(rid, '%s:no-deadline' % f.name, isinstance(r, int) and r > 0, loc=f.loc,
                       detail='a NULL deadline compares later than any stored deadline (returns %s)' % r, fn=f.q)
        elif f.name in heap:
            nstrict += 1
            # Which of the lexicographic orders a helper computes is its own business ("not later" is "strictly later" read the
            # other way by its caller): demanded is that it is one of them, order by order against the one it agrees with most
            # ("strictly later" first).  That the store ordered with it keeps the earliest timer where the loop looks is decided
            # on states by R-C04h.
            shapes = {op: {o: int(interp.cmp_holds(h.lex(o), op)) for o in h.ORDERS} for op in ('>', '>=', '<', '<=')}
            best = max(('>', '>=', '<', '<='), key=lambda op: sum(1 for o in h.ORDERS if tab[o] == shapes[op][o]))
            for (so, no), r in sorted(tab.items()):
                want = shapes[best][(so, no)]
                ctx.ob(rid, '%s:sec%s,nsec%s' % (f.name, so, no), r == want, loc=f.loc,
                       detail='returns %s, the lexicographic order "first %s second" (the heap order of the timers) requires %d'
                              % (r, best, want), fn=f.q)
        else:
            shapes = {op: {o: int(interp.cmp_holds(h.lex(o), op)) for o in h.ORDERS} for op in ('<', '<=', '>', '>=')}
            ok = any(all(tab[o] == sh[o] for o in h.ORDERS) for sh in shapes.values())
            ctx.ob(rid, '%s:lexicographic' % f.name, ok, loc=f.loc,
                   detail='a 0/1 comparison of two time values is one of the lexicographic orders <, <=, >, >=: %s' % sorted(tab.items()), fn=f.q)
    if not nstrict:
        raise AnalysisBroken('no comparator is applied to two timer expiries (heap order)')


def run(ctx):
    h.bind(ctx.prog)
    ctx.rule('R-C04a', 'a timer is moved to the expired batch only on the not-later-than-now edge of the strict comparison of its '
                       'expiry with the loop clock, and the loop clock is valid there', floor=3)
    ctx.rule('R-C04a.cmp', 'comparator tables over all 9 orderings of (sec, nsec): the expiry decision evaluated in context is exactly '
                           '"expiry not later than clock"; the comparator used as heap order is a lexicographic order of the two expiries; a three-way '
                           'comparator is the lexicographic order with NULL = +infinity', floor=18)
    ctx.rule('R-C04b', 'the cached time dies with every wait: in every poll slot every path from the wait primitive to a return '
                       'invalidates the time cache', floor=4)
    ctx.rule('R-C04c', 'timers are re-evaluated after every wake of a timeout-bounded wait: poll slots of methods without a kernel '
                       'timer return non-zero on every path; the timer-descriptor method returns non-zero whenever it was given a '
                       'deadline; iv_main runs the timers at loop head whenever the previous poll said so', floor=6)
    ctx.rule('R-C04d', 'exactly-once structure: an expiring timer leaves the heap through iv_timer_unregister, is stamped 0 then -1 '
                       'and unlinked before its handler; registration refuses a timer whose index is not -1', floor=4)
    ctx.rule('R-C04e', 'the wait deadline is the heap root or zero: its only definitions are the zeroed local and '
                       'iv_get_soonest_timeout, which reads heap slot 1 under num_timers != 0', floor=3)
    ctx.rule('R-C04f', 'repeated-deadline optimisation: the armed kernel timer is kept (wait without a deadline) only on the edge where the '
                       'requested deadline is not earlier than the armed one; the result of arming is what the caller acts on', floor=3)
    ctx.rule('R-C04g', 'millisecond conversion rounds up: for boundary values the converted timeout never under-reports the remaining time '
                       '(no early wake-up spin, no truncation to 0 while time remains)', floor=6)
    ctx.section(keep_armed)
    ctx.section(rounding)
    ctx.section(expiry)
    ctx.section(expiry_table)
    ctx.section(lambda c: cmp_tables(c, 'R-C04a.cmp'))
    ctx.section(invalidate)
    ctx.section(rerun)
    ctx.section(once)
    ctx.section(deadline)
    ctx.rule('R-C04h', 'the wait deadline is the earliest registered expiry after every history: the public timer calls are evaluated '
                       '(from the facts) on up to 6 timers registered in every order, on every order-valid population of up to 7 timers '
                       'with every timer cancelled / re-armed with another expiry, on pseudo-random histories of 8..24 timers and on one '
                       'long history across the capacity boundary of the store; after every call iv_get_soonest_timeout() names a '
                       'registered timer none of the others is earlier than, and no deadline exactly when nothing is registered; the '
                       'timer it names is then taken off, as the runner does, until none is left', floor=15)
    ctx.section(earliest)
    ctx.rule('R-C04i', 'unless unregistered first: every returning path of iv_timer_unregister (helpers inlined) has taken the timer out of '
                       'the place it was kept in -- the heap (timer count lowered) or the batch of expired timers that the runner is '
                       'working through (its list_expired node unlinked) --, and the runner calls the handler only of a timer that it read '
                       'from the batch after the latest user code ran (never through a pointer saved across a handler call): '
                       'what a handler cancelled is not run', floor=2)
    ctx.section(cancelled)
    ctx.rule('R-C04j', 'the deadline is an absolute time on the loop\'s clock all the way into the kernel: where a kernel timer is programmed for '
                       'the deadline (timerfd_settime), the value and the flags handed over -- evaluated along every path for deadlines ahead, '
                       'passed and zero -- make the timer fire, and not later than the deadline plus one millisecond (an absolute value needs the '
                       'absolute-time flag, an interval must have been converted from the loop clock, a zero value disarms); the timer counts on '
                       'the clock that iv_time_get() reads', floor=9)
    ctx.section(absolute)


def _method_poll(e):
    return e['ev'] == 'call' and callback_kind(e) == ('method', 'poll')


def _deadline_param(f):
    ps = [p['name'] for p in f.params if p.get('ptr') and p.get('record') == 'timespec']
    if len(ps) != 1:
        raise AnalysisBroken('%s: expected exactly one struct timespec * parameter (the deadline), found %d' % (f.name, len(ps)))
    return ps[0]


def _deadline_kind(o):
    """what a deadline value comes from: the address of a time value of the function's own (or an immutable one with static
    storage) -- "do not wait" --, the loop's deadline query, or something else"""
    r = strip(o)
    v_ = strip(r['e']) if isinstance(r, dict) and r.get('k') == 'addr' else None
    if isinstance(v_, dict) and v_.get('k') == 'var' and v_.get('record') == 'timespec' and not v_.get('ptr') and \
            (v_.get('vk') == 'local' or (v_.get('vk') in ('global', 'staticlocal') and 'const' in (v_.get('type') or '').split())):
        return 'zeroed-local'
    if isinstance(r, dict) and r.get('k') == 'call' and r.get('callee') == 'iv_get_soonest_timeout':
        return 'soonest'
    return 'other:' + canon(o)


REQUEST_STOP = ('iv_get_soonest_timeout',)


def _request(root, g):
    """The requested deadline of a context that waits (calls method->poll): (name of the pointer that holds it, context
    to evaluate, [(definition event, kinds of its origins)] or None).  It is the one `struct timespec *` parameter of the
    root -- the caller computed it --, or, when the root has none, the pointer local of the context that is assigned the
    answer of the loop's deadline query (iv_get_soonest_timeout): the root computes the deadline itself.  In that case the
    definitions of the local from the deadline sources (the query, a time value of the function's own) *are* the request:
    in the returned copy of the context they are neutral events and the local reads like a parameter; any other
    definition of it stays and is evaluated (and is judged by R-C04e deadline-definitions)."""
    ps = [p['name'] for p in root.params if p.get('ptr') and p.get('record') == 'timespec']
    if len(ps) == 1:
        return ps[0], g, None
    if len(ps) > 1:
        raise AnalysisBroken('%s: expected at most one struct timespec * parameter (the deadline), found %d' % (root.name, len(ps)))
    cached = getattr(g, '_c04_request', None)
    if cached is not None:
        return cached
    org = h.Origins(g)
    defs = {}
    for e in g.events():
        if e['ev'] == 'store' and e.get('op') == '=' and 'rhs' in e:
            l = strip(e['lhs'])
            if isinstance(l, dict) and l.get('k') == 'var' and l.get('vk') == 'local' and l.get('ptr') and l.get('record') == 'timespec':
                kinds = {_deadline_kind(o) for o in org.of(e['rhs'], (e['_b'], e['_i']))}
                defs.setdefault(l['name'], []).append((e, kinds))
    names = sorted(n for n, ds in defs.items() if any('soonest' in k for (_, k) in ds))
    if len(names) != 1:
        raise AnalysisBroken('%s: expected exactly one struct timespec * parameter (the deadline) or one local that receives the '
                             'answer of iv_get_soonest_timeout(), found %d / %d' % (root.name, len(ps), len(names)))
    name = names[0]
    neutral = {id(e) for (e, k) in defs[name] if k <= {'zeroed-local', 'soonest'}}
    import copy as _copy
    g2 = _copy.copy(g)
    for a in [a for a in g2.__dict__ if a.startswith('_c04')]:
        del g2.__dict__[a]
    g2.blocks = {}
    for b, blk in g.blocks.items():
        nb = _copy.copy(blk)
        nb.events = [({'ev': 'load', 'e': e['lhs'], 'loc': e.get('loc'), '_b': e['_b'], '_i': e['_i'], 'chain': e.get('chain') or []}
                      if id(e) in neutral else e) for e in blk.events]
        g2.blocks[b] = nb
    g._c04_request = (name, g2, defs[name])
    return g._c04_request


def _all_exprs(g, copies):
    """(expression, pointer copies at its point) of everything events and branch conditions evaluate"""
    for b, blk in g.blocks.items():
        for i, e in enumerate(blk.events):
            cp = copies.get((b, i), {})
            for key in ('rhs', 'value', 'init', 'args', 'e', 'fnexpr', 'lhs'):
                if key in e:
                    yield e[key], cp
        if blk.term and blk.term.get('cond') is not None:
            yield blk.term['cond'], copies.get((b, len(blk.events)), {})


def _ident(z):
    """identity of a memory lvalue independent of how its address was obtained: its last (record, field) step, or its
    spelling when it is a plain variable"""
    lm = last_member(z)
    return lm if lm is not None else ('var', canon(strip(z)))


_INT_TYPE = __import__('re').compile(r'^(?:(?:const|volatile|unsigned|signed|short|long|int|char|_Bool)\s*)+$|^u?int\d+_t$|^s?size_t$')


def _is_int_lvalue(x):
    return isinstance(x, dict) and bool(_INT_TYPE.match((x.get('type') or '').strip()))


def _repeat_state(g, absn, copies):
    """The state of the repeated-deadline optimisation, found by role in the context that calls method->poll:
    (identities of the lvalues in which the requested deadline is recorded -- a struct timespec in memory that is assigned
    *request, whole or field by field --; {identity of an integer member that this code writes: the constants it, or an
    integer local it may be cached in, is compared with or set to})."""
    def lv(x, cp):
        x = strip(x)
        if isinstance(x, dict) and x.get('k') == 'deref':
            t = h.deref_target(x['e'], cp)
            if t is not None:
                return strip(t)
        return x

    def is_request(x):
        return h.deref_of_var(strip(x)) == absn

    def persistent(x, cp):
        """the lvalue outlives the call: not (part of) a local object of this code, whichever way it is reached"""
        x = strip(x)
        while isinstance(x, dict):
            k = x.get('k')
            if k == 'var':
                return x.get('vk') not in ('local', 'param')
            if k == 'member' and x.get('arrow'):
                t = h.deref_target(x['base'], cp)
                if t is None:
                    return True
                x = strip(t)
            elif k == 'member':
                x = strip(x['base'])
            elif k == 'index':
                x = strip(x['base'])
            elif k == 'deref':
                t = h.deref_target(x['e'], cp)
                if t is None:
                    return True
                x = strip(t)
            else:
                return True
        return True

    def int_place(x, cp):
        x = lv(x, cp)
        if not _is_int_lvalue(x):
            return None
        if x.get('k') == 'member' and x.get('field') not in h.TS_FIELDS:
            return 'member' if persistent(x, cp) else 'local'
        if x.get('k') == 'var' and x.get('vk') in ('local', 'param'):
            return 'local'
        return None
    def ic(x):
        xs = strip(x)
        return None if not isinstance(xs, dict) or xs.get('k') == 'null' else h.const_of(xs)
    rec, written, consts = set(), set(), set()
    for bid, blk in g.blocks.items():
        for i, e in enumerate(blk.events):
            if e['ev'] != 'store':
                continue
            cp = copies.get((bid, i), {})
            if e.get('op') == '=' and 'rhs' in e:
                if is_request(e['rhs']):
                    z = lv(e['lhs'], cp)
                    if persistent(z, cp):
                        rec.add(_ident(z))
                zl, zr = h.ts_operand(e['lhs'], cp), h.ts_operand(e['rhs'], cp)
                if zl and zr and zl[1] == zr[1] and is_request(zr[0]) and persistent(zl[0], cp):
                    rec.add(_ident(zl[0]))
            pl = int_place(e['lhs'], cp)
            if pl == 'member':
                written.add(_ident(lv(e['lhs'], cp)))
            if pl and 'rhs' in e and ic(e['rhs']) is not None:
                consts.add(ic(e['rhs']))
    for x0, cp in _all_exprs(g, copies):
        for x in walk(x0):
            if x.get('k') == 'bin' and x.get('op') in interp.CMP:
                for (u, v) in ((x['l'], x['r']), (x['r'], x['l'])):
                    if int_place(u, cp) and ic(v) is not None:
                        consts.add(ic(v))
    return rec, written, consts


def keep_armed(ctx, rid='R-C04f'):
    """The repeated-deadline optimisation, decided by exhaustive evaluation of the code between the entry of the function
    that calls method->poll and its return (helpers inlined, so the split into iv_fd_timeout_check / timespec_cmp, the
    name and type of the comparison result, verdicts returned through flags, out-parameters or conditional expressions,
    the branch shapes do not matter): for every order of (requested deadline, recorded deadline) over (seconds,
    nanoseconds), requested deadline NULL or not, every value of the repeat counter up to the largest constant it is
    compared with or set to, both answers of method->set_poll_timeout / method->poll and both kinds of method, all paths
    are enumerated and what reaches the method slots is observed *by value* along the path (a NULL passed for a NULL
    request is the request).  The recorded deadline and the repeat counter are found by role (what is assigned *request;
    the integer member compared with constants and stepped), "armed" is the counter value at which the code itself
    calls method->set_poll_timeout."""
    prog = ctx.prog
    h.bind(prog)
    cs = h.contexts(prog, _method_poll, stop=REQUEST_STOP)
    # a poll slot that hands the wait on to another table's poll slot (mid-run fallback, C15 R-C15b) forwards
    # its caller's deadline decision; the repeated-deadline logic lives in the callers of the slot
    pollslots = set()
    for t, slots in prog.method_tables().items():
        if slots.get('poll'):
            pf = prog.resolve(*slots['poll'])
            if pf is not None:
                pollslots.add(pf.q)
    cs = [c for c in cs if c[0].q not in pollslots]
    if not cs:
        raise AnalysisBroken('no function calls method->poll')
    r1, r2, r3, r4, r5 = [], [], [], [], []
    for (root, g, sites) in cs:
        absn, g, _ = _request(root, g)
        copies = h.ptr_copies(g)
        rec, written, consts = _repeat_state(g, absn, copies)
        if len(written) != 1:
            raise AnalysisBroken('%s: the repeat counter of the deadline (the one integer member this code keeps between calls) '
                                 'is not identified: %s' % (root.name, sorted(map(str, written))))
        cnt_id = next(iter(written))
        consts |= {0, 1}
        if max(consts) - min(consts) > 24:
            raise AnalysisBroken('%s: the repeat counter ranges over %d..%d: too many states to enumerate' % (root.name, min(consts), max(consts)))

        def klass(z):
            if h.deref_of_var(z) == absn:
                return 'A'
            zs = strip(z)
            # any other time value that lives in memory (not a local): the recorded deadline, if the code is right
            return 'B' if isinstance(zs, dict) and zs.get('k') == 'member' else None
        cmps, cnt_keys, slot_keys, arm_keys, poll_keys, empty_keys, other_ts, b_ids = [], set(), set(), set(), set(), set(), [], set()
        for x0, cp in _all_exprs(g, copies):
            for x in walk(x0):
                k = x.get('k')
                if k == 'bin' and x.get('op') in interp.CMP:
                    if h.pair_order(x['l'], x['r'], cp, klass, ('=', '=')) is not None:
                        cmps.append((x, cp))
                        for side in (x['l'], x['r']):
                            z = h.ts_operand(side, cp)
                            if klass(z[0]) == 'B':
                                b_ids.add(_ident(z[0]))
                    elif h.ts_operand(x['l'], cp) and h.ts_operand(x['r'], cp):
                        other_ts.append(x)
                elif k == 'member' and _ident(x) == cnt_id:
                    cnt_keys.add(canon(x))
                elif k == 'member' and last_member(x) == ('iv_fd_poll_method', 'set_poll_timeout'):
                    slot_keys.add(canon(x))
                elif k == 'call' and last_member(x.get('fnexpr')) == ('iv_fd_poll_method', 'set_poll_timeout'):
                    arm_keys.add(canon(x))
                elif k == 'call' and last_member(x.get('fnexpr')) == ('iv_fd_poll_method', 'poll'):
                    poll_keys.add(canon(x))
                elif k == 'call' and x.get('callee') == 'iv_list_empty':
                    empty_keys.add(canon(x))
        # the values compared are the request and the deadline recorded from the request -- nothing else
        r1.append((root, bool(cmps) and not other_ts and bool(rec) and b_ids <= rec, sites[0],
                   [canon(x) for x in other_ts] + ['compared with %s, recorded in %s' % (sorted(map(str, b_ids)), sorted(map(str, rec)))]))

        def local_key(l):
            """spelling of an lvalue that is (part of) a local object of this code -- a local, a member of a local struct --, else None"""
            x = l
            while isinstance(x, dict) and x.get('k') == 'member' and not x.get('arrow'):
                x = strip(x['base'])
            if isinstance(x, dict) and x.get('k') == 'var' and x.get('vk') in ('local', 'param'):
                return canon(l)
            return None

        def pkind(x, path, depth=0):
            """what a pointer value is, along this path: the request, NULL, the address of the recorded deadline"""
            x = strip(x)
            if not isinstance(x, dict) or depth > 8:
                return 'other:?'
            if h.const_of(x) == 0:
                return 'none'
            k = x.get('k')
            if k in ('var', 'member', 'deref'):
                key = local_key(strip(h._through(x, path['ptrs'])))
                if key is not None and key in path.get('sym', {}):
                    return path['sym'][key]
            if k == 'var':
                if x['name'] == absn:
                    return 'request'
                if x['name'] in path['ptrs']:
                    return pkind(path['ptrs'][x['name']], path, depth + 1)
                return 'other:' + x['name']
            if k == 'addr':
                return 'armed-copy' if _ident(strip(h._through(x['e'], path['ptrs']))) in rec else 'other:' + canon(x)
            if k == 'cond':
                try:
                    return pkind(x['a'] if path['eval'](x['c']) else x['b'], path, depth + 1)
                except interp.Undecided:
                    a_, b_ = pkind(x['a'], path, depth + 1), pkind(x['b'], path, depth + 1)
                    return a_ if a_ == b_ else 'other:' + canon(x)
            return 'other:' + canon(x)

        def hook(e, env, asg, path):
            log = path.setdefault('log', [])
            sym = path.setdefault('sym', {})
            if e['ev'] == 'decl':
                sym.pop(e['name'], None)
                return
            if e['ev'] == 'store':
                key = local_key(strip(h._through(e['lhs'], path['ptrs'])))
                if key is not None:
                    v = pkind(e['rhs'], path) if e.get('op') == '=' and 'rhs' in e else 'other:?'
                    if v.startswith('other:') and key != absn:
                        sym.pop(key, None)
                    else:
                        sym[key] = v
                return
            if e['ev'] != 'call':
                return
            ck = callback_kind(e)
            cur = {path['mem'].get(k) for k in cnt_keys}
            if ck == ('method', 'clear_poll_timeout'):
                log.append(('clear', None, e, cur))
            elif ck == ('method', 'set_poll_timeout'):
                log.append(('arm', pkind(e['args'][1], path) if len(e['args']) > 1 else 'other:?', e, cur))
            elif ck == ('method', 'poll'):
                log.append(('poll', pkind(e['args'][2], path) if len(e['args']) > 2 else 'other:?', e, cur))

        # scenario: the wait reports no ready descriptor -- the local list it was given stays empty
        def is_head(lvx):
            lvx = strip(lvx)
            return isinstance(lvx, dict) and lvx.get('k') == 'var' and lvx.get('vk') == 'local' and lvx.get('record') == 'iv_list_head' and not lvx.get('ptr')

        def decide(c):
            return h.empty_list_truth(c, is_head)
        runs = []
        for has_timer in (True, False):
            for nonnull in (True, False):
                for o in (h.ORDERS if nonnull else [('=', '=')]):
                    orders = {}
                    for (x, cp) in cmps:
                        for k_ in h.order_keys(x, cp):
                            orders[k_] = h.pair_order(x['l'], x['r'], cp, klass, o)
                    for cnt in range(min(consts), max(consts) + 2):
                        for armres in (True, False):
                            for pollres in (True, False):
                                bools = {absn: nonnull}
                                bools.update({k: has_timer for k in slot_keys})
                                bools.update({k: armres for k in arm_keys})
                                bools.update({k: pollres for k in poll_keys})
                                bools.update({k: True for k in empty_keys})
                                ints = {k: cnt for k in cnt_keys}
                                for path in h.explore(g, orders=orders, bools=bools, ints=ints, on_event=hook, decide=decide):
                                    if path['end'] not in ('fatal', 'cut') and any(x[0] == 'poll' for x in path.get('log', [])):
                                        runs.append((has_timer, nonnull, o, cnt, armres, pollres, path))
        # the armed state: the counter value with which the code arms the kernel timer
        # (the value it leaves in the counter when set_poll_timeout answered non-zero and the wait did not report a fired timer)
        armed_vals = set()
        for (has_timer, nonnull, o, cnt, armres, pollres, path) in runs:
            if armres and not pollres and path['end'] in ('ret', 'exit') and any(x[0] == 'arm' for x in path['log']):
                armed_vals |= {path['mem'].get(k) for k in cnt_keys}
        if len(armed_vals) > 1 or None in armed_vals:
            raise AnalysisBroken('%s: after arming the kernel timer the repeat counter is left at %s (one definite value expected)'
                                 % (root.name, sorted(map(str, armed_vals))))
        # no path arms the kernel timer: then no counter value means "armed" and every wait without a deadline is unjustified
        armed = armed_vals.pop() if armed_vals else None
        for (has_timer, nonnull, o, cnt, armres, pollres, path) in runs:
            log = path['log']
            pi = [i for i, x in enumerate(log) if x[0] == 'poll'][0]
            kind, site = log[pi][1], log[pi][2]
            # by value: a NULL handed on for a NULL request is the request
            is_request = kind == 'request' or (kind == 'none' and not nonnull)
            is_null = kind == 'none' or (kind == 'request' and not nonnull)
            clears = [i for i in range(pi) if log[i][0] == 'clear']
            arms = [i for i in range(pi) if log[i][0] == 'arm']
            # the deadline handed to the kernel timer equals the request: it is the request, or the recorded deadline
            # on a path where the two compared equal
            arm_ok = bool(arms) and nonnull and (log[arms[-1]][1] == 'request' or (log[arms[-1]][1] == 'armed-copy' and o == ('=', '=')))
            arm_last = bool(arms) and (not clears or arms[-1] > clears[-1])
            armed_now = arm_last and arm_ok and armres
            kept = armed is not None and cnt == armed and not clears
            cfg = 'method %s a kernel timer, request %s, counter %d, set_poll_timeout -> %d' % (
                'with' if has_timer else 'without', ('NULL' if not nonnull else 'vs recorded (sec%s, nsec%s)' % o), cnt, armres)
            r4.append((root, is_request or (is_null and has_timer and (kept or armed_now)), site, cfg + ': deadline ' + kind))
            if is_null and not is_request and not arms:
                r2.append((root, kept and h.lex(o) in '=>', site, cfg))
            if arms:
                r3.append((root, (armres or is_request) and arm_ok and arm_last, site,
                           cfg + ': set_poll_timeout(%s), deadline %s' % (log[arms[-1]][1], kind)))
            if is_null and has_timer and (kept or armed_now) and pollres and path['end'] == 'ret':
                cur = {path['mem'].get(k) for k in cnt_keys}
                r5.append((root, armed is not None and None not in cur and armed not in cur, site, cfg + ': counter afterwards %s' % sorted(map(str, cur))))

    missing = []

    def emit(inst, rows, text):
        bad = [r_ for r_ in rows if not r_[1]]
        if not rows:
            missing.append(inst)
            return
        first = (bad or rows)[0]
        ctx.ob(rid, inst, not bad, loc=first[2]['loc'], fn=first[0].q,
               detail=text + (' -- violated for: ' + '; '.join(str(r_[3]) for r_ in bad[:4]) if bad else ' (%d evaluated paths)' % len(rows)))
    emit('timeout_check:compares-request-with-armed', r1,
         'the time values compared before method->poll are the requested deadline and the deadline recorded from earlier requests '
         '(st->last_abs: what is assigned *request), field by field')
    emit('timeout_check:keep-armed-only-if-not-earlier', r2,
         'waiting without a deadline and without (re-)arming, although one was requested, happens only with the kernel timer armed (counter at '
         'the arming value, not cleared) and a requested deadline that is not earlier than the armed one')
    emit('timeout_check:arming-result-propagated', r3,
         'when method->set_poll_timeout is called it gets the requested deadline, is not undone by a clear, and an answer 0 (not armed, e.g. after '
         'falling back to a method without a kernel timer) makes method->poll get the deadline itself')
    emit('poll_and_run:no-deadline-only-when-armed', r4,
         'method->poll gets the caller\'s deadline, or none only while a kernel timer is armed (kept or freshly armed with a non-zero answer)')
    if rid == 'R-C04f':
        emit('poll_and_run:fired-timer-disarms', r5,
             'when a wait without a deadline that relies on the kernel timer reports "run timers" (the one-shot kernel timer fired) the repeat '
             'counter leaves the armed value before the function returns, so the next wait is not left without a deadline and without a timer')
    if missing:
        raise AnalysisBroken('keep_armed: no evaluated path exercises %s' % ', '.join(missing))


SLOT_STOP = ('iv_event_run_pending_events', 'iv_fd_make_ready', 'iv_time_get')
MS_WAITS = {'poll': 2, 'epoll_wait': 3}            # wait primitives with a millisecond timeout: argument index
WAITS = ('epoll_wait', 'epoll_pwait2', 'poll', 'ppoll')


def _slot_contexts(prog):
    """[(table, slots, slot function, slot function with the method's helpers inlined)] for every poll method"""
    out = []
    for t, slots in sorted(prog.method_tables().items()):
        if not slots.get('poll'):
            continue
        f = prog.resolve(*slots['poll'])
        if f is None:
            raise AnalysisBroken('%s: poll slot does not resolve' % t)
        out.append((t, slots, f, h.inline_root(prog, f, stop=SLOT_STOP, method_table=t, expand_methods=True)))
    if not out:
        raise AnalysisBroken('no poll method table found')
    return out


NOW = (1000, 600000000)


def rounding(ctx, rid='R-C04g'):
    """What reaches the kernel: for every poll method whose wait primitive takes milliseconds, the slot function (helpers
    inlined: conversion to relative time, conversion to milliseconds, wrappers) is executed on concrete values -- loop
    clock NOW (valid), deadline NOW + (sec, nsec) -- along every path to the wait primitive, and the timeout argument
    observed there must be the remaining time rounded up to the next millisecond (0 for a deadline in the past)."""
    prog = ctx.prog
    h.bind(prog)
    vectors = [(0, 0), (0, 1), (0, 999999), (0, 1000000), (0, 1000001), (3, 500000), (7, 999999999)]
    past = [(-1, 0), (0, -1), (-2, 400000001)]
    seen = {}
    nsinks = 0
    for (t, slots, f, g) in _slot_contexts(prog):
        sinks = [e for e in g.events() if is_call(e, tuple(MS_WAITS))]
        if not sinks:
            continue
        nsinks += 1
        absn = _deadline_param(f)
        copies = h.ptr_copies(g)
        keys = {('A', 'tv_sec'): set(), ('A', 'tv_nsec'): set(), ('B', 'tv_sec'): set(), ('B', 'tv_nsec'): set()}
        valid_keys, empty_keys = set(), set()
        for x0, cp in _all_exprs(g, copies):
            for x in walk(x0):
                if x.get('k') == 'member' and x.get('field') in h.TS_FIELDS:
                    z = h.ts_operand(x, cp)
                    if z and h.deref_of_var(z[0]) == absn:
                        keys[('A', z[1])] |= {canon(x), h.ts_key(z[0], z[1])}
                    elif z and h.is_clock(z[0]):
                        keys[('B', z[1])] |= {canon(x), h.ts_key(z[0], z[1])}
                elif x.get('k') == 'member' and h.is_flag(x):
                    valid_keys.add(canon(x))
                elif x.get('k') == 'call' and x.get('callee') == 'iv_list_empty':
                    empty_keys.add(canon(x))

        def hook(e, env, asg, path, keys=keys, copies=copies):
            if h.is_clock_read(e, copies.get((e['_b'], e['_i']), {})):
                # the clock is read again on this path (fallback to another wait primitive): it still shows NOW
                for k in keys[('B', 'tv_sec')]:
                    path['mem'][k] = NOW[0]
                for k in keys[('B', 'tv_nsec')]:
                    path['mem'][k] = NOW[1]
            if is_call(e, tuple(MS_WAITS)):
                try:
                    path['ms'] = path['eval'](e['args'][MS_WAITS[e['callee']]])
                except (interp.Undecided, IndexError):
                    path['ms'] = None
                path['sink'] = e
                raise h.Stop()
        for (s_, n_) in vectors + past:
            tot = NOW[0] * 1000000000 + NOW[1] + s_ * 1000000000 + n_
            dl = (tot // 1000000000, tot % 1000000000)
            ints = {}
            for k in keys[('A', 'tv_sec')]:
                ints[k] = dl[0]
            for k in keys[('A', 'tv_nsec')]:
                ints[k] = dl[1]
            for k in keys[('B', 'tv_sec')]:
                ints[k] = NOW[0]
            for k in keys[('B', 'tv_nsec')]:
                ints[k] = NOW[1]
            for k in valid_keys:
                ints[k] = h.ROLE['valid']
            bools = {absn: True}
            bools.update({k: True for k in empty_keys})
            for path in h.explore(g, bools=bools, ints=ints, on_event=hook, goal_blocks={e['_b'] for e in sinks}):
                if 'sink' in path:
                    seen.setdefault((s_, n_), []).append((path['ms'], path['sink'], f))
    if not nsinks:
        raise AnalysisBroken('no poll method waits with a millisecond timeout')
    for (s_, n_) in vectors + past:
        rem = s_ * 1000000000 + n_
        want = 0 if rem <= 0 else (rem + 999999) // 1000000
        got = seen.get((s_, n_), [])
        if not got:
            raise AnalysisBroken('rounding: the wait primitive is not reached for remaining time (%d s, %d ns)' % (s_, n_))
        bad = [x for x in got if x[0] != want]
        first = (bad or got)[0]
        name = 'to_msec(sec=%d,nsec=%d)' % (s_, n_) if (s_, n_) in vectors else 'to_msec(past:sec=%d,nsec=%d)' % (s_, n_)
        ctx.ob(rid, name, not bad, loc=first[1]['loc'], fn=first[2].q,
               detail='timeout given to %s: %s ms; the remaining time rounded up is %d ms (a smaller value wakes the loop before anything is due: it spins; '
                      'a negative one never wakes it)' % ('/'.join(sorted({x[1]['callee'] for x in got})), sorted({str(x[0]) for x in got}), want))


LE_MEMBER = (('iv_timer_', 'list_expired'), ('iv_timer', 'list_expired'))


def _mentions_expired(e):
    """the event takes the address of some object's `list_expired` node (candidate for linking / unlinking it)"""
    return any(x.get('k') == 'addr' and last_member(x.get('e')) in LE_MEMBER for x in walk(e))


def _links(g):
    """{(block, index): timer object expression X} of the events of g that link X into a list through its `list_expired`
    member (X joins the batch of expired timers): a list insertion primitive (also the fused open-coded form) whose
    node argument is &X->list_expired -- written out, or held in a pointer local / helper parameter that was defined
    from it --, or the address of X's node stored into a neighbour's next/prev"""
    m = getattr(g, '_c04_links', None)
    if m is None:
        copies = h.ptr_copies(g)
        m = {}
        for bid, blk in g.blocks.items():
            for i, e in enumerate(blk.events):
                node = None
                if is_call(e, ('iv_list_add', 'iv_list_add_tail')) and e.get('args'):
                    node = e['args'][0]
                elif e['ev'] == 'store' and e.get('op') == '=' and 'rhs' in e and \
                        last_member(e['lhs']) in (('iv_list_head', 'next'), ('iv_list_head', 'prev')):
                    node = e['rhs']
                if node is None:
                    continue
                z = h.deref_target(node, copies.get((bid, i), {}))
                if z is not None and last_member(z) in LE_MEMBER:
                    m[(bid, i)] = h.member_base(z)
        g._c04_links = m
    return m


def _expired_link(g, e):
    return (e['_b'], e['_i']) in _links(g)


def _heap_leave(e):
    """a timer leaves the heap: the unregister API is called, or (its body inlined) the timer count is lowered"""
    return is_call(e, 'iv_timer_unregister') or (e['ev'] == 'store' and h.is_num(e['lhs']) and
                                                 (e.get('op') in ('--', '-=') or (e.get('op') == '=' and 'rhs' in e)))


EXPIRY_STOP = ('iv_timer_unregister', 'iv_timer_register', 'iv_time_get')


def _expiry_contexts(prog):
    cs = []
    for (root, g, cands) in h.contexts(prog, _mentions_expired, stop=EXPIRY_STOP):
        links = [g.blocks[b_].events[i_] for (b_, i_) in sorted(_links(g))]
        if links:
            cs.append((root, g, links))
    if not cs:
        raise AnalysisBroken('no function links a timer into an expired batch (list_expired)')
    return cs


def _timer_of_move(g, e):
    """the timer object expression of a move event (link into the batch / removal from the heap); None = any timer"""
    if _expired_link(g, e):
        return _links(g)[(e['_b'], e['_i'])]
    if is_call(e, 'iv_timer_unregister'):
        return e['args'][0] if e.get('args') else None
    return None


def _inlined_unregisters(prog, g):
    """{instance number: (enter event, timer argument)} of the inlined calls whose body lowers the timer count: the
    unregister operation when it is not the API call itself but a helper inlined into the context"""
    out = {}
    for e in g.events():
        if e['ev'] != 'enter':
            continue
        keys = {(e.get('fn'), e.get('loc'), t) for t in e.get('targets', ())}
        if not any(_heap_leave(x) and not is_call(x, 'iv_timer_unregister') and any(tuple(c) in keys for c in (x.get('chain') or []))
                   for x in g.events()):
            continue
        arg = None
        for t in e.get('targets', ()):
            tf = prog.funcs.get(t)
            idx = [i for i, p_ in enumerate(tf.params) if p_.get('ptr') and p_.get('record') in h.TIMER_RECS] if tf else []
            if len(idx) == 1 and idx[0] < len(e.get('args', [])):
                arg = e['args'][idx[0]]
        if arg is not None:
            out[e['inst']] = (e, arg)
    return out


def _move_identity(prog, g, org, m):
    """(spellings of the timer a move event is about, the locals among them) -- None: unknown timer"""
    x = _timer_of_move(g, m)
    pt = (m['_b'], m['_i'])
    if x is None and not is_call(m, 'iv_timer_unregister'):
        # heap removal inlined from a helper: the timer is what the outermost inlined call was given
        x = h.enter_arg(prog, g, m)
        if x is not None:
            ent = [e for e in g.events() if e['ev'] == 'enter' and not e.get('chain') and e.get('loc') == m['chain'][0][1]]
            pt = (ent[0]['_b'], ent[0]['_i']) if ent else pt
    if x is None:
        return None, None
    xn = h.obj_names(x, org, pt)
    lv = {y['name'] for e in g.events() for y in walk(e) if y.get('k') == 'var' and y.get('vk') in ('local', 'param')}
    lv |= {e['name'] for e in g.events() if e['ev'] == 'decl'}
    return xn, xn & lv


def expiry(ctx):
    """Never early.  In every context that links a timer X into the expired batch (and removes it from the heap), the
    branch conditions crossed since X was defined exclude every order of (X.expires, loop clock) in which the expiry is
    later than the clock -- evaluated over the 9 orders of (seconds, nanoseconds) with the comparison helper inlined,
    so it does not matter how (or in which function) the comparison is spelled; and the clock value those comparisons
    read is valid (read from the clock / tested valid since it was invalidated or user code ran)."""
    prog = ctx.prog
    table = {}
    for (root, g, links) in _expiry_contexts(prog):
        copies = h.ptr_copies(g)
        moves = links + [e for e in g.events() if _heap_leave(e)]
        bysite = {}
        org = h.Origins(g)
        for m in moves:
            xn, xlocals = _move_identity(prog, g, org, m)

            def klass_at(cp, pt, xn=xn):
                def klass(z):
                    lm = last_member(z)
                    if lm in (('iv_timer_', 'expires'), ('iv_timer', 'expires')) and (xn is None or h.same_obj(h.member_base(z), xn, org, pt)):
                        return 'A'
                    if lm in h.ROLE['clock']:
                        return 'B'
                    return None
                return klass
            osets = h.order_sets(prog, g, copies, klass_at, reset=lambda e, xl=xlocals: h.redefines(e, xl))
            S = osets.get((m['_b'], m['_i']))
            late = sorted(o for o in (S or ()) if h.lex(o) == '>')
            kind = 'expire' if _expired_link(g, m) else 'unregister'
            if kind == 'expire':
                for o in h.ORDERS:
                    table.setdefault(o, []).append((S is not None and o in S, m, root))
            k = (kind, m['loc'])
            prev = bysite.get(k, (True, m, []))
            bysite[k] = (prev[0] and S is not None and not late, prev[1], prev[2] + late)
        for (kind, loc), (ok, m, late) in sorted(bysite.items()):
            ctx.ob('R-C04a', '%s:%s-not-before-expiry' % (root.name, kind), ok, loc=loc,
                   detail='%s is reached only under orders of (expiry, loop clock) with expiry <= clock; orders (sec, nsec) with a later expiry '
                          'that the branch conditions since the timer was defined do not exclude: %s' % (describe(m), late or 'none'),
                   path=None if ok else path_to(g, m), fn=root.q)
        # clock validity at every comparison of an expiry with the loop clock
        valid = h.clock_valid(prog, g, copies)

        def klass_any(z):
            lm = last_member(z)
            if lm in (('iv_timer_', 'expires'), ('iv_timer', 'expires')):
                return 'A'
            return 'B' if lm in h.ROLE['clock'] else None
        tests = []
        for b, blk in g.blocks.items():
            if blk.term and blk.term.get('cond') is not None and len(blk.succ) == 2:
                cp = copies.get((b, len(blk.events)), {})
                if h.compares_in(prog, blk.term['cond'], cp, klass_any):
                    tests.append((b, blk))
        # a snapshot of the loop clock in a local struct is a read of the clock value: it must be valid there
        snaps = [e for e in g.events() if e['ev'] == 'store' and e.get('op') == '=' and strip(e['lhs']).get('k') == 'var'
                 and strip(e['lhs']).get('record') == 'timespec' and not strip(e['lhs']).get('ptr') and h.is_clock(e.get('rhs'))]
        okv = bool(tests) and all(valid.get((b, len(blk.events))) for (b, blk) in tests) and all(valid.get((e['_b'], e['_i'])) for e in snaps)
        badt = [blk for (b, blk) in tests if not valid.get((b, len(blk.events)))]
        ctx._c04_expiry_table = table
        ctx.ob('R-C04a', '%s:clock-valid-at-test' % root.name, okv, loc=(badt[0].term.get('loc') if badt else (tests[0][1].term.get('loc') if tests else root.loc)),
               detail='the cached loop time was read from the clock (or tested valid) on every path to each of the %d comparisons of an expiry with it' % len(tests), fn=root.q)


def _validates(e):
    """a store that marks the cached loop time valid (anything but the constant 0)"""
    return e['ev'] == 'store' and h.is_flag(e['lhs']) and not h.invalidates(e)


def expiry_table(ctx, rid='R-C04a.cmp'):
    """The expiry decision as a truth table, evaluated in context: for each of the 9 orders of (expiry, loop clock) over
    (seconds, nanoseconds), the link into the expired batch is reachable since the timer's definition iff the expiry is
    not later than the clock (so a timer that is due now is not left waiting, and the test is exactly the strict order)."""
    table = getattr(ctx, '_c04_expiry_table', None)
    if not table:
        raise AnalysisBroken('expiry decision table not available')
    for o in h.ORDERS:
        rows = table[o]
        want = h.lex(o) != '>'
        bad = [r_ for r_ in rows if r_[0] != want]
        first = (bad or rows)[0]
        ctx.ob(rid, 'expiry-test:sec%s,nsec%s' % o, not bad, loc=first[1]['loc'], fn=first[2].q,
               detail='with expiry %s clock the timer %s moved to the expired batch (%s)' % (
                   {'<': 'before', '=': 'equal to', '>': 'after'}[h.lex(o)], 'must be' if want else 'must not be',
                   'it is not: a due timer is left waiting' if (bad and want) else ('it is' if bad else 'ok')))


def invalidate(ctx):
    prog = ctx.prog
    for (t, slots, f, g) in _slot_contexts(prog):
        waits = [e for e in g.events() if is_call(e, WAITS)]
        if not waits:
            raise AnalysisBroken('%s: wait primitive not found' % f.name)
        ok = True
        for w in waits:
            mp = must_pass(g, h.invalidates, start_event=w)
            for (pb, pi, e) in exits_of(g):
                if mp.get((pb, pi)) is False:
                    ok = False
        ctx.ob('R-C04b', '%s:%s' % (t.replace('iv_fd_poll_method_', ''), f.name), ok, loc=f.loc,
               detail='the cached loop time is marked invalid on every path from the kernel wait (%s) to a return' % '/'.join(sorted({w['callee'] for w in waits})), fn=f.q)
    # Who may call the cached time valid: only code that reads the clock into it.  Evaluated at every store of a non-zero
    # value to the validity flag, in every calling context (helpers inlined): the clock was read into st->time since the
    # last invalidation, or is read on every path from the store before user code runs / the function returns.
    cs = h.contexts(prog, _validates, stop=('iv_time_get',))
    if not cs:
        raise AnalysisBroken('no store marks the cached loop time valid')
    bad, n = [], 0
    for (root, g, sites) in cs:
        copies = h.ptr_copies(g)

        def fresh_tr(e, s_, copies=copies, g=g):
            if h.is_clock_read(e, copies.get((e['_b'], e['_i']), {})):
                return True
            if h.invalidates(e) or h.opaque_touch(prog, g, e):
                return False
            return s_
        _, fresh = forward(g, False, fresh_tr, lambda p, q: p and q)
        for s_ in sites:
            n += 1
            if fresh.get((s_['_b'], s_['_i'])):
                continue
            mp = must_pass(g, lambda e, copies=copies: h.is_clock_read(e, copies.get((e['_b'], e['_i']), {})), start_event=s_)
            okp = True
            for bid, blk in g.blocks.items():
                for i, e in enumerate(blk.events):
                    if ((e['ev'] == 'ret' and not e.get('chain')) or (e['ev'] == 'call' and e is not s_ and h.opaque_touch(prog, g, e) and not is_call(e, 'iv_time_get'))) \
                            and mp.get((bid, i)) is False:
                        okp = False
            if mp.get((g.exit, 0)) is False:
                okp = False
            if not okp:
                bad.append((root, s_))
    first = (bad or [(cs[0][0], cs[0][2][0])])[0]
    ctx.ob('R-C04b', 'time_valid:writers', not bad, loc=first[1]['loc'], fn=first[0].q,
           detail='each of the %d stores (over all calling contexts) that mark the cached loop time valid is accompanied by a read of the clock into it%s'
                  % (n, '' if not bad else ': not so in ' + ', '.join(sorted({'%s@%s' % (r.name, relpath(e['loc'])) for r, e in bad}))))


def _timer_runners(prog):
    return sorted({root.name for (root, g, links) in _expiry_contexts(prog)})


def _pollers(prog):
    cs = h.contexts(prog, _method_poll)
    if not cs:
        raise AnalysisBroken('no function calls method->poll')
    return sorted({root.name for (root, g, sites) in cs})


def _kernel_timer_fds(prog):
    """identities of the lvalues that hold the kernel timer's descriptor: what is handed to timerfd_settime, and what the
    result of timerfd_create is stored in (role, not field name)"""
    if getattr(prog, '_c04_tfds', None) is None:
        ids = set()
        for f in prog.all_funcs():
            if not any(is_call(e, ('timerfd_settime', 'timerfd_create')) for e in f.events()):
                continue
            org = h.Origins(f)
            for e in f.events():
                if is_call(e, 'timerfd_settime') and e.get('args') and last_member(e['args'][0]) is not None:
                    ids.add(_ident(e['args'][0]))
                if e['ev'] == 'store' and e.get('op') == '=' and 'rhs' in e and last_member(e['lhs']) is not None and \
                        any(isinstance(strip(o), dict) and strip(o).get('k') == 'call' and strip(o).get('callee') == 'timerfd_create'
                            for o in org.of(e['rhs'], (e['_b'], e['_i']))):
                    ids.add(_ident(e['lhs']))
        prog._c04_tfds = ids
    return prog._c04_tfds


def rerun(ctx):
    prog = ctx.prog
    for (t, slots, f, g) in _slot_contexts(prog):
        short = t.replace('iv_fd_poll_method_', '')
        has_timer = bool(slots.get('set_poll_timeout'))
        if not has_timer:
            res = h.return_signs(g)
            bad = [(e, v) for (e, v) in res if v != 'NZ']
            ctx.ob('R-C04c', '%s:returns-nonzero' % short, not bad and bool(res),
                   loc=bad[0][0]['loc'] if bad else f.loc,
                   detail='every return of %s asks the caller to run timers (also on EINTR): %s' % (f.name, sorted({v for (_, v) in res})), fn=f.q)
        else:
            absn = _deadline_param(f)
            res = h.return_signs(g, init={absn: 'NZ'})
            bad = [(e, v) for (e, v) in res if v != 'NZ']
            ctx.ob('R-C04c', '%s:deadline-given-returns-nonzero' % short, not bad and bool(res),
                   loc=bad[0][0]['loc'] if bad else f.loc,
                   detail='given a deadline, every return of %s asks the caller to run timers: %s' % (f.name, sorted({v for (_, v) in res})), fn=f.q)
            # consuming the kernel timer's token: from the read of the timer descriptor every path returns non-zero
            tfds = _kernel_timer_fds(prog)
            reads = [e for e in g.events() if is_call(e, 'read') and e.get('args') and _ident(e['args'][0]) in tfds]
            okr = bool(reads)
            vals = set()
            for r in reads:
                res = h.return_signs(g, start_event=r)
                if not res:
                    okr = False
                for (e, v) in res:
                    vals.add(v)
                    if v != 'NZ':
                        okr = False
            ctx.ob('R-C04c', '%s:timer-token-sets-run-timers' % short, okr, loc=reads[0]['loc'] if reads else f.loc,
                   detail='after the timer descriptor was read (the kernel timer fired) every return of the poll reports "run timers": %s' % sorted(vals), fn=f.q)
    _main_loop(ctx)


def _main_loop(ctx):
    """Timers are evaluated between any two waits unless the earlier wait said there is nothing to do, and before the first
    wait.  Disjunctive forward analysis over (timers still to be evaluated, what integer locals hold: a constant, the
    result P of the latest poll, or its negation): a call of the timer runner clears the need, a poll call raises it, an
    edge on which a local holding P is zero (or one holding !P is non-zero) clears it; edges contradicting a constant
    are infeasible.  No assumption on the loop form, on the name or polarity of the flag, or on where the runner is called."""
    prog = ctx.prog
    runners, pollers = _timer_runners(prog), _pollers(prog)

    def is_poll(e):
        return is_call(e, tuple(pollers))
    cs = h.contexts(prog, is_poll, stop=tuple(runners) + tuple(pollers) + ('iv_get_soonest_timeout', 'iv_run_tasks'))
    if not cs:
        raise AnalysisBroken('nothing calls %s' % '/'.join(pollers))
    for (root, g, sites) in cs:
        def absval(x, env):
            x = strip(x)
            if not isinstance(x, dict):
                return None
            c = h.const_of(x)
            if c is not None:
                return ('c', c)
            k = x.get('k')
            if k == 'call' and x.get('callee') in pollers:
                return 'P'
            if k == 'var':
                return env.get(x['name'])
            if k == 'un' and x.get('op') == '!':
                v = absval(x['e'], env)
                if v == 'P':
                    return 'NP'
                if v == 'NP':
                    return 'P'
                if isinstance(v, tuple):
                    return ('c', int(not v[1]))
                return None
            if k == 'bin' and x.get('op') in ('!=', '==') and h.const_of(x['r']) == 0:
                v = absval(x['l'], env)
                if x['op'] == '!=':
                    return ('c', int(v[1] != 0)) if isinstance(v, tuple) else v
                return absval({'k': 'un', 'op': '!', 'e': x['l']}, env)
            return None

        def tr(e, S):
            out = set()
            for (need, envk) in S:
                env = dict(envk)
                if e['ev'] == 'call' and is_poll(e):
                    need = True
                    env = {k: v for k, v in env.items() if v not in ('P', 'NP')}
                elif is_call(e, tuple(runners)):
                    need = False
                elif e['ev'] == 'store':
                    l = strip(e['lhs'])
                    if l.get('k') == 'var':
                        v = absval(e['rhs'], env) if e.get('op') == '=' and 'rhs' in e else None
                        if v is None:
                            env.pop(l['name'], None)
                        else:
                            env[l['name']] = v
                elif e['ev'] == 'decl':
                    env.pop(e['name'], None)
                elif e['ev'] == 'call':
                    for a in e.get('args', []):
                        a = strip(a)
                        if isinstance(a, dict) and a.get('k') == 'addr' and strip(a['e']).get('k') == 'var':
                            env.pop(strip(a['e'])['name'], None)
                out.add((need, tuple(sorted(env.items(), key=str))))
            return frozenset(out)

        def edge(blk, si, S):
            if not (blk.term and blk.term.get('cond') is not None and len(blk.succ) == 2) or blk.term.get('cls') in ('SwitchStmt', 'MethodDispatch'):
                return S
            atoms = [a for a in norm_cond(blk.term['cond'], si == 0) if a[0] != 'const']
            out = set()
            # with no timer registered the evaluation is vacuous (the runner returns at once): such an edge discharges it
            notimers = any(h.is_num(l) and h.const_of(r) is not None and
                           ((op in ('==', '<=') and h.const_of(r) == 0) or (op == '<' and h.const_of(r) == 1)) for (op, lc, rc, l, r) in atoms)
            for (need, envk) in S:
                env = dict(envk)
                feasible = True
                if notimers:
                    need = False
                for (op, lc, rc, l, r) in atoms:
                    v = absval(l, env)
                    cr = h.const_of(r)
                    if v is None or cr is None:
                        continue
                    if isinstance(v, tuple):
                        if not eval('%d %s %d' % (v[1], op, cr)):
                            feasible = False
                        continue
                    nz = None
                    if cr == 0 and op in ('!=', '>'):
                        nz = True
                    elif (cr == 0 and op in ('==', '<=')) or (cr == 1 and op == '<'):
                        nz = False
                    elif cr == 1 and op == '>=':
                        nz = True
                    if nz is None:
                        continue
                    if (v == 'P' and not nz) or (v == 'NP' and nz):
                        need = False            # the latest poll returned 0: nothing to evaluate
                if feasible:
                    out.add((need, envk))
            return frozenset(out) if out else None
        _, ev_in = forward(g, frozenset({(True, ())}), tr, lambda p, q: p | q, edge=edge)
        bysite = {}
        for s_ in sites:
            S = ev_in.get((s_['_b'], s_['_i']))
            ok = S is not None and not any(need for (need, _) in S)
            bysite[s_['loc']] = (bysite.get(s_['loc'], (True, s_))[0] and ok, s_)
        for loc, (ok, s_) in sorted(bysite.items()):
            ctx.ob('R-C04c', '%s:timers-run-when-poll-said-so' % root.name, ok, loc=loc,
                   detail='on every path to %s the timers were evaluated (%s) since the previous wait returned non-zero, and before the first wait'
                          % (describe(s_), '/'.join(runners)), path=None if ok else path_to(g, s_), fn=root.q)


def once(ctx):
    """Exactly-once structure, per definition of the timer variable (no loop shape, no statement order assumed): whenever
    a timer X that was linked into the expired batch becomes visible to others (user code is entered, the function
    returns, X is redefined), X has left the heap since its definition (iv_timer_unregister(X), or its body inlined:
    the timer count lowered) and X->index holds 0, stored after the heap removal (index == 0 <=> in the batch is what
    unregister-from-a-handler relies on)."""
    prog = ctx.prog
    for (root, g, links) in _expiry_contexts(prog):
        res = {}
        org = h.Origins(g)
        inl = _inlined_unregisters(prog, g)

        def pt(e):
            return (e['_b'], e['_i'])
        for a in links:
            xn, xlocals = _move_identity(prog, g, org, a)

            def reset(e, xl=xlocals):
                return h.redefines(e, xl)

            def unreg(e, xn=xn):
                if is_call(e, 'iv_timer_unregister'):
                    return bool(e.get('args')) and h.same_obj(e['args'][0], xn, org, pt(e))
                if e['ev'] == 'leave' and e.get('inst') in inl:          # the same operation, inlined from a helper
                    ent, arg = inl[e['inst']]
                    return h.same_obj(arg, xn, org, pt(ent))
                return _heap_leave(e) and not e.get('chain')             # open-coded in the context function itself

            def is_stamp(e, xn=xn):
                return e['ev'] == 'store' and last_member(e['lhs']) in (('iv_timer_', 'index'), ('iv_timer', 'index')) \
                    and h.same_obj(h.member_base(e['lhs']), xn, org, pt(e))

            def tr2(e, S, xn=xn):
                if reset(e):
                    return frozenset({(False, False, False)})
                if unreg(e):
                    return frozenset((l, True, False) for (l, u, s_) in S)
                if is_stamp(e):
                    v = h.const_of(e.get('rhs')) if e.get('op') == '=' else None
                    return frozenset((l, u, v == 0) for (l, u, s_) in S)
                if _expired_link(g, e) and h.same_obj(_timer_of_move(g, e), xn, org, pt(e)):
                    return frozenset((True, u, s_) for (l, u, s_) in S)
                return S
            _, ev2 = forward(g, frozenset({(False, False, False)}), tr2, lambda p, q: p | q)
            bad_u, bad_s = None, None
            ends = []
            for bid, blk in g.blocks.items():
                for i, e in enumerate(blk.events):
                    if reset(e) or (e['ev'] == 'call' and 'fnexpr' in e and (callback_kind(e) or ('', ''))[0] != 'method') or e['ev'] == 'ret':
                        ends.append((ev2.get((bid, i)) or (), e))
            ends.append((ev2.get((g.exit, 0)) or (), a))
            for (S, e) in ends:
                if any(l and not u for (l, u, s_) in S):
                    bad_u = bad_u or e
                if any(l and not s_ for (l, u, s_) in S):
                    bad_s = bad_s or e
            k = a['loc']
            prev = res.get(k, (a, None, None))
            res[k] = (a, prev[1] or bad_u, prev[2] or bad_s)
        for k, (a, bad_u, bad_s) in sorted(res.items()):
            ctx.ob('R-C04d', '%s:leaves-heap-through-unregister' % root.name, bad_u is None, loc=a['loc'],
                   detail='the timer linked by %s has left the heap (iv_timer_unregister / timer count lowered) since its definition whenever user code runs, '
                          'it is redefined or the function returns%s' % (describe(a), '' if bad_u is None else ': not so at %s' % relpath(bad_u.get('loc', '?'))),
                   path=None if bad_u is None else path_to(g, a), fn=root.q)
            ctx.ob('R-C04d', '%s:expired-stamp' % root.name, bad_s is None, loc=a['loc'],
                   detail='X->index = 0 (after the heap removal) accompanies %s before user code runs, X is redefined or the function returns%s'
                          % (describe(a), '' if bad_s is None else ': not so at %s' % relpath(bad_s.get('loc', '?'))), fn=root.q)
    INDEX = (('iv_timer_', 'index'), ('iv_timer', 'index'))

    def guarded(g, op, rc, targets):
        """every path from entry to each target crossed an edge on which the index of a timer held in a local compared
        (op rc), tested before this function wrote any index"""
        def tr(e, s):
            if e['ev'] == 'store' and last_member(e['lhs']) in INDEX and not s[0]:
                return (s[0], True)
            return s

        def edge(blk, si, s):
            if s[0] or s[1] or not (blk.term and blk.term.get('cond') is not None):
                return s
            if blk.term.get('cls') == 'SwitchStmt':
                # `switch (X->index)`: index == v on the edge of `case v` (when no other label shares the target), index != every
                # case value on the `default` edge.  A fall-through from a neighbouring arm is another CFG edge and joins as such.
                c = blk.term['cond']
                cases = blk.term.get('cases') or []
                if len(cases) != len(blk.succ) or si >= len(cases) or not (last_member(c) in INDEX and
                                                                          strip(h.member_base(c) or {}).get('k') == 'var'):
                    return s
                same = [cv for k_, cv in enumerate(cases) if blk.succ[k_] == blk.succ[si]]
                if len(same) != 1:
                    return s
                me = cases[si]
                if isinstance(me, int):
                    at = [('==', canon(c), str(me), None)]
                elif me == 'default':
                    at = [('!=', canon(c), str(cv), None) for cv in cases if isinstance(cv, int)]
                else:
                    return s
                return (True, s[1]) if atoms_imply(at, op, canon(c), rc) else s
            if len(blk.succ) != 2 or blk.term.get('cls') == 'MethodDispatch':
                return s
            for (o_, lc, r_, l, r) in norm_cond(blk.term['cond'], si == 0):
                if o_ != 'const' and last_member(l) in INDEX and strip(h.member_base(l) or {}).get('k') == 'var' \
                        and atoms_imply([(o_, lc, r_, None)], op, lc, rc):
                    return (True, s[1])
            return s
        _, ev_in = forward(g, (False, False), tr, lambda p, q: (p[0] and q[0], p[1] or q[1]), edge=edge)
        return bool(targets) and all((ev_in.get((e['_b'], e['_i'])) or (False, False))[0] for e in targets)
    h.need('num')
    r = prog.fn('iv_timer_register')
    g = h.inline_root(prog, r)
    incs = [e for e in g.events() if e['ev'] == 'store' and h.is_num(e['lhs'])]
    ctx.ob('R-C04d', 'iv_timer_register:refuses-registered', guarded(g, '==', '-1', incs), loc=r.loc,
           detail='the timer count is raised (a timer enters the heap) only behind the edge index == -1 of the timer as passed in (double registration is fatal)', fn=r.q)
    u = prog.fn('iv_timer_unregister')
    g = h.inline_root(prog, u)
    outs = [e for e in g.events() if (e['ev'] == 'store' and h.is_num(e['lhs'])) or
            (is_call(e, ('iv_list_del', 'iv_list_del_init')) and h.list_arg_member(e) in (('iv_timer_', 'list_expired'), ('iv_timer', 'list_expired')))]
    ctx.ob('R-C04d', 'iv_timer_unregister:refuses-unregistered', guarded(g, '!=', '-1', outs), loc=u.loc,
           detail='heap removal and unlinking from the expired batch happen only behind the edge index != -1 of the timer as passed in '
                  '(unregistering an unregistered timer is fatal)', fn=u.q)


def _is_heap_root(x, org, point, depth=0):
    """x denotes heap slot 1: <ratnode>.first_leaf.child[1] (the leftmost leaf is embedded in the state), directly or
    through locals / helper results whose every origin is that slot"""
    x = strip(x)
    if not isinstance(x, dict) or depth > 6:
        return False
    if x.get('k') == 'var':
        os_ = org.of(x, point)
        return bool(os_) and all(strip(o).get('k') != 'var' and _is_heap_root(o, org, point, depth + 1) for o in os_)
    if x.get('k') == 'index' and h.const_of(x.get('idx')) == 1:
        b = strip_load_(x['base'])
        if isinstance(b, dict) and b.get('k') == 'member' and b.get('field') == 'child' and b.get('record') == 'iv_timer_ratnode' and not b.get('arrow'):
            bb = strip_load_(b['base'])
            return isinstance(bb, dict) and bb.get('k') == 'member' and bb.get('field') == 'first_leaf'
    return False


def strip_load_(x):
    while isinstance(x, dict) and x.get('k') in ('load', 'cast', 'paren') and 'e' in x:
        x = x['e']
    return x


def deadline(ctx):
    """Where the deadline of the wait comes from.  The deadline is what the function that waits (calls method->poll) is
    given as its `struct timespec *` argument -- then its origins are examined in every context that calls it --, or,
    when that function computes the deadline itself, what it assigns to its deadline pointer (the local that receives the
    answer of the deadline query, _request) -- then every definition of that local is examined."""
    prog = ctx.prog
    pollers = _pollers(prog)
    own = []
    for (root, g, sites) in h.contexts(prog, _method_poll, stop=REQUEST_STOP):
        if root.name in pollers and not [p_ for p_ in root.params if p_.get('ptr') and p_.get('record') == 'timespec']:
            own.append((root, g, sites))

    def is_poll(e):
        return is_call(e, tuple(pollers))
    cs = h.contexts(prog, is_poll, stop=tuple(_timer_runners(prog)) + tuple(pollers) + ('iv_get_soonest_timeout', 'iv_run_tasks'))
    if not cs:
        raise AnalysisBroken('nothing calls %s' % '/'.join(pollers))
    ownq = {r.q for (r, _, _) in own}
    for (root, g, sites) in own:
        name, _, defs = _request(root, g)
        kinds = set()
        for (e, ks) in defs:
            kinds |= ks
        ctx.ob('R-C04e', '%s:deadline-definitions' % root.name, kinds == {'zeroed-local', 'soonest'}, loc=defs[0][0]['loc'],
               detail='what the poll deadline (computed by the waiting function itself) may come from (through locals, helper results and '
                      'conditional expressions): %s' % sorted(kinds), fn=root.q)
    for (root, g, sites) in cs:
        org = h.Origins(g)
        kinds, site = set(), None
        for s_ in sites:
            # the deadline argument: the timespec pointer argument of the poll call
            tgt = prog.fn(s_['callee'])
            if tgt.q in ownq:
                continue
            site = site or s_
            idx = [i for i, p_ in enumerate(tgt.params) if p_.get('ptr') and p_.get('record') == 'timespec']
            if len(idx) != 1 or idx[0] >= len(s_['args']):
                raise AnalysisBroken('%s: deadline argument not identified' % s_['callee'])
            for o in org.of(s_['args'][idx[0]], (s_['_b'], s_['_i'])):
                kinds.add(_deadline_kind(o))
        if site is None:
            continue
        ctx.ob('R-C04e', '%s:deadline-definitions' % root.name, kinds == {'zeroed-local', 'soonest'}, loc=site['loc'],
               detail='what the poll deadline may come from (through locals, helper results and conditional expressions): %s' % sorted(kinds), fn=root.q)
    _soonest(ctx)


def _soonest(ctx):
    """What the deadline query answers, by value: the query (helpers inlined) is evaluated along all its paths for timer
    counts 0, 1, 2 and 9 (h.explore: the count may be tested directly, through a local it was read into, in a conditional
    expression of the return statement or of a store to a result local, in either branch order); the value that reaches each
    return is resolved along the path: NULL, the address of the expiry of heap slot 1, or something else."""
    prog = ctx.prog
    s = prog.fn('iv_get_soonest_timeout')
    g = h.inline_root(prog, s)
    org = h.Origins(g)
    h.need('num')
    copies = h.ptr_copies(g)
    num_keys = {canon(x) for x0, cp in _all_exprs(g, copies) for x in walk(x0) if x.get('k') == 'member' and h.is_num(x)}
    # (a query that never reads the count is evaluated all the same: it then answers the same for 0 timers as for 9)

    def kind(v, path, point, depth=0):
        v = strip(h._through(v, path['ptrs']))
        while isinstance(v, dict) and v.get('k') == 'cond' and depth < 8:
            depth += 1
            try:
                v = strip(h._through(v['a'] if path['eval'](v['c'], True) else v['b'], path['ptrs']))
            except interp.Undecided:
                return 'undecided:' + canon(v)
        if not isinstance(v, dict):
            return 'other:?'
        if h.const_of(v) == 0:
            return 'null'
        if v.get('k') == 'addr':
            if last_member(v['e']) in (('iv_timer_', 'expires'), ('iv_timer', 'expires')) and _is_heap_root(h.member_base(v['e']), org, point):
                return 'root'
            return 'other:' + canon(v)
        if v.get('k') == 'var':
            if path['env'].get(v['name']) == 0:
                return 'null'
            os_ = [strip(o) for o in org.of(v, point)]
            if os_ and not any(isinstance(o, dict) and o.get('k') == 'var' for o in os_) and depth < 8:
                ks = {kind(o, path, point, depth + 1) for o in os_ if h.const_of(o) != 0}
                if len(ks) == 1:
                    return next(iter(ks))
        return 'other:' + canon(v)
    okroot, oknull, nroot, nnull, seen = True, True, 0, 0, set()
    for n in (0, 1, 2, 9):
        for path in h.explore(g, ints={k: n for k in num_keys}):
            if path['end'] != 'ret' or not path['trace'] or 'value' not in path['trace'][-1]:
                continue
            e = path['trace'][-1]
            kd = kind(e['value'], path, (e['_b'], e['_i']))
            seen.add('%d timers: %s' % (n, kd))
            if kd == 'null':
                nnull += 1
                oknull = oknull and n == 0
            else:
                nroot += 1
                okroot = okroot and kd == 'root' and n != 0
    ctx.ob('R-C04e', 'soonest:heap-root-when-nonempty', okroot and nroot > 0, loc=s.loc,
           detail='every non-NULL result is the address of the expiry of heap slot 1, returned only when num_timers != 0 (evaluated: %s)' % sorted(seen), fn=s.q)
    ctx.ob('R-C04e', 'soonest:null-when-empty', oknull and nnull > 0, loc=s.loc,
           detail='NULL (no deadline) is returned only when num_timers == 0 (evaluated: %s)' % sorted(seen), fn=s.q)


# ---------------------------------------------------------------------------------------
# R-C04h: the deadline the loop waits for is the earliest registered expiry, after every history
# ---------------------------------------------------------------------------------------
# "Never oversleeps" is a statement about what iv_get_soonest_timeout() answers *after any sequence* of
# iv_timer_register / iv_timer_unregister, not about one source construct: the rules above show that the wait gets
# that answer (R-C04e) and that the runner examines that timer only (R-C04a); this one shows that the answer is the
# minimum.  It is decided on states, observed exactly as the loop observes them; how the store keeps its order
# (which helper sifts in which direction, loop forms, cached slots) is invisible to it.

H_KINDS = (('calls-return', 'every evaluated call returns (no fatal path, no wild pointer, terminates)'),
           ('deadline-is-earliest', 'the deadline is the expiry of a registered timer and no registered timer is earlier'),
           ('none-iff-empty', 'there is no deadline exactly when no timer is registered'))
H_SMALL = 7        # cancel: order-valid populations up to this size
H_ORDERS = 6       # grow: all registration orders up to this size; rearm: populations up to this size
H_MEDIUM = 68      # number of pseudo-random histories on 8..24 timers
H_CLASSES = ('grow', 'cancel', 'rearm', 'medium', 'mixed')

# a history is a list of calls ('R', timer, expiry it has at that call) / ('U', timer) / ('D', timer): unregister of the timer
# the deadline named


def _k(k):
    return '%d.%03d' % k


def _text(ops):
    out = []
    i = 0
    if len(ops) > 60:
        # a long history: its size, and the calls since the last registration in full
        j = max([n for n, o in enumerate(ops) if o[0] == 'R'] + [0])
        j = max(j - 3, len(ops) - 40, 0)
        out.append('a history of %d registrations and %d cancellations anywhere' % (sum(1 for o in ops[:j] if o[0] == 'R'),
                                                                                  sum(1 for o in ops[:j] if o[0] == 'U')))
        i = j
    first = i == 0
    while i < len(ops):
        j = i
        while j < len(ops) and ops[j][0] == ops[i][0]:
            j += 1
        run = [_k(o[2]) for o in ops[i:j]]
        if len(run) > 16:
            run = run[:4] + ['...'] + run[-8:]
        if ops[i][0] == 'R':
            out.append(('registered in this order: %s' if first and len(run) > 1 else 'register of %s') % ' '.join(run))
        elif ops[i][0] == 'U':
            out.append('unregister of %s' % ' '.join(run))
        else:
            out.append('then the timer named by the deadline taken off %d times (%s)' % (j - i, ' '.join(run)))
        first = False
        i = j
    return '; '.join(out) if out else 'nothing registered yet'


class _Hist:
    def __init__(self, W, quiet=False):
        self.W = W
        self.bad = {}
        self.runs = {}
        self.ops = {}
        self.quiet = quiet

    def ran(self, cls, kind):
        self.runs[(cls, kind)] = self.runs.get((cls, kind), 0) + 1

    def add(self, cls, kind, ops, detail, fn=None):
        """first counterexample of (class, kind); fn: the function that itself misbehaved (None: to be attributed, _culprit)"""
        if (cls, kind) not in self.bad:
            self.bad[(cls, kind)] = detail if self.quiet else '%s: %s' % (_text(ops), detail)
            self.ops[(cls, kind)] = (list(ops), fn, self.W.last)

    def observe(self, cls, pending, ops):
        """look at the deadline as the loop does; returns the registered timer it names (None: nothing to take off)"""
        W = self.W
        kind, k, t, text = W.deadline()
        self.ran(cls, 'calls-return')
        self.ran(cls, 'none-iff-empty')
        if kind == 'fault':
            self.add(cls, 'calls-return', ops, text, fn=W.f_soonest)
            return None
        if not pending:
            if kind != 'none':
                self.add(cls, 'none-iff-empty', ops, 'no timer is registered but the deadline is %s' % text)
            return None
        if kind == 'none':
            self.add(cls, 'none-iff-empty', ops, '%d timers are registered but the loop is given no deadline' % len(pending))
            return None
        self.ran(cls, 'deadline-is-earliest')
        lo = min(W.key[x] for x in pending)
        if kind != 'timer' or not any(t is x for x in pending):
            self.add(cls, 'deadline-is-earliest', ops, 'the deadline (%s) is not the expiry of a registered timer' % text)
            return None
        if k != W.key[t]:
            self.add(cls, 'deadline-is-earliest', ops, 'the expiry of the timer named by the deadline was changed to %s' % text)
        if W.key[t] != lo:
            self.add(cls, 'deadline-is-earliest', ops,
                     'the deadline is %s although the timer with the earlier expiry %s is registered: the loop sleeps past it '
                     'and runs it after a later one' % (text, _k(lo)))
        return t

    def call(self, cls, what, t, ops):
        """evaluate one public call (ops: the history including it); False when it did not return"""
        self.ran(cls, 'calls-return')
        fault = self.W.call('register' if what == 'R' else 'unregister', t)
        if fault is not None:
            self.add(cls, 'calls-return', ops, fault.msg, fn=self.W.last)
            return False
        return True

    def reg(self, cls, t, ops, pending):
        """register t and look at the deadline: (went on, history, registered timers)"""
        ops = ops + [('R', t, self.W.key[t])]
        if not self.call(cls, 'R', t, ops):
            return False, ops, pending
        pending = pending + [t]
        self.observe(cls, pending, ops)
        return True, ops, pending

    def unreg(self, cls, t, ops, pending, tag='U'):
        ops = ops + [(tag, t, self.W.key[t])]
        if not self.call(cls, 'U', t, ops):
            return False, ops, pending
        pending = [x for x in pending if x is not t]
        return True, ops, pending

    def drain(self, cls, pending, ops):
        """what the runner does when time passes: take off the timer the deadline names, until none is left"""
        while True:
            t = self.observe(cls, pending, ops)
            if t is None:
                return
            ok, ops, pending = self.unreg(cls, t, ops, pending, 'D')
            if not ok:
                return


def _culprit(W, ops, limit=80):
    """The call a counterexample is blamed on: the first call of the history after which taking the deadline timers off one
    by one goes wrong (the store is not in order any more, although the deadline may still be right).  (function, text) or None."""
    if len(ops) > limit:
        return None
    W.fresh()
    W.mark()
    new = {}
    pending = []
    for n, (tag, t, key) in enumerate(ops):
        if tag == 'R':
            if t in new:
                W.m.write(new[t], W.o_exp + W.o_sec, key[0])
                W.m.write(new[t], W.o_exp + W.o_nsec, key[1])
                W.key[new[t]] = key
            else:
                new[t] = W.timer(key)
        if t not in new:
            return None
        fault = W.call('register' if tag == 'R' else 'unregister', new[t])
        f = W.last
        text = 'call %d of the history, %s of %s' % (n + 1, 'register' if tag == 'R' else 'unregister', _k(key))
        if fault is not None:
            return f, text
        pending = (pending + [new[t]]) if tag == 'R' else [x for x in pending if x is not new[t]]
        at = W.pos()
        probe = _Hist(W, quiet=True)
        probe.drain('probe', pending, [])
        W.rollback(at)
        if probe.bad:
            return f, text
    return None


def _orders(R, W, keyof, ranks):
    """class grow: the timers of the given ranks registered in every order (depth-first over the orders, shared prefixes
    evaluated once), the deadline observed after every call; every complete population is then drained"""
    W.fresh()
    W.mark()
    R.observe('grow', [], [])

    def rec(ops, ts, left):
        if not left:
            R.drain('grow', ts, ops)
            return
        at = W.pos()
        seen = set()
        for j, r in enumerate(left):
            if r in seen:                 # equal expiries: orders that differ only in which of them comes first are the same history
                continue
            seen.add(r)
            ok, ops2, ts2 = R.reg('grow', W.timer(keyof(r)), ops, ts)
            if ok:
                rec(ops2, ts2, left[:j] + left[j + 1:])
            W.rollback(at)
    rec([], [], list(ranks))


def earliest(ctx, rid='R-C04h'):
    from . import h05
    W = h.TimerWorld(ctx.prog)
    R = _Hist(W)
    keyof = h05.key_of_rank
    # -- grow: every order of registration of up to 6 timers (a store that keeps its order by sifting is driven through every
    #    sequence of sift decisions), incl. populations with equal expiries
    for n in range(1, H_ORDERS + 1):
        _orders(R, W, keyof, [2 * r for r in range(n)])
    for n in range(2, H_ORDERS):
        _orders(R, W, keyof, [2 * (r // 2) for r in range(n)])
    # -- cancel / rearm on small populations: every arrangement a binary heap of n timers can be in is reached by registering in
    #    slot order; for any other representation these are simply further histories
    for n in range(1, H_SMALL + 1):
        for hp in h05.heaps(n):
            for ranks in [[2 * r for r in hp]] + ([[2 * (r // 2) for r in hp]] if 2 <= n <= 5 else []):
                W.fresh()
                ts, ops, ok = [], [], True
                for r in ranks:
                    ok, ops, ts = R.reg('cancel', W.timer(keyof(r)), ops, ts)
                    if not ok:
                        break
                if not ok:
                    continue
                W.mark()
                for v in ts:
                    ok, ops2, rest = R.unreg('cancel', v, ops, ts)
                    if ok:
                        R.drain('cancel', rest, ops2)
                    W.rollback()
                if ranks[-1:] != [2 * hp[-1]] or len(set(ranks)) != n or n > H_ORDERS:
                    continue
                # a timer taken off and registered again with another expiry (what a handler or a caller re-arming it does),
                # followed by one more registration
                for v in ts:
                    old = W.key[v]
                    for r2 in ([2 * n + 1] if n > 4 else sorted({-1, 2 * n + 1, (ranks[len(ranks) // 2]) + 1})):
                        ok, ops2, rest = R.unreg('rearm', v, ops, ts)
                        if ok:
                            R.observe('rearm', rest, ops2)
                            k2 = keyof(r2)
                            W.m.write(v, W.o_exp + W.o_sec, k2[0])
                            W.m.write(v, W.o_exp + W.o_nsec, k2[1])
                            W.key[v] = k2
                            ok, ops2, rest = R.reg('rearm', v, ops2, rest)
                            if ok:
                                ok, ops2, rest = R.reg('rearm', W.timer(keyof(2 * n + 3)), ops2, rest)
                            if ok:
                                R.drain('rearm', rest, ops2)
                        W.key[v] = old
                        W.rollback()
    # -- medium: pseudo-random histories on populations of 8..24 (holes and the last timers in different subtrees of a tree-shaped
    #    store): registrations, cancellations of any timer and of the most recently registered ones, registrations in between
    x = [20240917]

    def rnd(m):
        x[0] = (x[0] * 1103515245 + 12345) & 0x7fffffff
        return (x[0] >> 8) % m
    for hno in range(H_MEDIUM):
        n = 8 + hno % 17
        W.fresh()
        live, ops, ok = [], [], True
        for i in range(n):
            ok, ops, live = R.reg('medium', W.timer(keyof(rnd(3 * n))), ops, live)
            if not ok:
                break
        for c in range(1 + hno % 4):
            if not ok or not live:
                break
            v = live[rnd(len(live))] if rnd(2) else live[-1 - rnd(min(3, len(live)))]
            ok, ops, live = R.unreg('medium', v, ops, live)
            if ok:
                R.observe('medium', live, ops)
            for extra in range(rnd(3) if ok else 0):
                ok, ops, live = R.reg('medium', W.timer(keyof(rnd(3 * n) if rnd(2) else 3 * n + c)), ops, live)
                if not ok:
                    break
        if ok:
            R.drain('medium', live, ops)
    # -- mixed: one long history: growth across the first capacity boundary of the store, cancellations anywhere mixed with
    #    registrations, then time passes until nothing is left
    fan = 128
    try:
        fan = int(W.m.ty.field('iv_timer_ratnode', 'child')['bound'])
    except (AnalysisBroken, KeyError, TypeError, ValueError):
        pass
    W.fresh()
    live, ops, ok = [], [], True
    x[0] = 12345
    i = 0
    R.observe('mixed', live, ops)
    while ok and i < fan + 13 + 90:
        i += 1
        if i > fan + 13 and live and rnd(3):
            ok, ops, live = R.unreg('mixed', live[rnd(len(live))], ops, live)
            if ok:
                R.observe('mixed', live, ops)
        else:
            ok, ops, live = R.reg('mixed', W.timer(keyof(rnd(97) * 2 + (i & 1))), ops, live)
    if ok:
        R.drain('mixed', live, ops)
    what = {'grow': (W.f_reg, 'up to %d timers registered in every order (incl. equal expiries), then drained through the deadline' % H_ORDERS),
            'cancel': (W.f_unreg, 'every order-valid population of 1..%d timers, every timer of it unregistered, then drained' % H_SMALL),
            'rearm': (W.f_reg, 'every order-valid population of 1..%d timers, every timer of it unregistered and registered again with '
                               'another expiry (earlier than all / in the middle / later than all), one more registration, then drained' % H_ORDERS),
            'medium': (W.f_unreg, '%d pseudo-random histories on 8..24 timers: cancellations of any and of the most recently registered '
                                  'timers, registrations in between, drain' % H_MEDIUM),
            'mixed': (W.f_unreg, 'growth to %d timers, %d cancellations anywhere mixed with registrations, drain' % (fan + 13, 90))}
    blamed = {}
    for cls in H_CLASSES:
        f0, text = what[cls]
        for (kind, ktext) in H_KINDS:
            nrun = R.runs.get((cls, kind), 0)
            bad = R.bad.get((cls, kind))
            f = f0
            if not nrun and bad is None:
                other = sorted(k_ for (c, k_) in R.bad if c == cls)
                if not other:
                    raise AnalysisBroken('%s: no history of class %s was observed' % (kind, cls))
                ctx.ob(rid, '%s:%s' % (cls, kind), False, loc=f.loc, fn=f.q,
                       detail='%s -- never observed: every history of the class stopped before (%s)' % (ktext, ', '.join(other)))
                continue
            if bad is not None:
                ops, f, last = R.ops[(cls, kind)]
                if f is None:
                    key = tuple((o[0] != 'R', id(o[1]), o[2]) for o in ops)
                    if key not in blamed:
                        try:
                            blamed[key] = _culprit(W, ops)
                        except AnalysisBroken:      # the counterexample stands; only its attribution to one call is not available
                            blamed[key] = None
                    if blamed[key] is not None:
                        f = blamed[key][0]
                        bad += ' -- the store is out of order from %s on (taking the deadline timers off one by one from there goes wrong)' \
                               % blamed[key][1]
                f = f or last or W.f_soonest        # not attributed: the last call made; wrong before any call: the deadline query
            ctx.ob(rid, '%s:%s' % (cls, kind), bad is None, loc=f.loc, fn=f.q,
                   detail=('%s; %s (%d observations)' % (ktext, text, nrun)) if bad is None
                   else '%s -- violated after the history: %s' % (ktext, bad))


# ---------------------------------------------------------------------------------------
# R-C04i: a timer that was unregistered before its handler ran is not run
# ---------------------------------------------------------------------------------------
# Between iv_run_timers() moving the due timers into its batch and the handler call of each of them, handlers of earlier
# timers of the batch run and may unregister later ones.  "Exactly once unless unregistered first" then rests on two
# things: iv_timer_unregister() removes the timer from wherever it is kept (heap or batch) on every path on which it
# returns, and the runner's choice of the next timer to run is made from the batch as it is *after* the latest handler.

HANDLER_MEMBER = (('iv_timer_', 'handler'), ('iv_timer', 'handler'))
LINKS = (('iv_list_head', 'next'), ('iv_list_head', 'prev'))


def _unlinks_expired(e, cp):
    """the event takes some timer's `list_expired` node out of the list it is in: a list removal primitive (also the fused
    open-coded form) given that node -- written out or through a pointer local holding its address --, or the open-coded
    re-linking of a neighbour:  NODE.prev->next = ... / NODE.next->prev = ...  with NODE = X->list_expired"""
    if is_call(e, ('iv_list_del', 'iv_list_del_init')) and e.get('args'):
        z = h.deref_target(e['args'][0], cp)
        return z is not None and last_member(z) in LE_MEMBER
    if e['ev'] == 'store' and e.get('op') == '=' and 'rhs' in e and last_member(e['lhs']) in LINKS:
        l = strip(h._through(e['lhs'], {n: v for n, v in cp.items() if isinstance(strip(v), dict) and strip(v).get('k') == 'addr'}))
        if isinstance(l, dict) and l.get('k') == 'member' and l.get('arrow'):
            nb = strip_load_(l['base'])                       # the neighbour: NODE.prev / NODE.next
            if isinstance(nb, dict) and nb.get('k') == 'member' and last_member(nb) in LINKS and nb.get('field') != l.get('field'):
                node = nb['base'] if not nb.get('arrow') else h.deref_target(nb['base'], cp)
                return node is not None and last_member(node) in LE_MEMBER
    return False


def _reads_memory(x):
    """the value is (partly) read from memory: not a constant, an address computation or a copy of locals"""
    for n in walk(x):
        if n.get('k') == 'load':
            t = strip_load_(n)
            if not (isinstance(t, dict) and t.get('k') == 'var' and t.get('vk') in ('local', 'param') and (t.get('ptr') or not t.get('record'))):
                return True
        if n.get('k') == 'call':
            return True
    return False


def cancelled(ctx, rid='R-C04i'):
    prog = ctx.prog
    h.need('num')
    # (1) unregistered means gone
    u = prog.fn('iv_timer_unregister')
    g = h.inline_root(prog, u)
    copies = h.ptr_copies(g)

    def removal(e):
        if e['ev'] == 'store' and h.is_num(e['lhs']) and (e.get('op') in ('--', '-=') or (e.get('op') == '=' and 'rhs' in e)):
            return True
        return _unlinks_expired(e, copies.get((e['_b'], e['_i']), {}))
    mp = must_pass(g, removal)
    outs = [(pb, pi, e) for (pb, pi, e) in exits_of(g)] + ([(g.exit, 0, None)] if (g.exit, 0) in mp else [])
    bad = [(e or True) for (pb, pi, e) in outs if mp.get((pb, pi)) is False]
    if not outs:
        raise AnalysisBroken('%s never returns' % u.name)
    nrem = sum(1 for e in g.events() if removal(e))
    ctx.ob(rid, 'iv_timer_unregister:gone-on-return', not bad and nrem > 0, loc=(bad[0].get('loc') if bad and isinstance(bad[0], dict) else None) or u.loc,
           detail='on every path on which iv_timer_unregister returns, the timer was removed from the heap (timer count lowered) or its list_expired '
                  'node was unlinked from the batch of expired timers (a timer that iv_run_timers already collected is otherwise still run '
                  'after it was cancelled); %d removal sites' % nrem,
           path=None if not bad or not isinstance(bad[0], dict) else path_to(g, bad[0]), fn=u.q)
    # (2) the runner runs what is in the batch now
    n = 0
    for (root, g, links) in _expiry_contexts(prog):
        org = h.Origins(g)
        calls = []
        for e in g.events():
            if e['ev'] == 'call' and 'fnexpr' in e:
                cands = [e['fnexpr']] + list(org.of(e['fnexpr'], (e['_b'], e['_i'])))
                if any(last_member(c) in HANDLER_MEMBER for c in cands if isinstance(c, dict)):
                    calls.append(e)
        if not calls:
            continue

        def user_code(e):
            return e['ev'] == 'call' and 'fnexpr' in e and (callback_kind(e) or ('', ''))[0] != 'method'

        def tr(e, S):
            if e['ev'] == 'store':
                l = strip(e['lhs'])
                if isinstance(l, dict) and l.get('k') == 'var' and l.get('vk') in ('local', 'param'):
                    nm = l['name']
                    rest = frozenset(x for x in S if x[0] != nm)
                    if e.get('op') == '=' and 'rhs' in e:
                        used = {y['name'] for y in walk(e['rhs']) if y.get('k') == 'var'}
                        if any(v in used and st == 'S' for (v, st) in S):
                            return rest | {(nm, 'S')}
                        if _reads_memory(e['rhs']) or any(v in used for (v, st) in S):
                            return rest | {(nm, 'D')}
                        return rest
                    return S
            elif e['ev'] == 'decl':
                return frozenset(x for x in S if x[0] != e['name'])
            elif user_code(e):
                return frozenset((v, 'S') for (v, st) in S)
            return S
        _, ev_in = forward(g, frozenset(), tr, lambda a, b: a | b)
        bysite = {}
        for c in calls:
            S = ev_in.get((c['_b'], c['_i']))
            used = {y['name'] for k_ in ('fnexpr', 'args') for y in walk(c.get(k_, [])) if y.get('k') == 'var'}
            stale = sorted(v for (v, st) in (S or ()) if st == 'S' and v in used)
            ok = S is not None and not stale
            prev = bysite.get(c['loc'], (True, c, []))
            bysite[c['loc']] = (prev[0] and ok, c, prev[2] + stale)
        for loc, (ok, c, stale) in sorted(bysite.items()):
            n += 1
            ctx.ob(rid, '%s:handler-of-timer-read-from-batch' % root.name, ok, loc=loc,
                   detail='the timer whose handler is called by %s was read from the batch after the latest user code (a handler) ran, so a timer '
                          'that the previous handler unregistered (unlinked) is not run%s'
                          % (describe(c), '' if ok else ': the call uses %s, read before a handler ran' % ', '.join(sorted(set(stale)))),
                   path=None if ok else path_to(g, c), fn=root.q)
    if not n:
        raise AnalysisBroken('no call through a timer\'s handler found in the contexts that expire timers')


# --------------------------------------------------------------------------
# R-C04j: the deadline that reaches a kernel timer is taken as what it is
# --------------------------------------------------------------------------

# kernel calls that program a timer from a time value: (flags argument, new-value argument, bit of the flags argument that makes
# the kernel read the value as an absolute time on the timer's clock -- without it the value is an interval from now)
KERNEL_TIMERS = {'timerfd_settime': (1, 2, 1)}
TIMER_CLOCKS = {'timerfd_create': 0}               # creation of the timer: argument that names the clock it counts on
CLOCK_READS = {'clock_gettime': 0}                 # reading a clock: argument that names it
_STRUCT_FIELDS = {'timespec': (('tv_sec',), ('tv_nsec',)),
                  'itimerspec': (('it_value', 'tv_sec'), ('it_value', 'tv_nsec'), ('it_interval', 'tv_sec'), ('it_interval', 'tv_nsec'))}
_REC_RE = __import__('re').compile(r'struct\s+(\w+)')


def _struct_rec(l):
    """record name when lvalue l is a struct object (not a pointer to one), else None"""
    l = strip(l)
    if not isinstance(l, dict):
        return None
    if l.get('k') == 'var':
        return l.get('record') if not l.get('ptr') else None
    if l.get('k') == 'member':
        return l.get('trecord') if not l.get('tptr') else None
    t = l.get('type') or ''
    m = _REC_RE.search(t)
    return m.group(1) if m and '*' not in t else None


def _sub(z, fields):
    """lvalue z.f1.f2 (through `->` when z is `*p`)"""
    for f in fields:
        zs = z
        if isinstance(zs, dict) and zs.get('k') == 'deref':
            z = {'k': 'member', 'arrow': True, 'base': zs['e'], 'field': f}
        else:
            z = {'k': 'member', 'arrow': False, 'base': zs, 'field': f}
    return z


def absolute(ctx, rid='R-C04j'):
    """What a kernel timer makes of the deadline.  Every context (exported function / method slot, helpers inlined) that
    reaches a call which programs a kernel timer and that is given the deadline (its one `struct timespec *` parameter) is
    executed on concrete values -- loop clock NOW (valid), absolute deadline NOW + d, and the zero deadline -- along every
    path to that call.  There the value handed to the kernel and the flags are read off the path's memory, and the moment
    the timer fires follows from the kernel's reading: the value itself when the absolute-time flag is set, NOW + value
    when it is not, never when the value is zero (that disarms).  Demanded: it fires, and not later than the deadline (the
    current time for a deadline that passed) plus the millisecond the property allows.  How the value gets there (struct copy,
    field by field, through a snapshot, converted to an interval and armed without the flag) is free.
    And: the clock the timer counts on is the one the loop's clock reader reads (first, from the program's initial state)."""
    prog = ctx.prog
    h.bind(prog)
    ctxs = h.contexts(prog, lambda e: is_call(e, tuple(KERNEL_TIMERS)), stop=SLOT_STOP)
    if not ctxs:
        raise AnalysisBroken('no call that programs a kernel timer (%s) found' % ', '.join(sorted(KERNEL_TIMERS)))
    future = [(0, 1), (0, 999999), (3, 500000), (7, 999999999)]
    past = [(0, 0), (-1, 0), (-2, 400000001)]
    ZERO = 'zero'
    now_ns = NOW[0] * 1000000000 + NOW[1]
    seen = {}
    narm = 0
    for (root, g, sites) in ctxs:
        ps = [p['name'] for p in root.params if p.get('ptr') and p.get('record') == 'timespec']
        if len(ps) != 1:
            continue                                   # no deadline is given to this context: it does not arm for one
        narm += 1
        absn = ps[0]
        copies = h.ptr_copies(g)
        pvar = {'k': 'load', 'e': {'k': 'var', 'name': absn, 'vk': 'param', 'ptr': True, 'record': 'timespec'}}
        keys = {('A', 'tv_sec'): {h.ts_key({'k': 'deref', 'e': pvar}, 'tv_sec')}, ('A', 'tv_nsec'): {h.ts_key({'k': 'deref', 'e': pvar}, 'tv_nsec')},
                ('B', 'tv_sec'): set(), ('B', 'tv_nsec'): set()}
        valid_keys = set()
        for x0, cp in _all_exprs(g, copies):
            for x in walk(x0):
                if x.get('k') == 'member' and x.get('field') in h.TS_FIELDS:
                    z = h.ts_operand(x, cp)
                    if z and h.deref_of_var(z[0]) == absn:
                        keys[('A', z[1])] |= {canon(x), h.ts_key(z[0], z[1])}
                    elif z and h.is_clock(z[0]):
                        keys[('B', z[1])] |= {canon(x), h.ts_key(z[0], z[1])}
                elif x.get('k') == 'member' and h.is_flag(x):
                    valid_keys.add(canon(x))

        def hook(e, env, asg, path, keys=keys, copies=copies):
            if h.is_clock_read(e, copies.get((e['_b'], e['_i']), {})):
                for k in keys[('B', 'tv_sec')]:
                    path['mem'][k] = NOW[0]
                for k in keys[('B', 'tv_nsec')]:
                    path['mem'][k] = NOW[1]
            if e['ev'] == 'store' and e.get('op') == '=' and 'rhs' in e:
                rec = _struct_rec(e['lhs'])
                if rec in _STRUCT_FIELDS:
                    # assignment of a whole time value: its fields go along
                    dst = strip(h._through(e['lhs'], path['ptrs']))
                    src = strip(h._through(e['rhs'], path['ptrs']))
                    for fs in _STRUCT_FIELDS[rec]:
                        try:
                            v = path['eval']({'k': 'load', 'e': _sub(src, fs)}) if isinstance(src, dict) and src.get('k') in ('var', 'member', 'deref', 'index') else None
                        except interp.Undecided:
                            v = None
                        k_ = canon(_sub(dst, fs))
                        if v is None:
                            path['mem'].pop(k_, None)
                        else:
                            path['mem'][k_] = v
            if is_call(e, tuple(KERNEL_TIMERS)):
                fi, vi, bit = KERNEL_TIMERS[e['callee']]
                got = {'sink': e}
                try:
                    got['flags'] = path['eval'](e['args'][fi])
                except (interp.Undecided, IndexError):
                    got['flags'] = None
                p = strip(h._through(e['args'][vi], path['ptrs'])) if len(e.get('args', [])) > vi else None
                z = p['e'] if isinstance(p, dict) and p.get('k') == 'addr' else ({'k': 'deref', 'e': e['args'][vi]} if p is not None else None)
                for nm, fs in (('sec', ('it_value', 'tv_sec')), ('nsec', ('it_value', 'tv_nsec'))):
                    try:
                        got[nm] = path['eval']({'k': 'load', 'e': _sub(z, fs)}) if z is not None else None
                    except interp.Undecided:
                        got[nm] = None
                path['armed'] = got
                raise h.Stop()
        for d in future + past + [ZERO]:
            if d == ZERO:
                dl = (0, 0)
            else:
                tot = now_ns + d[0] * 1000000000 + d[1]
                dl = (tot // 1000000000, tot % 1000000000)
            ints = {}
            for k in keys[('A', 'tv_sec')]:
                ints[k] = dl[0]
            for k in keys[('A', 'tv_nsec')]:
                ints[k] = dl[1]
            for k in keys[('B', 'tv_sec')]:
                ints[k] = NOW[0]
            for k in keys[('B', 'tv_nsec')]:
                ints[k] = NOW[1]
            for k in valid_keys:
                ints[k] = h.ROLE['valid']
            for path in h.explore(g, bools={absn: True}, ints=ints, on_event=hook, goal_blocks={e['_b'] for e in sites}):
                if 'armed' in path:
                    seen.setdefault(d, []).append((path['armed'], root, dl))
    if not narm:
        raise AnalysisBroken('no context that programs a kernel timer is given a deadline (one struct timespec * parameter)')
    for d in future + past + [ZERO]:
        got = seen.get(d, [])
        if not got:
            raise AnalysisBroken('absolute: the call that programs the kernel timer is not reached for deadline %s' % (d,))
        bad, details = [], []
        for (a, root, dl) in got:
            bit = KERNEL_TIMERS[a['sink']['callee']][2]
            if a['flags'] is None or a['sec'] is None or a['nsec'] is None:
                raise AnalysisBroken('absolute: %s: the value / flags handed to %s are not determined by the evaluated path (flags %s, value %s s %s ns)'
                                     % (root.name, a['sink']['callee'], a['flags'], a['sec'], a['nsec']))
            v_ns = a['sec'] * 1000000000 + a['nsec']
            isabs = bool(a['flags'] & bit)
            limit = max(dl[0] * 1000000000 + dl[1], now_ns) + 1000000
            if a['sec'] == 0 and a['nsec'] == 0:
                verdict, fire = 'is disarmed by the zero value: it never fires', None
            elif a['sec'] < 0 or not (0 <= a['nsec'] < 1000000000):
                verdict, fire = 'is refused by the kernel (invalid time value)', None
            else:
                fire = v_ns if isabs else now_ns + v_ns
                verdict = 'fires at %d.%09d' % (fire // 1000000000, fire % 1000000000)
            ok = fire is not None and fire <= limit
            what = '%s(value %d s %d ns, %s): %s' % (a['sink']['callee'], a['sec'], a['nsec'],
                                                     'absolute-time flag set' if isabs else 'no absolute-time flag: an interval from now', verdict)
            details.append(what)
            if not ok:
                bad.append((a, root, what))
        first = (bad or [(got[0][0], got[0][1], details[0])])[0]
        name = 'arm(zero deadline)' if d == ZERO else ('arm(sec=%d,nsec=%d)' % d if d in future else 'arm(past:sec=%d,nsec=%d)' % d)
        dl = got[0][2]
        ctx.ob(rid, name + ':fires-by-the-deadline', not bad, loc=first[0]['sink']['loc'], fn=first[1].q,
               detail='loop clock %d.%09d, absolute deadline %d.%09d: %s; the kernel timer that stands in for the wait\'s deadline must fire, and not '
                      'later than the deadline (now, for one that passed) plus one millisecond -- the waits that rely on it have no timeout of their own'
                      % (NOW[0], NOW[1], dl[0], dl[1], first[2]))
    # the clock the kernel timer counts on
    reader = prog.fn('iv_time_get')
    rg = h.inline_root(prog, reader)
    # the loop's clock: the clock the reader reads first when evaluated from the program's initial state (integer variables with
    # static storage at their initialiser, 0 without one); clocks it falls back to after a failure are not what the deadlines
    # of a running loop are measured on
    init = {}
    for x0, _cp in _all_exprs(rg, {}):
        for x in walk(x0):
            if x.get('k') == 'var' and x.get('vk') == 'global' and _is_int_lvalue(x):
                gl = [v for v in prog.globals.values() if v.get('name') == x['name'] and not v.get('extern_decl')]
                iv = h.const_of(gl[0]['init']) if len(gl) == 1 and isinstance(gl[0].get('init'), dict) else (0 if len(gl) == 1 and 'init' not in gl[0] else None)
                if iv is not None:
                    init[canon(x)] = iv
    read = set()

    def first_read(e, env, asg, path):
        if is_call(e, tuple(CLOCK_READS)):
            c = h.const_of(e['args'][CLOCK_READS[e['callee']]]) if e.get('args') else None
            if c is not None:
                read.add(c)
            raise h.Stop()
    h.explore(rg, ints=init, on_event=first_read)
    ncl = 0
    for f in sorted(prog.all_funcs(), key=lambda f: f.q):
        bysite = {}
        for e in f.events():
            if is_call(e, tuple(TIMER_CLOCKS)):
                c = h.const_of(e['args'][TIMER_CLOCKS[e['callee']]]) if e.get('args') else None
                bysite[e['loc']] = (e, c)
        for loc, (e, c) in sorted(bysite.items()):
            ncl += 1
            ctx.ob(rid, '%s:counts-on-the-loop-clock' % e['callee'], c is not None and c in read, loc=loc, fn=f.q,
                   detail='the kernel timer is created on clock id %s; the deadlines it is armed with are times on the clock iv_time_get() reads '
                          '(clock id %s, the one it reads first from the initial state): an absolute time armed on another clock is a different moment' % (c, sorted(read)))
    if not ncl:
        raise AnalysisBroken('no creation of a kernel timer (%s) found' % ', '.join(sorted(TIMER_CLOCKS)))
